//! Property C02: dense and readable generators emit code that means the same tree.
//!
//! (1) exhaustive correspondence of the real parenthesis decisions
//!     (`BinaryOperator::{left,right}_needs_parentheses`, `TypeCastExpression::needs_parentheses`,
//!     the unary-operand rule observed on the real generator) and of
//!     `should_break_with_space` / `break_*` against the Lean model;
//! (2) trace correspondence: every real generator run yields its primitive write operations
//!     (hook in dense.rs / readable.rs); the Lean writer model replays them and must reproduce
//!     the output byte for byte;
//! (3) oracle, independent of the model: the generated text is re-read by the Lean parser
//!     (`C02/Parse.lean`) and by darklua's own parser and compared with the source tree modulo
//!     operand-position parentheses.
mod gen;
mod sexp;
mod tree;
mod types;

use crate::model::{hex, Model};
use crate::report::{known_findings, Report, Violation};
use crate::rng::Rng;
use darklua_core::generator::{DenseLuaGenerator, LuaGenerator, ReadableLuaGenerator};
use darklua_core::nodes as n;
use darklua_core::verif_hooks as hooks;
use gen::*;
use serde_json::{json, Value};
use std::collections::{BTreeMap, HashMap};
use std::panic::{catch_unwind, AssertUnwindSafe};
use tree::*;

const KINDS: [&str; 2] = ["dense", "readable"];

/// `should_break_with_space` TRUE entries of the real function OR of the Lean model (so an entry
/// lost by either side is still exercised), filled by `table_correspondence`.
static BREAK_TABLE_UNION: std::sync::OnceLock<Vec<bool>> = std::sync::OnceLock::new();

fn break_table_union(a: char, b: char) -> bool {
    let (a, b) = (a as usize, b as usize);
    if a >= 128 || b >= 128 {
        return false;
    }
    match BREAK_TABLE_UNION.get() {
        Some(t) => t[a * 128 + b],
        None => hooks::should_break_with_space(a as u8 as char, b as u8 as char),
    }
}

// ------------------------------------------------------------------ real generator runs

#[derive(Clone, Debug)]
pub struct Run {
    pub text: String,
    pub ops: Vec<hooks::TraceOp>,
}

fn generate(kind: &str, span: usize, block: &n::Block) -> Result<Run, String> {
    let result = catch_unwind(AssertUnwindSafe(|| {
        hooks::trace_start();
        let text = if kind == "dense" {
            let mut g = DenseLuaGenerator::new(span);
            g.write_block(block);
            g.into_string()
        } else {
            let mut g = ReadableLuaGenerator::new(span);
            g.write_block(block);
            g.into_string()
        };
        let ops = hooks::trace_take();
        Run { text, ops }
    }));
    result.map_err(|p| {
        let _ = hooks::trace_take();
        p.downcast_ref::<String>().cloned().or_else(|| p.downcast_ref::<&str>().map(|s| s.to_string())).unwrap_or_else(|| "panic".into())
    })
}

fn darklua_parse(text: &str) -> Result<Blk, String> {
    let parsed = catch_unwind(AssertUnwindSafe(|| darklua_core::Parser::default().parse(text)));
    match parsed {
        Err(_) => Err("darklua parser panicked".into()),
        Ok(Err(err)) => Err(format!("darklua parser rejects: {:?}", err).chars().take(300).collect()),
        Ok(Ok(block)) => from_block(&block),
    }
}

fn lean_parse(model: &mut Model, text: &str) -> Result<Blk, String> {
    let answer = model.ask(&format!("c02.parse {}", hex(text.as_bytes())));
    if answer.starts_with("err") || answer == "error" {
        return Err(format!("Lean parser rejects: {}", answer));
    }
    let sx = sexp::parse(&answer).ok_or_else(|| format!("unreadable parser answer: {}", answer))?;
    sexp::to_blk(&sx).ok_or_else(|| format!("parser answer is not a block: {}", answer))
}

// ------------------------------------------------------------------ trace on the wire

/// The trace records every primitive call, nested calls included, in call order. The Lean
/// replay (`Driver.replay`) predicts the nested calls of each top-level call from the model
/// state, checks them against the trace and steps the model on the top-level calls.
fn ops_wire(ops: &[hooks::TraceOp]) -> String {
    ops.iter()
        .map(|t| format!("{}:{}:{}", t.op, hex(t.text.as_bytes()), t.detail))
        .collect::<Vec<_>>()
        .join(" ")
}

// ------------------------------------------------------------------ per-thread results

#[derive(Default)]
struct Local {
    evaluations: u64,
    keys: Vec<u64>,
    hist: BTreeMap<(String, String), u64>,
    counters: BTreeMap<String, u64>,
    violations: Vec<Violation>,
    samples: Vec<Value>,
    /// (last written char, first char of the next push) seen at `push_space_if_needed` in real
    /// dense runs, restricted to pairs of the break table's TRUE entries
    exercised: std::collections::BTreeSet<(u8, u8)>,
}

impl Local {
    fn hist(&mut self, name: &str, bucket: &str) {
        *self.hist.entry((name.to_owned(), bucket.to_owned())).or_default() += 1;
    }
    fn count(&mut self, name: &str, k: u64) {
        *self.counters.entry(name.to_owned()).or_default() += k;
    }
    fn merge_into(self, report: &mut Report) {
        report.evaluations += self.evaluations;
        for k in self.keys {
            report.case(Some(k));
            report.evaluations -= 1;
        }
        for ((name, bucket), v) in self.hist {
            *report.histograms.entry(name).or_default().entry(bucket).or_default() += v;
        }
        for (name, v) in self.counters {
            report.count(&name, v);
        }
        for v in self.violations {
            report.violation(v);
        }
        for s in self.samples {
            report.sample(s);
        }
    }
}

/// The pairs (previous character, first character of the pushed content) on which the real
/// dense run consulted `should_break_with_space`, read off the trace.
fn consulted_pairs(ops: &[hooks::TraceOp]) -> Vec<(char, char)> {
    let mut pairs = Vec::new();
    let mut last: Option<char> = None;
    let mut pending: Option<char> = None;
    for op in ops {
        match op.op {
            "push_char" => pending = op.text.chars().next(),
            "push_space_if_needed" => {
                if let (Some(l), Some(c)) = (last, op.text.chars().next()) {
                    pairs.push((l, c));
                }
                if let Some(c) = pending.take() {
                    last = Some(c);
                }
            }
            "raw_push_str" | "raw_push_char" | "merge_char" => {
                if let Some(c) = op.text.chars().last() {
                    last = Some(c);
                }
            }
            "push_space" => last = Some(' '),
            "push_new_line" => last = Some('\n'),
            _ => {}
        }
    }
    pairs
}

fn tree_input(family: &str, blk: &Blk, kind: &str, span: usize, text: &str) -> Value {
    json!({"family": family, "tree": sexp::blk_str(blk), "generator": kind, "column_span": span, "output": text})
}

/// The three checks on one tree. `spans` are the column spans to run.
fn check_tree(model: &mut Model, family: &str, blk: &Blk, spans: &[usize], local: &mut Local) {
    let node = match catch_unwind(AssertUnwindSafe(|| to_block(blk))) {
        Ok(b) => b,
        Err(_) => {
            local.count("tree_construction_panicked", 1);
            return;
        }
    };
    let expected = norm_block(blk);
    let tuple_arguments = count_tuple_arguments(blk);
    local.hist("family", family);
    let mut seen_text: HashMap<String, ()> = HashMap::new();
    let mut text_failed: HashMap<String, String> = HashMap::new();
    let mut pending_replay_breaks: Vec<(String, Violation)> = Vec::new();
    let mut replay_break: Option<Violation> = None;
    let mut nontrivial = false;
    for kind in KINDS {
        for &span in spans {
            local.evaluations += 1;
            let run = match generate(kind, span, &node) {
                Ok(r) => r,
                Err(msg) => {
                    local.violations.push(Violation {
                        kind: "oracle".into(),
                        check: "generator-panic".into(),
                        what: format!("{} generator panicked: {}", kind, msg),
                        input: tree_input(family, blk, kind, span, ""),
                        failing_input_found: true,
                    });
                    continue;
                }
            };
            // (2) trace replay by the Lean writer model
            if kind == "dense" {
                // trace shape: every tuple argument list is opened by merge_char('('), the one
                // primitive that keeps the `(` on the line of the callee (theorem merge_char_adjacent)
                let merged = run.ops.iter().filter(|o| o.op == "merge_char" && o.text == "(").count();
                if merged != tuple_arguments {
                    local.violations.push(Violation {
                        kind: "correspondence".into(),
                        check: "trace-shape-call-parenthesis".into(),
                        what: format!(
                            "the tree has {} tuple argument lists but the dense generator opened {} with merge_char('('): the others can be separated from their callee by a line break",
                            tuple_arguments, merged
                        ),
                        input: tree_input(family, blk, kind, span, &run.text),
                        failing_input_found: false,
                    });
                }
                for (l, c) in consulted_pairs(&run.ops) {
                    if l.is_ascii() && c.is_ascii() && break_table_union(l, c) {
                        local.exercised.insert((l as u8, c as u8));
                    }
                }
            }
            {
                let ops = &run.ops;
                local.count("trace_ops_replayed", ops.len() as u64);
                let answer = model.ask(&format!("c02.writer {} {} {}", kind, span, ops_wire(ops)));
                let expected_hex = hex(run.text.as_bytes());
                if answer != expected_hex {
                    replay_break = Some(Violation {
                        kind: "correspondence".into(),
                        check: "writer-replay".into(),
                        what: format!(
                            "the Lean {} writer replaying the traced operations gives {} but the real output is {:?}",
                            kind,
                            crate::model::unhex(&answer).map(|b| format!("{:?}", String::from_utf8_lossy(&b))).unwrap_or(answer.clone()),
                            run.text
                        ),
                        input: {
                            let mut v = tree_input(family, blk, kind, span, &run.text);
                            v["trace"] = json!(ops_wire(ops).chars().take(6000).collect::<String>());
                            v
                        },
                        failing_input_found: false,
                    });
                }
                if ops.len() > 6 {
                    nontrivial = true;
                }
            }
            // a model<->code break of the writer: is the property itself broken on this very
            // run? (decided below by the re-readers; then it is reported as an oracle failure
            // with this tree as failing input)
            let text_key = format!("{}\u{0}{}", kind, run.text);
            if let Some(v) = replay_break.take() {
                pending_replay_breaks.push((text_key.clone(), v));
            }
            if run.text.contains(' ') || run.text.contains('\n') {
                local.hist("output", "has-separator");
            } else {
                local.hist("output", "no-separator");
            }
            if span < 20 {
                local.hist("span", "0-19");
            } else if span < 80 {
                local.hist("span", "20-79");
            } else {
                local.hist("span", "80-120");
            }
            // (3) oracle: re-read the text (once per distinct text)
            if seen_text.insert(text_key.clone(), ()).is_some() {
                continue;
            }
            local.count("distinct_texts_reparsed", 1);
            let mut verdicts: Vec<(&str, Result<Blk, String>)> = Vec::new();
            verdicts.push(("lean-parser", lean_parse(model, &run.text)));
            verdicts.push(("darklua-parser", darklua_parse(&run.text)));
            for (who, verdict) in verdicts {
                let failure = match verdict {
                    Err(msg) => Some(msg),
                    Ok(parsed) => {
                        let got = norm_block(&parsed);
                        if got == expected {
                            None
                        } else {
                            Some(format!("re-read tree differs: {}", sexp::blk_str(&got)))
                        }
                    }
                };
                if let Some(msg) = failure {
                    text_failed.entry(text_key.clone()).or_insert_with(|| format!("{}: {}", who, msg.chars().take(200).collect::<String>()));
                    local.violations.push(Violation {
                        kind: "oracle".into(),
                        check: format!("reparse-{}", who),
                        what: format!(
                            "{} generator (column_span {}) wrote {:?} which does not mean the source tree ({}): {}",
                            kind,
                            span,
                            run.text.chars().take(200).collect::<String>(),
                            who,
                            msg.chars().take(400).collect::<String>()
                        ),
                        input: tree_input(family, blk, kind, span, &run.text),
                        failing_input_found: true,
                    });
                }
            }
        }
    }
    for (key, mut v) in pending_replay_breaks {
        if let Some(why) = text_failed.get(&key) {
            v.kind = "oracle".into();
            v.check = "writer-replay-and-reparse".into();
            v.what = format!("{}; and the written text does not mean the source tree ({})", v.what, why);
            v.failing_input_found = true;
        }
        local.violations.push(v);
    }
    if nontrivial {
        local.keys.push(crate::report::hash_of(&sexp::blk_str(blk)));
    }
    if local.samples.len() < 3 && family != "op-pair" {
        if let Ok(r) = generate("dense", 80, &node) {
            local.samples.push(json!({"family": family, "tree": sexp::blk_str(blk), "dense80": r.text}));
        }
    }
}

// ------------------------------------------------------------------ (1) exhaustive tables

/// Model expression (mirror of Lean `E`).
#[derive(Clone, Debug)]
enum ME {
    Atom(usize),
    NegNum(usize),
    Paren(Box<ME>),
    IfExp(Box<ME>, Box<ME>, Box<ME>),
    Cast(Box<ME>, usize),
    Un(usize, Box<ME>),
    Bin(usize, Box<ME>, Box<ME>),
}

const TYPE_NAMES: [&str; 3] = ["T", "number", "Foo"];

fn atom_ex(k: usize) -> Ex {
    match k % 16 {
        0 => id("a"),
        1 => id("b"),
        2 => id("c"),
        3 => num(1.0),
        4 => Ex::Str(b"s".to_vec()),
        5 => Ex::Table(vec![]),
        6 => call(id("f"), vec![]),
        7 => Ex::Field(bx(id("t")), "x".into()),
        8 => Ex::Index(bx(id("t")), bx(num(1.0))),
        9 => Ex::Func(Box::new(Func { params: vec![], variadic: false, body: Blk::default(), sig: None })),
        10 => Ex::True,
        11 => Ex::Nil,
        12 => Ex::Varargs,
        // Luau: an explicit type instantiation is a prefix expression; an interpolated string
        // and a method call with type instantiation are one self-delimiting unit each
        13 => Ex::Inst(bx(id("f")), vec![types::tname("T")]),
        14 => Ex::Interp(vec![Seg::Str(b"s".to_vec()), Seg::Val(id("a"))]),
        _ => Ex::MethodInst(bx(id("o")), "m".into(), vec![types::tname("T")], Args::Tuple(vec![])),
    }
}

impl ME {
    fn sexp(&self) -> String {
        match self {
            ME::Atom(k) => format!("(atom {})", k),
            ME::NegNum(k) => format!("(negnum {})", k),
            ME::Paren(e) => format!("(paren {})", e.sexp()),
            ME::IfExp(c, a, b) => format!("(ifexp {} {} {})", c.sexp(), a.sexp(), b.sexp()),
            ME::Cast(e, t) => format!("(cast {} {})", e.sexp(), t),
            ME::Un(op, e) => format!("(un {} {})", UNOPS[*op], e.sexp()),
            ME::Bin(op, l, r) => format!("(bin {} {} {})", BINOPS[*op], l.sexp(), r.sexp()),
        }
    }
    fn ex(&self) -> Ex {
        match self {
            ME::Atom(k) => atom_ex(*k),
            ME::NegNum(_) => num(-1.0),
            ME::Paren(e) => paren(e.ex()),
            ME::IfExp(c, a, b) => Ex::IfExp(bx(c.ex()), bx(a.ex()), vec![], bx(b.ex())),
            ME::Cast(e, t) => Ex::Cast(bx(e.ex()), types::tname(TYPE_NAMES[*t % 3])),
            ME::Un(op, e) => un(*op, e.ex()),
            ME::Bin(op, l, r) => bin(*op, l.ex(), r.ex()),
        }
    }
    /// the model's token rendering of this atom in the real output
    fn atom_text(k: usize) -> String {
        let node = to_expr(&atom_ex(k));
        let mut g = DenseLuaGenerator::new(10_000);
        g.write_expression(&node);
        g.into_string()
    }
}

fn operand_shapes() -> Vec<ME> {
    use ME::*;
    let b = |e: ME| Box::new(e);
    let mut v: Vec<ME> = Vec::new();
    for k in 0..16 {
        v.push(Atom(k));
    }
    v.push(NegNum(3));
    v.push(Paren(b(Atom(0))));
    v.push(Paren(b(Bin(8, b(Atom(0)), b(Atom(1))))));
    let ife = IfExp(b(Atom(0)), b(Atom(1)), b(Atom(2)));
    let cast = Cast(b(Atom(0)), 0);
    v.push(ife.clone());
    v.push(cast.clone());
    v.push(IfExp(b(Atom(0)), b(Atom(1)), b(cast.clone())));
    v.push(Cast(b(ife.clone()), 1));
    v.push(Paren(b(ife.clone())));
    for u in 0..3 {
        for inner in [Atom(0), NegNum(3), ife.clone(), cast.clone(), Paren(b(ife.clone())), Un(1, b(Atom(0))), Un(u, b(ife.clone())), Bin(14, b(Atom(0)), b(Atom(1))), Bin(8, b(Atom(0)), b(Atom(1)))] {
            v.push(Un(u, b(inner)));
        }
    }
    for q in 0..16 {
        v.push(Bin(q, b(Atom(0)), b(Atom(1))));
        for right in [ife.clone(), cast.clone(), Un(1, b(ife.clone())), Un(2, b(cast.clone())), Bin(q, b(Atom(1)), b(ife.clone())), Bin(14, b(Atom(1)), b(cast.clone())), Paren(b(ife.clone())), NegNum(3)] {
            v.push(Bin(q, b(Atom(0)), b(right)));
        }
        v.push(Bin(q, b(ife.clone()), b(Atom(1))));
        v.push(Bin(q, b(cast.clone()), b(Atom(1))));
        v.push(Bin(q, b(NegNum(3)), b(Atom(1))));
    }
    v
}

fn table_correspondence(report: &mut Report, model: &mut Model) {
    // ---- parenthesis decisions
    let shapes = operand_shapes();
    let mut lines = Vec::new();
    let mut reals = Vec::new();
    let mut inputs = Vec::new();
    for shape in &shapes {
        let node = to_expr(&shape.ex());
        for o in 0..16 {
            let op = n::BinaryExpression::new(binop_of(o), n::Expression::nil(), n::Expression::nil()).operator();
            for side in ["left", "right"] {
                let real = if side == "left" { op.left_needs_parentheses(&node) } else { op.right_needs_parentheses(&node) };
                lines.push(format!("c02.paren {} {} {}", side, BINOPS[o], shape.sexp()));
                reals.push(real);
                inputs.push(json!({"side": side, "operator": BINOPS[o], "operand": shape.sexp()}));
            }
        }
        // TypeCastExpression::needs_parentheses (public)
        lines.push(format!("c02.paren cast - {}", shape.sexp()));
        reals.push(n::TypeCastExpression::needs_parentheses(&node));
        inputs.push(json!({"side": "cast", "operand": shape.sexp()}));
        // unary-operand rule, observed on the real generator: `-X` starts with `-(` iff parenthesised
        let unary = to_expr(&un(1, shape.ex()));
        let mut g = DenseLuaGenerator::new(10_000);
        g.write_expression(&unary);
        let text = g.into_string();
        let mut g = DenseLuaGenerator::new(10_000);
        g.write_expression(&node);
        let alone = g.into_string();
        let with_parens = text == format!("-({})", alone);
        let without = text == format!("-{}", alone) || text == format!("- {}", alone);
        if with_parens || without {
            lines.push(format!("c02.paren unary - {}", shape.sexp()));
            reals.push(with_parens);
            inputs.push(json!({"side": "unary", "operand": shape.sexp(), "dense": text}));
        }
    }
    let answers = model.ask_batch(&lines);
    let mut mismatches = Vec::new();
    for ((answer, real), input) in answers.iter().zip(&reals).zip(&inputs) {
        report.case(Some(input.to_string()));
        report.hist("table", "paren-decision");
        if answer != if *real { "true" } else { "false" } {
            mismatches.push((input.clone(), answer.clone(), *real));
        }
    }
    report.exhaustive.insert("left/right_needs_parentheses: 16 operators x operand shapes (all operand operators, unary, if, cast, negative literal, nested endings)".into(), true);
    for (input, answer, real) in mismatches.into_iter().take(6) {
        report.violation(Violation {
            kind: "correspondence".into(),
            check: "paren-table".into(),
            what: format!("model says {} but the real function says {}", answer, real),
            input,
            failing_input_found: false,
        });
    }
    // ---- printed token skeleton of whole expressions: model printE vs real dense output
    let mut lines = Vec::new();
    let mut reals = Vec::new();
    let mut inputs = Vec::new();
    for shape in &shapes {
        for o in [0usize, 4, 8, 9, 10, 14, 15] {
            for (l, r) in [(shape.clone(), ME::Atom(1)), (ME::Atom(0), shape.clone())] {
                let e = ME::Bin(o, Box::new(l), Box::new(r));
                let mut g = DenseLuaGenerator::new(10_000);
                g.write_expression(&to_expr(&e.ex()));
                reals.push(g.into_string().replace(' ', ""));
                lines.push(format!("c02.print {}", e.sexp()));
                inputs.push(e.sexp());
            }
        }
    }
    let answers = model.ask_batch(&lines);
    let atom_texts: Vec<String> = (0..16).map(ME::atom_text).collect();
    for ((answer, real), input) in answers.iter().zip(&reals).zip(&inputs) {
        report.case(Some(input.clone()));
        report.hist("table", "printE-skeleton");
        let rendered: String = answer
            .split(' ')
            .map(|tok| render_token(tok, &atom_texts))
            .collect::<Vec<_>>()
            .join("");
        if &rendered.replace(' ', "") != real {
            report.violation(Violation {
                kind: "correspondence".into(),
                check: "printE-skeleton".into(),
                what: format!("model prints {:?} but the dense generator writes {:?}", rendered, real),
                input: json!({"expression": input}),
                failing_input_found: false,
            });
        }
    }
    // ---- ends_with_prefix (crate-private, through the hook) on `x = <expression>`
    let mut lines = Vec::new();
    let mut reals = Vec::new();
    let mut inputs = Vec::new();
    for shape in &shapes {
        for e in [shape.clone(), ME::Bin(9, Box::new(ME::Atom(0)), Box::new(shape.clone())), ME::Un(1, Box::new(shape.clone()))] {
            // a negative literal is a number whatever the model's atom index says
            if e.sexp().contains("negnum") {
                continue;
            }
            let statement = to_statement(&St::Assign(vec![id("x")], vec![e.ex()]));
            reals.push(hooks::ends_with_prefix(&statement));
            lines.push(format!("c02.endsprefix {}", e.sexp()));
            inputs.push(e.sexp());
        }
    }
    let answers = model.ask_batch(&lines);
    for ((answer, real), input) in answers.iter().zip(&reals).zip(&inputs) {
        report.case(Some(("endsprefix", input.clone())));
        report.hist("table", "ends_with_prefix");
        if answer != if *real { "true" } else { "false" } {
            report.violation(Violation {
                kind: "correspondence".into(),
                check: "ends-with-prefix".into(),
                what: format!("ends_with_prefix(x = e) is {} but the model says {}", real, answer),
                input: json!({"expression": input}),
                failing_input_found: false,
            });
        }
    }
    // ---- should_break_with_space: all 128 x 128 pairs
    let mut lines = Vec::with_capacity(128 * 128);
    for a in 0..128u32 {
        for b in 0..128u32 {
            lines.push(format!("c02.brk {} {}", a, b));
        }
    }
    let answers = model.ask_batch(&lines);
    let mut k = 0;
    let mut union = vec![false; 128 * 128];
    for a in 0..128u32 {
        for b in 0..128u32 {
            let real = hooks::should_break_with_space(char::from_u32(a).unwrap(), char::from_u32(b).unwrap());
            union[(a * 128 + b) as usize] = real || answers[k] == "true";
            if real {
                report.case(Some(("brk", a, b)));
            } else {
                report.case(None::<u64>);
            }
            if answers[k] != if real { "true" } else { "false" } {
                report.violation(Violation {
                    kind: "correspondence".into(),
                    check: "break-table".into(),
                    what: format!("should_break_with_space({:?}, {:?}) is {} but the model says {}", char::from_u32(a).unwrap(), char::from_u32(b).unwrap(), real, answers[k]),
                    input: json!({"ending": a, "next": b}),
                    failing_input_found: false,
                });
            }
            k += 1;
        }
    }
    let _ = BREAK_TABLE_UNION.set(union);
    report.hist("table", "should_break_with_space 128x128");
    report.exhaustive.insert("should_break_with_space: all 128 x 128 ASCII pairs".into(), true);
    // ---- break_* predicates: all strings of length <= 2 over a relevant alphabet
    let alphabet = b".-[>=09a_ x]";
    let mut samples: Vec<Vec<u8>> = vec![vec![]];
    for a in alphabet {
        samples.push(vec![*a]);
        for b in alphabet {
            samples.push(vec![*a, *b]);
            samples.push(vec![*a, b'q', *b]);
        }
    }
    let preds: [(&str, fn(&str) -> bool); 5] = [
        ("concat", hooks::break_concat),
        ("varargs", hooks::break_variable_arguments),
        ("minus", hooks::break_minus),
        ("equal", hooks::break_equal),
        ("longstring", hooks::break_long_string),
    ];
    let mut lines = Vec::new();
    let mut reals = Vec::new();
    for (name, f) in preds {
        for s in &samples {
            lines.push(format!("c02.brkpred {} {}", name, hex(s)));
            reals.push((name, s.clone(), f(std::str::from_utf8(s).unwrap())));
        }
    }
    let answers = model.ask_batch(&lines);
    for (answer, (name, s, real)) in answers.iter().zip(&reals) {
        report.case(Some((name, s)));
        if answer != if *real { "true" } else { "false" } {
            report.violation(Violation {
                kind: "correspondence".into(),
                check: "break-predicate".into(),
                what: format!("break_{}({:?}) is {} but the model says {}", name, String::from_utf8_lossy(s), real, answer),
                input: json!({"predicate": name, "last_push": hex(s)}),
                failing_input_found: false,
            });
        }
    }
    report.hist("table", "break_* predicates");
}

fn binop_of(i: usize) -> n::BinaryOperator {
    match to_expr(&bin(i, Ex::Nil, Ex::Nil)) {
        n::Expression::Binary(b) => b.operator(),
        _ => unreachable!(),
    }
}

fn render_token(tok: &str, atoms: &[String]) -> String {
    let symbols = [
        ("and", "and"), ("or", "or"), ("eq", "=="), ("ne", "~="), ("lt", "<"), ("le", "<="), ("gt", ">"),
        ("ge", ">="), ("add", "+"), ("sub", "-"), ("mul", "*"), ("div", "/"), ("idiv", "//"), ("mod", "%"),
        ("pow", "^"), ("concat", ".."),
    ];
    if let Some((_, s)) = symbols.iter().find(|(n, _)| *n == tok) {
        return (*s).to_owned();
    }
    if let Some(k) = tok.strip_prefix('a').and_then(|d| d.parse::<usize>().ok()) {
        // a negative literal prints as `-` followed by the atom of its absolute value
        return atoms.get(k % 16).cloned().unwrap_or_default();
    }
    if let Some(t) = tok.strip_prefix('t').and_then(|d| d.parse::<usize>().ok()) {
        return TYPE_NAMES[t % 3].to_owned();
    }
    tok.to_owned()
}

// ------------------------------------------------------------------ known finding F23

fn replay_known(report: &mut Report) {
    for finding in known_findings("C02") {
        let id = finding["id"].as_str().unwrap_or("?").to_owned();
        let witness = &finding["witness"];
        let tree = witness["tree"].as_str().unwrap_or("");
        let kind = witness["generator"].as_str().unwrap_or("dense");
        let span = witness["column_span"].as_u64().unwrap_or(80) as usize;
        let blk = match sexp::parse(tree).and_then(|s| sexp::to_blk(&s)) {
            Some(b) => b,
            None => {
                report.notes.push(format!("{}: witness tree unreadable", id));
                continue;
            }
        };
        let node = to_block(&blk);
        if let Ok(run) = generate(kind, span, &node) {
            let still = match darklua_parse(&run.text) {
                Ok(parsed) => norm_block(&parsed) != norm_block(&blk),
                Err(_) => true,
            };
            if still {
                report.known_finding(&id, &format!("tree {} is written {:?}, which reads back as a different tree", tree, run.text));
            }
        }
    }
}

// ------------------------------------------------------------------ driver

fn spans_for(thorough: bool, rng: &mut Rng, full: bool) -> Vec<usize> {
    if thorough && full {
        (0..=120).collect()
    } else if thorough {
        let mut v = vec![0, 1, 2, 3, 5, 8, 13, 20, 40, 80, 120];
        for _ in 0..6 {
            v.push(rng.below(121));
        }
        v.sort();
        v.dedup();
        v
    } else {
        let mut v = vec![0, 1, 2, 80];
        v.push(3 + rng.below(30));
        v.push(rng.below(121));
        v.sort();
        v.dedup();
        v
    }
}

pub fn run(report: &mut Report, replay: Option<&str>) {
    report.rule = "trees: adjacency family derived from the break table (for every TRUE entry of should_break_with_space, real or model, that the core grammar can juxtapose: statement pairs / keyword clauses / operator forms whose dense text puts the two characters at a push boundary; coverage counted from the traces), enumerated families (all operator pairs in both nestings, operator triples in all 5 shapes, unary chains, negative literals, numbers/dots/long strings adjacency, `;` insertion for every statement-ending x `(`-starting statement, every expression kind in every operand position) then random trees over every node kind; each tree x {dense, readable} x column spans. Non-trivial = the run performed more than 3 primitive writes (distinct trees counted); table cases count distinct decisions (break pairs only where the real answer is `true`).".into();
    let thorough = report.is_thorough();
    let mut rng = Rng::new(report.seed);

    if let Some(path) = replay {
        replay_file(report, path);
        return;
    }
    replay_known(report);
    corpus(report);
    let mut model = Model::spawn();
    table_correspondence(report, &mut model);
    drop(model);

    // ---- trees
    let mut work: Vec<(String, Blk, Vec<usize>)> = Vec::new();
    for (family, blk) in enumerated(thorough, &mut rng) {
        let spans = spans_for(thorough, &mut rng, false);
        work.push((family.to_owned(), blk, spans));
    }
    for (family, blk) in const_family() {
        let spans = spans_for(thorough, &mut rng, false);
        work.push((family.to_owned(), blk, spans));
    }
    for (family, blk) in number_family(&mut rng, thorough) {
        let spans = spans_for(thorough, &mut rng, false);
        work.push((family.to_owned(), blk, spans));
    }
    for (family, blk) in type_family(&mut rng, thorough) {
        let spans = spans_for(thorough, &mut rng, false);
        work.push((family.to_owned(), blk, spans));
    }
    // adjacency family, derived from the break table itself: every TRUE entry (of the real table
    // or of the model) that the core grammar can juxtapose gets at least one real output
    let mut adjacency_has_witness: std::collections::BTreeSet<(u8, u8)> = Default::default();
    let mut true_entries: Vec<(u8, u8)> = Vec::new();
    for c1 in 0..128u8 {
        for c2 in 0..128u8 {
            if !break_table_union(c1 as char, c2 as char) {
                continue;
            }
            true_entries.push((c1, c2));
            let all_forms = thorough || ("09aZ_ednfx".contains(c1 as char) && "_aZe09G".contains(c2 as char));
            let witnesses = adjacency_witnesses(c1 as char, c2 as char, c1 as usize + 3 * c2 as usize, all_forms);
            if !witnesses.is_empty() {
                adjacency_has_witness.insert((c1, c2));
            }
            for blk in witnesses {
                let mut spans = vec![120, 0, 1 + rng.below(40)];
                if thorough {
                    spans.extend([1, 2, 5, 9, 14, 20]);
                }
                work.push(("adjacency".to_owned(), blk, spans));
            }
        }
    }
    let random_count = if thorough { 25_000 } else { 6_000 };
    let full_span_count = if thorough { 3_000 } else { 0 };
    let mut g = Gen::new(rng.fork());
    for i in 0..random_count {
        let depth = 1 + g.rng.below(3);
        let blk = if g.rng.chance(1, 3) { ret(vec![g.expr(depth + 1)]) } else { g.block(depth) };
        let spans = spans_for(thorough, &mut rng, i < full_span_count);
        work.push(("random".to_owned(), blk, spans));
    }
    if thorough {
        // every span on a slice of the enumerated families as well
        let mut extra = enumerated(false, &mut rng);
        rng.shuffle(&mut extra);
        for (family, blk) in extra.into_iter().take(1_500) {
            work.push((family.to_owned(), blk, (0..=120).collect()));
        }
    }
    report.count("trees", work.len() as u64);

    let threads = std::thread::available_parallelism().map(|n| n.get()).unwrap_or(4).min(16);
    let chunks: Vec<Vec<(String, Blk, Vec<usize>)>> = {
        let mut c: Vec<Vec<_>> = (0..threads).map(|_| Vec::new()).collect();
        for (i, w) in work.into_iter().enumerate() {
            c[i % threads].push(w);
        }
        c
    };
    let locals: Vec<Local> = std::thread::scope(|scope| {
        let handles: Vec<_> = chunks
            .into_iter()
            .map(|chunk| {
                scope.spawn(move || {
                    let mut model = Model::spawn();
                    let mut local = Local::default();
                    for (family, blk, spans) in &chunk {
                        check_tree(&mut model, family, blk, spans, &mut local);
                    }
                    local
                })
            })
            .collect();
        handles.into_iter().map(|h| h.join().expect("worker panicked")).collect()
    });
    let mut exercised: std::collections::BTreeSet<(u8, u8)> = Default::default();
    // smallest failing inputs first (the report keeps a handful per check)
    let mut locals = locals;
    let mut all_violations: Vec<Violation> = locals.iter_mut().flat_map(|l| std::mem::take(&mut l.violations)).collect();
    all_violations.sort_by_key(|v| v.input["tree"].as_str().map_or(0, |t| t.len()) + v.input["output"].as_str().map_or(0, |t| t.len()));
    for v in all_violations {
        report.violation(v);
    }
    for local in locals {
        exercised.extend(local.exercised.iter().cloned());
        local.merge_into(report);
    }
    // coverage of the break table by real dense outputs
    let mut unreached: BTreeMap<&'static str, u64> = BTreeMap::new();
    let mut witness_missed: Vec<String> = Vec::new();
    for (c1, c2) in &true_entries {
        if exercised.contains(&(*c1, *c2)) {
            continue;
        }
        if adjacency_has_witness.contains(&(*c1, *c2)) {
            witness_missed.push(format!("{:?}{:?}", *c1 as char, *c2 as char));
        }
        *unreached.entry(unreachable_reason(*c1 as char, *c2 as char)).or_default() += 1;
    }
    report.count("break_table_true_entries", true_entries.len() as u64);
    report.count(
        "break_table_true_entries_consulted_by_a_real_dense_run",
        true_entries.iter().filter(|p| exercised.contains(p)).count() as u64,
    );
    report.count("break_table_true_entries_with_an_adjacency_witness", adjacency_has_witness.len() as u64);
    for (reason, n) in &unreached {
        report.notes.push(format!("break table: {} TRUE entries are never consulted by a real run — {}", n, reason));
    }
    if !witness_missed.is_empty() {
        report.notes.push(format!(
            "adjacency family: {} entries have a witness block that did not make the dense generator consult the pair: {}",
            witness_missed.len(),
            witness_missed.iter().take(20).cloned().collect::<Vec<_>>().join(" ")
        ));
    }
    // both kinds are reported (capped per check key by `Report::violation`): a correspondence
    // break is deterministic evidence even when the oracle also found a failing input
}

fn corpus(report: &mut Report) {
    let dir = concat!(env!("CARGO_MANIFEST_DIR"), "/../corpus/C02");
    let mut entries: Vec<_> = match std::fs::read_dir(dir) {
        Ok(d) => d.filter_map(|e| e.ok()).map(|e| e.path()).collect(),
        Err(_) => return,
    };
    entries.sort();
    let mut model = Model::spawn();
    for path in entries {
        let text = match std::fs::read_to_string(&path) {
            Ok(t) => t,
            Err(_) => continue,
        };
        let value: Value = match serde_json::from_str(&text) {
            Ok(v) => v,
            Err(_) => continue,
        };
        if value["known_finding"].is_string() {
            continue;
        }
        if let Some(blk) = value["tree"].as_str().and_then(sexp::parse).and_then(|s| sexp::to_blk(&s)) {
            let mut local = Local::default();
            let spans: Vec<usize> = match value["column_span"].as_u64() {
                Some(s) => vec![s as usize, 0, 1, 80],
                None => vec![0, 1, 2, 80],
            };
            check_tree(&mut model, "corpus", &blk, &spans, &mut local);
            local.merge_into(report);
            report.count("corpus_replayed", 1);
        }
    }
}

fn replay_file(report: &mut Report, path: &str) {
    let text = std::fs::read_to_string(path).expect("replay file");
    let value: Value = serde_json::from_str(&text).expect("replay json");
    let input = &value["input"];
    let mut model = Model::spawn();
    if let Some(blk) = input["tree"].as_str().and_then(sexp::parse).and_then(|s| sexp::to_blk(&s)) {
        let span = input["column_span"].as_u64().unwrap_or(80) as usize;
        let mut local = Local::default();
        check_tree(&mut model, "replay", &blk, &[span], &mut local);
        local.merge_into(report);
    } else {
        // table inputs: re-run the whole (cheap, exhaustive) table correspondence
        table_correspondence(report, &mut model);
    }
}
