//! Property C06: the Luau-lowering rules preserve program behaviour.
//!  (1) per rule: correspondence of the Lean rule model with the real `Rule::process` and the
//!      ORACLE: original vs REAL output executed on the Lean reference semantics — outcomes
//!      (returned values + external-call trace) equal whenever the original is error-free;
//!  (2) all nine rules together (fixed order and random orders), same oracle;
//!  (3) end to end through `darklua_core::process`: the generated TEXT re-parsed and executed.
//! Programs inside the listed defect regions (F9 repeat/continue, F25 ≥ 2 elseif, F26 `__idiv`)
//! are generated too (Opts) but classified by `luaucheck::behaviour_hypothesis`: a failure there
//! is counted, not reported; the recorded witnesses replay as KNOWN-FINDING.
use crate::astsexp;
use crate::exec;
use crate::luaucheck::{self, LuauCase, RULES};
use crate::model::Model;
use crate::progen::{self, Features};
use crate::progen_c06;
use crate::report::{Report, Violation};
use crate::rng::Rng;
use crate::rulecheck::{self, CaseResult};
use darklua_core::rules::Rule;
use serde_json::json;

fn all_together(model: &mut Model, report: &mut Report, code: &str, order: &[&str]) {
    let block0 = match exec::parse(code) {
        Ok(b) => b,
        Err(_) => return,
    };
    let sexp0 = astsexp::block_to_sexp(&block0);
    if !luaucheck::behaviour_hypothesis_all(model, &sexp0, code) {
        report.count("all_outside_hypothesis", 1);
        return;
    }
    let rules: Vec<Box<dyn Rule>> = order.iter().map(|r| exec::rule_from_json(&format!("'{}'", r)).unwrap()).collect();
    if let Some((o0, o1, tree)) = rulecheck::oracle_fails(model, &rules, code) {
        let mut fails = |text: &str| -> bool {
            let inside = match exec::parse(text) {
                Ok(b) => luaucheck::behaviour_hypothesis_all(model, &astsexp::block_to_sexp(&b), text),
                Err(_) => false,
            };
            inside && rulecheck::oracle_fails(model, &rules, text).is_some()
        };
        let small = rulecheck::shrink_lines(code, &mut fails);
        report.violation(Violation {
            kind: "oracle".into(),
            check: "all:behaviour".into(),
            what: "the lowering rules together change the behaviour of a program whose original run is error-free".into(),
            input: json!({"rules": order, "code": small, "original_outcome": o0, "transformed_outcome": o1, "transformed_tree": tree}),
            failing_input_found: true,
        });
    }
    report.count("all_checked", 1);
}

fn end_to_end(model: &mut Model, report: &mut Report, code: &str, order: &[&str], generator: &str) {
    let block0 = match exec::parse(code) {
        Ok(b) => b,
        Err(_) => return,
    };
    if !luaucheck::behaviour_hypothesis_all(model, &astsexp::block_to_sexp(&block0), code) {
        return;
    }
    let resources = darklua_core::Resources::from_memory();
    resources.write("src/main.lua", code).unwrap();
    let rule_list: Vec<String> = order.iter().map(|r| format!("'{}'", r)).collect();
    let config_text = format!("{{ generator: '{}', rules: [{}] }}", generator, rule_list.join(", "));
    let config: darklua_core::Configuration = json5::from_str(&config_text).expect("configuration");
    let result = std::panic::catch_unwind(std::panic::AssertUnwindSafe(|| {
        darklua_core::process(&resources, darklua_core::Options::new("src").with_configuration(config))
    }));
    let ok = match result {
        Ok(Ok(r)) => r.result().is_ok(),
        Ok(Err(_)) => false,
        Err(_) => {
            report.violation(Violation {
                kind: "oracle".into(),
                check: "e2e:panic".into(),
                what: "darklua_core::process panicked".into(),
                input: json!({"config": config_text, "code": code}),
                failing_input_found: true,
            });
            return;
        }
    };
    if !ok {
        report.count("e2e_process_error", 1);
        return;
    }
    let output = resources.get("src/main.lua").unwrap();
    let block1 = match exec::parse(&output) {
        Ok(b) => b,
        Err(e) => {
            report.violation(Violation {
                kind: "oracle".into(),
                check: "e2e:reparse".into(),
                what: format!("output of the pipeline does not parse: {}", e),
                input: json!({"config": config_text, "code": code, "output": output}),
                failing_input_found: true,
            });
            return;
        }
    };
    if let Some((o0, o1)) = rulecheck::oracle_compare(model, &block0, &block1) {
        report.count("e2e_compared", 1);
        if o0 != o1 {
            report.violation(Violation {
                kind: "oracle".into(),
                check: format!("e2e:{}", generator),
                what: "processed file behaves differently from the original".into(),
                input: json!({"config": config_text, "code": code, "output": output, "original_outcome": o0, "transformed_outcome": o1}),
                failing_input_found: true,
            });
        }
    }
}

fn one_program(model: &mut Model, r: &mut Report, rng: &mut Rng, code: &str) {
    for rule in RULES.iter() {
        let json_text = format!("'{}'", rule);
        let case = LuauCase { rule_name: rule, rule_json: &json_text, model_name: rule, check_census: false, check_behaviour: true };
        let result = luaucheck::check_program(model, r, &case, code);
        match &result {
            CaseResult::Fired => {
                r.hist("rule_fired", rule);
                r.case(Some((rule, code)));
            }
            CaseResult::Trivial => r.case(None::<u8>),
            CaseResult::Skipped(why) => {
                r.hist("skipped", why);
                r.case(None::<u8>);
            }
        }
        if r.samples.len() < 3 && result == CaseResult::Fired && rng.chance(1, 50) {
            r.sample(json!({"rule": rule, "code": code}));
        }
    }
    all_together(model, r, code, &RULES);
    let mut order: Vec<&str> = RULES.to_vec();
    rng.shuffle(&mut order);
    all_together(model, r, code, &order);
    r.case(None::<u8>);
    if rng.chance(1, 3) {
        let generator = *rng.pick(&["retain_lines", "dense", "readable"]);
        end_to_end(model, r, code, &order, generator);
    }
}

fn corpus(dir: &str) -> Vec<(String, String)> {
    let path = format!("{}/../corpus/{}", env!("CARGO_MANIFEST_DIR"), dir);
    let mut out = Vec::new();
    if let Ok(entries) = std::fs::read_dir(&path) {
        let mut files: Vec<_> = entries.filter_map(|e| e.ok()).map(|e| e.path()).collect();
        files.sort();
        for f in files {
            if f.extension().map(|e| e == "lua").unwrap_or(false) {
                if let Ok(text) = std::fs::read_to_string(&f) {
                    out.push((f.file_name().unwrap().to_string_lossy().to_string(), text));
                }
            }
        }
    }
    out
}

pub fn run(report: &mut Report, replay: Option<&str>) {
    report.rule = "corpus/C06/*.lua, then type-directed random Luau programs (progen Features::luau()) and the targeted \
        generator progen_c06 (side effects in compound-assignment prefix/key, continue in each loop kind with break/return, \
        falsy / truthy-literal / multi-value if-branches, every value kind in interpolations incl. __tostring objects, \
        negative/fractional/string `//`, shadowed math/string/tostring; one third with the defect-region shapes F9/F25/F26 \
        switched on, classified by the hypothesis H and not reported); each program through each of the nine lowering \
        rules alone and all together in the fixed and a random order: real Rule::process output compared with the Lean model \
        (trees) and executed on the Lean reference semantics against the original (outcome = returned values + external-call \
        trace); end to end through darklua_core::process. Non-trivial = the rule changed the tree; distinct by (rule, program)."
        .to_owned();
    if let Some(path) = replay {
        let mut model = Model::spawn();
        let mut rng = Rng::new(report.seed);
        if let Ok(text) = std::fs::read_to_string(path) {
            if let Ok(v) = serde_json::from_str::<serde_json::Value>(&text) {
                if let Some(code) = v["input"]["code"].as_str() {
                    one_program(&mut model, report, &mut rng, code);
                }
            }
        }
        return;
    }
    {
        let mut model = Model::spawn();
        luaucheck::replay_known_findings(&mut model, report, "C06");
        let mut rng = Rng::new(report.seed);
        for (name, code) in corpus("C06") {
            report.hist("corpus", &name);
            one_program(&mut model, report, &mut rng, &code);
        }
    }
    let programs_per_thread: usize = if report.is_thorough() { 900 } else { 90 };
    let threads = 12;
    let seed = report.seed;
    report.parallel(threads, |tid, r| {
        let mut model = Model::spawn();
        let mut rng = Rng::new(seed.wrapping_mul(1000).wrapping_add(tid as u64));
        for i in 0..programs_per_thread {
            let code = if i % 3 == 0 {
                let (code, used) = progen::generate(&mut rng.fork(), Features::luau(), 60);
                for u in &used {
                    r.hist("constructs", u);
                }
                r.hist("generator", "progen-luau");
                code
            } else {
                let defects = i % 3 == 2 && rng.chance(1, 2);
                let opts = progen_c06::Opts { f9: defects, many_elifs: defects, idiv_meta: defects };
                let (code, tags) = progen_c06::generate(&mut rng.fork(), opts, 8);
                for t in &tags {
                    r.hist("shapes", t);
                }
                r.hist("generator", if defects { "progen_c06+defect-shapes" } else { "progen_c06" });
                code
            };
            one_program(&mut model, r, &mut rng, &code);
        }
    });
}
