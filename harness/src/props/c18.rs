//! Property C18 — comment and whitespace rules never touch code.
//!
//! Real code: `darklua_core::process` on `Resources::from_memory()` with a json5 `Configuration`
//! (`append_text_comment`, `remove_comments` with `except`, `remove_spaces`; generator `retain_lines`).
//! Model: `c18.comment_text`, `c18.append`, `c18.remove_comments`, `c18.remove_spaces` of the Lean
//! driver (the defs the theorems in `DarkluaModel/C18/Thm.lean` are about).
//! Oracle: the Lean reference lexer (`c18.lex`, `DarkluaModel/C18/Lex.lean`) on the REAL output:
//!   O1 code-token stream (kind, bytes) equal to the baseline's (the same file through no rule),
//!   O2 the appended text sits inside one comment,
//!   O3 every comment that must survive is still there, in order; nothing else is,
//!   O4 location `end`: no code token changes line.
//! The reference lexer itself is cross-checked against the tokenizer darklua parses with
//! (full_moon, Luau mode) on every generated source darklua accepts; disagreements are reported
//! under the separate check name `lexer_vs_darklua_parser`.
use crate::model::{hex, unhex, Model};
use crate::report::{known_findings, Report, Violation};
use crate::rng::Rng;
use darklua_core::{Configuration, Options, Resources};
use serde_json::{json, Value};
use std::collections::HashMap;

#[path = "c18_carriers.rs"]
mod carriers;

// ------------------------------------------------------------------------------------------
// real code

pub fn run_real(src: &str, config: &str) -> Result<String, String> {
    let src = src.to_owned();
    let config = config.to_owned();
    let r = std::panic::catch_unwind(move || -> Result<String, String> {
        let resources = Resources::from_memory();
        resources
            .write("src/f.lua", &src)
            .map_err(|e| format!("{:?}", e))?;
        let configuration: Configuration =
            json5::from_str(&config).map_err(|e| format!("config: {}", e))?;
        let options = Options::new("src/f.lua")
            .with_output("out/f.lua")
            .with_configuration(configuration);
        let tree =
            darklua_core::process(&resources, options).map_err(|e| format!("process: {}", e))?;
        tree.result().map_err(|errs| {
            errs.into_iter()
                .map(|e| e.to_string())
                .collect::<Vec<_>>()
                .join("; ")
        })?;
        resources.get("out/f.lua").map_err(|e| format!("{:?}", e))
    });
    match r {
        Ok(x) => x,
        Err(_) => Err("panic".to_owned()),
    }
}

#[derive(Clone, Copy, Debug, PartialEq, Eq, Hash)]
enum Loc {
    Start,
    End,
}
impl Loc {
    fn name(self) -> &'static str {
        match self {
            Loc::Start => "start",
            Loc::End => "end",
        }
    }
}

/// a literal `except` pattern: (anchored at start, anchored at end, literal)
type Lit = (bool, bool, String);

#[derive(Clone, Debug)]
enum Rule {
    Spaces,
    /// `lits` are evaluated by the Lean model, by this harness and (as escaped regexes) by darklua;
    /// `regexes` only by the regex crate (expected survivors) and darklua.
    Comments { lits: Vec<Lit>, regexes: Vec<String> },
    /// a pipeline of the two rules above, applied in order
    Seq(Vec<Rule>),
}

impl Rule {
    /// the json5 entry of one rule
    fn entry(&self) -> Vec<String> {
        match self {
            Rule::Spaces => vec!["'remove_spaces'".to_owned()],
            Rule::Comments { lits, regexes } => {
                let all: Vec<String> = lits.iter().map(lit_to_regex).chain(regexes.iter().cloned()).collect();
                vec![if all.is_empty() {
                    "'remove_comments'".to_owned()
                } else {
                    format!("{{rule:'remove_comments',except:{}}}", serde_json::to_string(&all).unwrap())
                }]
            }
            Rule::Seq(rs) => rs.iter().flat_map(|r| r.entry()).collect(),
        }
    }
    fn has_spaces(&self) -> bool {
        match self {
            Rule::Spaces => true,
            Rule::Comments { .. } => false,
            Rule::Seq(rs) => rs.iter().any(|r| r.has_spaces()),
        }
    }
    fn has_regexes(&self) -> bool {
        match self {
            Rule::Spaces => false,
            Rule::Comments { regexes, .. } => !regexes.is_empty(),
            Rule::Seq(rs) => rs.iter().any(|r| r.has_regexes()),
        }
    }
    /// `S` / `C+pat+pat` words of the driver op `c18.seq`
    fn words(&self) -> Vec<String> {
        match self {
            Rule::Spaces => vec!["S".to_owned()],
            Rule::Comments { lits, .. } => vec![std::iter::once("C".to_owned())
                .chain(lits.iter().map(|l| format!("{}{}{}", if l.0 { 1 } else { 0 }, if l.1 { 1 } else { 0 }, hex(l.2.as_bytes()))))
                .collect::<Vec<_>>()
                .join("+")],
            Rule::Seq(rs) => rs.iter().flat_map(|r| r.words()).collect(),
        }
    }
    fn to_json(&self) -> Value {
        match self {
            Rule::Spaces => json!({"rule":"remove_spaces"}),
            Rule::Comments { lits, regexes } => json!({
                "rule":"remove_comments",
                "lits": lits.iter().map(|l| json!([l.0, l.1, l.2])).collect::<Vec<_>>(),
                "regexes": regexes,
            }),
            Rule::Seq(rs) => json!({"rule":"seq","rules": rs.iter().map(|r| r.to_json()).collect::<Vec<_>>()}),
        }
    }
    fn from_json(v: &Value) -> Option<Rule> {
        match v["rule"].as_str()? {
            "remove_spaces" => Some(Rule::Spaces),
            "remove_comments" => {
                let lits = v["lits"].as_array().map(|a| a.iter().filter_map(|l| Some((l[0].as_bool()?, l[1].as_bool()?, l[2].as_str()?.to_owned()))).collect()).unwrap_or_default();
                let regexes = v["regexes"].as_array().map(|a| a.iter().filter_map(|s| s.as_str().map(str::to_owned)).collect()).unwrap_or_default();
                Some(Rule::Comments { lits, regexes })
            }
            "seq" => Some(Rule::Seq(v["rules"].as_array()?.iter().filter_map(Rule::from_json).collect())),
            _ => None,
        }
    }
}

#[derive(Clone, Debug)]
enum Case {
    Append { text: String, loc: Loc, src: String },
    Remove { src: String, rule: Rule },
}

fn lit_to_regex(l: &Lit) -> String {
    format!(
        "{}{}{}",
        if l.0 { "^" } else { "" },
        regex::escape(&l.2),
        if l.1 { "$" } else { "" }
    )
}

impl Case {
    fn config(&self) -> String {
        match self {
            Case::Append { text, loc, .. } => format!(
                "{{rules:[{{rule:'append_text_comment',text:{},location:'{}'}}]}}",
                serde_json::to_string(text).unwrap(),
                loc.name()
            ),
            Case::Remove { rule: Rule::Spaces, .. } => "{rules:['remove_spaces']}".to_owned(),
            Case::Remove { rule: r @ Rule::Seq(_), .. } => format!("{{rules:[{}]}}", r.entry().join(",")),
            Case::Remove { rule: Rule::Comments { lits, regexes }, .. } => {
                let all: Vec<String> = lits
                    .iter()
                    .map(lit_to_regex)
                    .chain(regexes.iter().cloned())
                    .collect();
                if all.is_empty() {
                    "{rules:['remove_comments']}".to_owned()
                } else {
                    format!(
                        "{{rules:[{{rule:'remove_comments',except:{}}}]}}",
                        serde_json::to_string(&all).unwrap()
                    )
                }
            }
        }
    }
    fn src(&self) -> &str {
        match self {
            Case::Append { src, .. } | Case::Remove { src, .. } => src,
        }
    }
    fn to_json(&self) -> Value {
        match self {
            Case::Append { text, loc, src } => {
                json!({"kind":"append","text":text,"loc":loc.name(),"src":src})
            }
            Case::Remove { src, rule: Rule::Spaces } => json!({"kind":"remove_spaces","src":src}),
            Case::Remove { src, rule: r @ Rule::Seq(_) } => json!({"kind":"remove_seq","src":src,"pipeline":r.to_json()}),
            Case::Remove { src, rule: Rule::Comments { lits, regexes } } => json!({
                "kind":"remove_comments","src":src,
                "lits": lits.iter().map(|l| json!([l.0, l.1, l.2])).collect::<Vec<_>>(),
                "regexes": regexes,
            }),
        }
    }
    fn from_json(v: &Value) -> Option<Case> {
        let src = v["src"].as_str()?.to_owned();
        match v["kind"].as_str()? {
            "append" => Some(Case::Append {
                text: v["text"].as_str()?.to_owned(),
                loc: if v["loc"].as_str()? == "end" { Loc::End } else { Loc::Start },
                src,
            }),
            "remove_spaces" => Some(Case::Remove { src, rule: Rule::Spaces }),
            "remove_seq" => Some(Case::Remove { src, rule: Rule::from_json(&v["pipeline"])? }),
            "remove_comments" => {
                let lits = v["lits"]
                    .as_array()
                    .map(|a| {
                        a.iter()
                            .filter_map(|l| {
                                Some((l[0].as_bool()?, l[1].as_bool()?, l[2].as_str()?.to_owned()))
                            })
                            .collect()
                    })
                    .unwrap_or_default();
                let regexes = v["regexes"]
                    .as_array()
                    .map(|a| a.iter().filter_map(|s| s.as_str().map(str::to_owned)).collect())
                    .unwrap_or_default();
                Some(Case::Remove { src, rule: Rule::Comments { lits, regexes } })
            }
            _ => None,
        }
    }
}

const NO_RULES: &str = "{rules:[]}";

// ------------------------------------------------------------------------------------------
// Lean side

#[derive(Clone, Debug, PartialEq)]
struct Tok {
    kind: String,
    bytes: Vec<u8>,
    line: usize,
}

#[derive(Clone, Debug)]
struct Lexed {
    ok: bool,
    toks: Vec<Tok>,
    coms: Vec<(Vec<u8>, usize)>,
    /// source order: (is comment, index into `coms` / `toks`)
    order: Vec<(bool, usize)>,
}

impl Lexed {
    fn code(&self) -> Vec<(&str, &[u8])> {
        self.toks.iter().map(|t| (t.kind.as_str(), t.bytes.as_slice())).collect()
    }
    fn lines(&self) -> Vec<usize> {
        self.toks.iter().map(|t| t.line).collect()
    }
    fn comment_bytes(&self) -> Vec<Vec<u8>> {
        self.coms.iter().map(|c| c.0.clone()).collect()
    }
}

fn parse_lex(ans: &str) -> Option<Lexed> {
    let parts: Vec<&str> = ans.split(' ').collect();
    if parts.len() != 2 {
        return None;
    }
    let ok = match parts[0] {
        "ok" => true,
        "err" => false,
        _ => return None,
    };
    let mut toks = Vec::new();
    let mut coms = Vec::new();
    let mut order = Vec::new();
    if parts[1] != "-" {
        for t in parts[1].split(',') {
            let f: Vec<&str> = t.split(':').collect();
            match f.as_slice() {
                ["T", kind, bytes, line] => {
                    order.push((false, toks.len()));
                    toks.push(Tok { kind: kind.to_string(), bytes: unhex(bytes)?, line: line.parse().ok()? });
                }
                ["C", bytes, line] => {
                    order.push((true, coms.len()));
                    coms.push((unhex(bytes)?, line.parse().ok()?));
                }
                ["E", _] => {}
                _ => return None,
            }
        }
    }
    Some(Lexed { ok, toks, coms, order })
}

#[derive(Clone, Debug)]
struct FileView {
    code: Vec<Vec<u8>>,
    comments: Vec<Vec<u8>>,
    lines: Vec<Option<usize>>,
    /// number of code tokens behind the token `mutate_last_token` returns (a final semicolon)
    after: usize,
}

fn parse_file(ans: &str) -> Result<FileView, String> {
    let parts: Vec<&str> = ans.split(' ').collect();
    if parts.len() != 4 {
        return Err(ans.to_owned());
    }
    let list = |s: &str, prefix: &str| -> Result<Vec<String>, String> {
        let body = s.strip_prefix(prefix).ok_or_else(|| ans.to_owned())?;
        Ok(if body == "-" { Vec::new() } else { body.split(',').map(str::to_owned).collect() })
    };
    let hexes = |v: Vec<String>| -> Result<Vec<Vec<u8>>, String> {
        v.iter().map(|h| unhex(h).ok_or_else(|| ans.to_owned())).collect()
    };
    Ok(FileView {
        code: hexes(list(parts[0], "code=")?)?,
        comments: hexes(list(parts[1], "comments=")?)?,
        lines: list(parts[2], "lines=")?
            .iter()
            .map(|l| if l == "_" { None } else { l.parse().ok() })
            .collect(),
        after: parts[3].strip_prefix("after=").and_then(|n| n.parse().ok()).ok_or_else(|| ans.to_owned())?,
    })
}

struct Ctx {
    model: Model,
    lex_cache: HashMap<String, Lexed>,
    base_cache: HashMap<String, Result<String, String>>,
    text_cache: HashMap<String, (Vec<u8>, usize, String)>,
}

impl Ctx {
    fn new() -> Ctx {
        Ctx {
            model: Model::spawn(),
            lex_cache: HashMap::new(),
            base_cache: HashMap::new(),
            text_cache: HashMap::new(),
        }
    }
    fn lex(&mut self, s: &str) -> Lexed {
        if let Some(l) = self.lex_cache.get(s) {
            return l.clone();
        }
        let ans = self.model.ask(&format!("c18.lex {}", hex(s.as_bytes())));
        let l = parse_lex(&ans).unwrap_or_else(|| panic!("bad lex answer: {}", ans));
        if self.lex_cache.len() < 20000 {
            self.lex_cache.insert(s.to_owned(), l.clone());
        }
        l
    }
    fn baseline(&mut self, src: &str) -> Result<String, String> {
        if let Some(b) = self.base_cache.get(src) {
            return b.clone();
        }
        let b = run_real(src, NO_RULES);
        if self.base_cache.len() < 20000 {
            self.base_cache.insert(src.to_owned(), b.clone());
        }
        b
    }
    /// (commentText, linesCount, long form? `true|false|empty`) from the model
    fn comment_text(&mut self, text: &str) -> (Vec<u8>, usize, String) {
        if let Some(t) = self.text_cache.get(text) {
            return t.clone();
        }
        let ans = self.model.ask(&format!("c18.comment_text {}", hex(text.as_bytes())));
        let parts: Vec<&str> = ans.split(' ').collect();
        let ct = unhex(parts[0]).unwrap_or_else(|| panic!("bad comment_text answer: {}", ans));
        let n: usize = parts[1].parse().unwrap();
        let h = self.model.ask(&format!("c18.long_form {}", hex(text.as_bytes())));
        let r = (ct, n, h);
        self.text_cache.insert(text.to_owned(), r.clone());
        r
    }
    /// the level the model picks for the long form (None: not the long form)
    fn level(&mut self, text: &str) -> Option<usize> {
        self.model.ask(&format!("c18.level {}", hex(text.as_bytes()))).parse().ok()
    }
    fn model_view(&mut self, case: &Case) -> Option<Result<FileView, String>> {
        let req = match case {
            Case::Append { text, loc, src } => format!(
                "c18.append {} {} {}",
                loc.name(),
                hex(text.as_bytes()),
                hex(src.as_bytes())
            ),
            Case::Remove { src, rule: Rule::Spaces } => {
                format!("c18.remove_spaces {}", hex(src.as_bytes()))
            }
            Case::Remove { src, rule: r @ Rule::Seq(_) } => {
                if r.has_regexes() {
                    return None;
                }
                format!("c18.seq {} {}", hex(src.as_bytes()), r.words().join(" "))
            }
            Case::Remove { src, rule: Rule::Comments { lits, regexes } } => {
                if !regexes.is_empty() {
                    return None;
                }
                let mut r = format!("c18.remove_comments {}", hex(src.as_bytes()));
                for l in lits {
                    r.push_str(&format!(
                        " {}{}{}",
                        if l.0 { 1 } else { 0 },
                        if l.1 { 1 } else { 0 },
                        hex(l.2.as_bytes())
                    ));
                }
                r
            }
        };
        let ans = self.model.ask(&req);
        Some(parse_file(&ans))
    }
}

// ------------------------------------------------------------------------------------------
// small helpers

fn contains(hay: &[u8], needle: &[u8]) -> bool {
    needle.is_empty() || hay.windows(needle.len()).any(|w| w == needle)
}

fn find_from(hay: &[u8], needle: &[u8], from: usize) -> Option<usize> {
    if needle.is_empty() {
        return Some(from);
    }
    if from > hay.len() {
        return None;
    }
    hay[from..].windows(needle.len()).position(|w| w == needle).map(|p| from + p)
}

/// non-overlapping occurrences of `needle` in `hay`
fn count_occurrences(hay: &[u8], needle: &[u8]) -> usize {
    if needle.is_empty() {
        return 0;
    }
    let (mut n, mut from) = (0, 0);
    while let Some(p) = find_from(hay, needle, from) {
        n += 1;
        from = p + needle.len();
    }
    n
}

/// the harness's own reading of a literal pattern (third implementation, next to Lean and regex)
fn lit_matches(l: &Lit, s: &[u8]) -> bool {
    let p = l.2.as_bytes();
    match (l.0, l.1) {
        (true, true) => s == p,
        (true, false) => s.starts_with(p),
        (false, true) => s.ends_with(p),
        (false, false) => contains(s, p),
    }
}

fn show(b: &[u8]) -> String {
    String::from_utf8_lossy(b).into_owned()
}

fn has_lone_cr(s: &str) -> bool {
    let b = s.as_bytes();
    (0..b.len()).any(|i| b[i] == b'\r' && b.get(i + 1) != Some(&b'\n'))
}

// ------------------------------------------------------------------------------------------
// the tokenizer darklua parses with

struct FmView {
    toks: Vec<(String, usize)>,
    coms: Vec<(String, usize)>,
    /// (byte offset, is comment, text, line): `Node::tokens` is in field order, not source order
    raw: Vec<(usize, bool, String, usize)>,
}

fn fm_tokens(src: &str) -> Option<FmView> {
    use full_moon::node::Node;
    use full_moon::tokenizer::{TokenReference, TokenType};
    let src2 = src.to_owned();
    std::panic::catch_unwind(move || {
        let ast = full_moon::parse_fallible(&src2, full_moon::LuaVersion::luau())
            .into_result()
            .ok()?;
        let mut v = FmView { toks: Vec::new(), coms: Vec::new(), raw: Vec::new() };
        let push = |t: &TokenReference, v: &mut FmView| {
            for tr in t.leading_trivia() {
                match tr.token_type() {
                    TokenType::SingleLineComment { .. } | TokenType::MultiLineComment { .. } => {
                        v.raw.push((tr.start_position().bytes(), true, tr.to_string(), tr.start_position().line()))
                    }
                    _ => {}
                }
            }
            if !matches!(t.token().token_type(), TokenType::Eof) {
                v.raw.push((t.token().start_position().bytes(), false, t.token().to_string(), t.token().start_position().line()));
            }
            for tr in t.trailing_trivia() {
                match tr.token_type() {
                    TokenType::SingleLineComment { .. } | TokenType::MultiLineComment { .. } => {
                        v.raw.push((tr.start_position().bytes(), true, tr.to_string(), tr.start_position().line()))
                    }
                    _ => {}
                }
            }
        };
        for t in ast.nodes().tokens() {
            push(t, &mut v);
        }
        push(ast.eof(), &mut v);
        v.raw.sort_by_key(|r| r.0);
        for (_, is_comment, text, line) in v.raw.clone() {
            if is_comment {
                v.coms.push((text, line));
            } else {
                v.toks.push((text, line));
            }
        }
        Some(v)
    })
    .ok()
    .flatten()
}

// ------------------------------------------------------------------------------------------
// judging one case

#[derive(Default)]
struct Outcome {
    hists: Vec<(&'static str, String)>,
    key: Option<String>,
    violations: Vec<Violation>,
    sample: Option<Value>,
    counts: Vec<(&'static str, u64)>,
    /// names of the oracle checks that failed on the real output (whatever the region)
    oracle_fails: Vec<String>,
    skipped: bool,
}

impl Outcome {
    fn hist(&mut self, name: &'static str, bucket: impl Into<String>) {
        self.hists.push((name, bucket.into()));
    }
    fn count(&mut self, name: &'static str) {
        self.counts.push((name, 1));
    }
    fn violate(&mut self, kind: &str, check: &str, what: String, case: &Case, found: bool) {
        self.violations.push(Violation {
            kind: kind.to_owned(),
            check: check.to_owned(),
            what,
            input: case.to_json(),
            failing_input_found: found,
        });
    }
}

/// The oracle on the real output. Returns the failed checks (names + explanation).
/// `expected_comments`: the comment list the configuration selects, computed without the Lean model
/// (None for append cases, which use the containment form O2/O3).
fn oracle(
    ctx: &mut Ctx,
    case: &Case,
    base: &str,
    out: &str,
    expected_comments: Option<&Vec<Vec<u8>>>,
) -> Vec<(String, String)> {
    let mut fails = Vec::new();
    let lb = ctx.lex(base);
    let lo = ctx.lex(out);
    if !lo.ok {
        fails.push(("O1".to_owned(), "the output does not lex (unfinished comment/string)".to_owned()));
    }
    if lo.code() != lb.code() {
        let i = lo.code().iter().zip(lb.code().iter()).take_while(|(a, b)| a == b).count();
        fails.push((
            "O1".to_owned(),
            format!(
                "code tokens differ at index {}: expected {:?}, got {:?} ({} vs {} tokens)",
                i,
                lb.toks.get(i).map(|t| show(&t.bytes)),
                lo.toks.get(i).map(|t| show(&t.bytes)),
                lb.toks.len(),
                lo.toks.len()
            ),
        ));
    }
    match case {
        Case::Append { text, loc, .. } => {
            if !text.is_empty() {
                if !lo.coms.iter().any(|c| contains(&c.0, text.as_bytes())) {
                    fails.push(("O2".to_owned(), "the text is not inside one comment of the output".to_owned()));
                }
                // every original comment still inside the comments of the output, in order
                let cat: Vec<u8> = lo.coms.iter().flat_map(|c| c.0.clone()).collect();
                let mut pos = 0usize;
                let mut all = true;
                // the appended comment may come before or after; search without it by trying both orders
                for c in lb.coms.iter() {
                    match find_from(&cat, &c.0, pos) {
                        Some(p) => pos = p + c.0.len(),
                        None => {
                            // retry from the start once (the appended comment can precede)
                            all = false;
                            break;
                        }
                    }
                }
                if !all {
                    fails.push(("O3".to_owned(), "an original comment is no longer (wholly) a comment".to_owned()));
                }
                if *loc == Loc::End && lo.lines() != lb.lines() && lo.code() == lb.code() {
                    fails.push((
                        "O4".to_owned(),
                        format!("location end: token lines {:?} became {:?}", lb.lines(), lo.lines()),
                    ));
                }
            } else if out != base {
                fails.push(("O1".to_owned(), "empty text but the output differs from the baseline".to_owned()));
            }
        }
        Case::Remove { .. } => {
            if let Some(exp) = expected_comments {
                // remove_spaces may glue a line comment to the line comment before it (the text stays
                // inside a comment): compared as one byte string there, as a list otherwise
                let glue_ok = matches!(case, Case::Remove { rule, .. } if rule.has_spaces())
                    && lo.comment_bytes().concat() == exp.concat()
                    && lo.coms.len() <= exp.len();
                if &lo.comment_bytes() != exp && !glue_ok {
                    fails.push((
                        "O3".to_owned(),
                        format!(
                            "comments of the output {:?}, the configuration selects {:?}",
                            lo.comment_bytes().iter().map(|c| show(c)).collect::<Vec<_>>(),
                            exp.iter().map(|c| show(c)).collect::<Vec<_>>()
                        ),
                    ));
                }
            }
        }
    }
    fails
}

fn is_long_comment(comment: &[u8]) -> bool {
    // `--[` `=`* `[`
    if !comment.starts_with(b"--[") {
        return false;
    }
    let rest = &comment[3..];
    let k = rest.iter().take_while(|b| **b == b'=').count();
    rest.get(k) == Some(&b'[')
}

/// F29: a `-` operator directly followed (whitespace aside) by a comment: without the whitespace the
/// generator writes `-` `--…` = `---…`, one comment.
fn f29_trigger(l: &Lexed) -> bool {
    l.order.windows(2).any(|w| !w[0].0 && w[1].0 && l.toks[w[0].1].bytes == b"-")
}

/// Known finding F32, exactly: at `end` the comment is attached after `p` code tokens and what follows is
/// (a) nothing but the final `;` of the file, or (b) the rest of the type of a type declaration that is the
/// last statement (`type U = A | B`: a `type` name token opens it and no statement keyword follows).
fn f32_shape(base: &Lexed, p: usize) -> bool {
    let toks = &base.toks;
    if p >= toks.len() {
        return false;
    }
    let tail = &toks[p..];
    if tail.len() == 1 && tail[0].bytes == b";" {
        return true;
    }
    // (b) the last statement is a type declaration `type Name =` / `type Name <…> =` and the attach point lies
    // inside its type (behind the name): the rest of the type is written behind the comment
    let start = (0..p).rev().find(|&i| {
        toks[i].bytes == b"type"
            && toks.get(i + 1).map(|t| t.kind == "name").unwrap_or(false)
            && toks.get(i + 2).map(|t| t.bytes == b"=" || t.bytes == b"<").unwrap_or(false)
    });
    if let Some(i) = start {
        return p >= i + 3
            && !toks[i + 1..].iter().any(|t| t.kind == "keyword" && !matches!(t.bytes.as_slice(), b"nil" | b"true" | b"false"));
    }
    false
}

/// The separators between consecutive items of `out` (items as the reference lexer found them):
/// Some(description) when one of them cannot have been written by the generator alone.
fn leftover_whitespace(out: &str, l: &Lexed) -> Option<String> {
    let b = out.as_bytes();
    let mut cursor = 0usize;
    let mut prev: Option<&[u8]> = None;
    let tight = |t: &[u8]| matches!(t, b"(" | b")" | b"," | b";" | b"{" | b"}");
    for (is_com, i) in &l.order {
        let item: &[u8] = if *is_com { &l.coms[*i].0 } else { &l.toks[*i].bytes };
        let start = cursor;
        while cursor < b.len() && b[cursor].is_ascii_whitespace() {
            cursor += 1;
        }
        if !b[cursor..].starts_with(item) {
            return None; // cannot align (should not happen): no verdict
        }
        let gap = &b[start..cursor];
        let only_newlines = gap.iter().all(|c| *c == b'\n' || *c == b'\r');
        // the one blank the generator must write itself: between the `{` that opens an interpolated value and
        // the `{` of a table constructor (`{{` is not Luau); line-padding newlines may follow that blank
        let interp_then_table = !*is_com
            && item == b"{"
            && prev.map(|p| p.ends_with(b"{") && (p.starts_with(b"`") || p.starts_with(b"}"))).unwrap_or(false);
        let blank_then_newlines = gap.first() == Some(&b' ') && gap[1..].iter().all(|c| *c == b'\n' || *c == b'\r');
        if !(gap.is_empty() || gap == b" " || only_newlines || (interp_then_table && blank_then_newlines)) {
            return Some(format!("separator {:?} before {:?}", show(gap), show(item)));
        }
        if gap == b" " && !*is_com {
            if let Some(p) = prev {
                if (tight(p) || tight(item)) && !interp_then_table {
                    return Some(format!("a blank between {:?} and {:?}", show(p), show(item)));
                }
            }
        }
        prev = if *is_com { None } else { Some(item) };
        cursor += item.len();
    }
    None
}

/// comments the configuration keeps, from the reference lexer's comment list of the baseline
fn expected_survivors(rule: &Rule, base_comments: &[Vec<u8>]) -> Vec<Vec<u8>> {
    match rule {
        Rule::Spaces => base_comments.to_vec(),
        Rule::Seq(rs) => rs.iter().fold(base_comments.to_vec(), |acc, r| expected_survivors(r, &acc)),
        Rule::Comments { lits, regexes } => {
            let res: Vec<regex::Regex> =
                regexes.iter().filter_map(|r| regex::Regex::new(r).ok()).collect();
            base_comments
                .iter()
                .filter(|c| {
                    lits.iter().any(|l| lit_matches(l, c))
                        || std::str::from_utf8(c).map(|s| res.iter().any(|r| r.is_match(s))).unwrap_or(false)
                })
                .cloned()
                .collect()
        }
    }
}

fn judge(ctx: &mut Ctx, case: &Case, witness_mode: bool) -> Outcome {
    let mut o = Outcome::default();
    let src = case.src().to_owned();
    let base = match ctx.baseline(&src) {
        Ok(b) => b,
        Err(e) => {
            o.skipped = true;
            o.hist("skipped", if e.contains("parse") { "darklua rejects the source" } else { "baseline error" });
            return o;
        }
    };
    let out = match run_real(&src, &case.config()) {
        Ok(x) => x,
        Err(e) => {
            o.oracle_fails.push("run".to_owned());
            o.violate("oracle", "rule_runs", format!("the rule fails on a file darklua accepts: {}", e), case, true);
            return o;
        }
    };
    if has_lone_cr(&src) && !witness_mode {
        // F31: darklua's tokenizer does not end a line comment at a CR that is not followed by LF
        o.hist("skipped", "source with a lone CR (F31)");
        o.skipped = true;
        return o;
    }
    let lsrc = ctx.lex(&src);
    let lbase = ctx.lex(&base);
    // the generator alone (no rule) reproduces tokens, comments and lines: precondition of the model comparisons
    let faithful = lsrc.code() == lbase.code() && lsrc.comment_bytes() == lbase.comment_bytes() && lsrc.lines() == lbase.lines();
    if lsrc.code() != lbase.code() || lsrc.comment_bytes() != lbase.comment_bytes() {
        // not C18's business (no rule ran): the generator alone changed tokens or comments
        o.hist("baseline_vs_source", "differs (generator, not a C18 rule)");
    } else {
        o.hist("baseline_vs_source", "same tokens and comments");
    }
    match case {
        Case::Append { text, loc, src } => {
            let (ct, nlines, form) = ctx.comment_text(text);
            // (F20/F21 are fixed: every text is inside the proved region, `append_safe_full`)
            let inside = true;
            o.hist("append_region", format!("{}:{}", loc.name(), match form.as_str() {
                "empty" => "empty text",
                "true" => if text.contains('\n') { "long form: multi-line" } else { "long form: CR or long-bracket opener" },
                _ => "single-line form",
            }));
            // Where the real rule attached the comment: the number of code tokens written before the
            // comment that holds it (first such comment for `start`, last for `end`). The model attaches
            // to the first / last statement token of the file in writing order; darklua to what
            // `mutate_first_token` / `mutate_last_token` return, which the AST may define otherwise
            // (an attribute before `function`, a union type at the end of a type declaration). The
            // property says nothing about the position, so the position-dependent comparisons (exact
            // output bytes, comment order, line of every token) apply when both agree — always demanded
            // on the fixed files — and the position-free ones (below) in every case.
            let fixed_file = append_files().contains(&src.as_str());
            let lo_early = ctx.lex(&out);
            let real_pos: Option<usize> = {
                let mut n_tok = 0usize;
                let mut found: Vec<usize> = Vec::new();
                for (is_com, i) in &lo_early.order {
                    if *is_com {
                        if !ct.is_empty() && contains(&lo_early.coms[*i].0, &ct) {
                            found.push(n_tok);
                        }
                    } else {
                        n_tok += 1;
                    }
                }
                match loc {
                    Loc::Start => found.first().cloned(),
                    Loc::End => found.last().cloned(),
                }
            };
            // the model's attach point (same rule as the driver's `toFile`: a final `;` is a block token)
            let after = if lbase.toks.len() >= 2 && lbase.toks.last().map(|t| t.bytes == b";").unwrap_or(false) { 1 } else { 0 };
            let model_pos = match loc {
                Loc::Start => 0,
                Loc::End => lbase.toks.len() - after,
            };
            let same_attach = real_pos == Some(model_pos);
            if !ct.is_empty() && real_pos.is_some() {
                o.hist(
                    "append_attach_point",
                    if same_attach { "first/last statement token of the file (as the model)" } else { "another token (AST's notion of first/last token)" },
                );
            }
            // --- correspondence: the comment bytes
            let expected: Option<Vec<u8>> = if ct.is_empty() {
                Some(base.clone().into_bytes())
            } else if src.is_empty() {
                Some(match loc {
                    Loc::Start => [ct.clone(), b"\n".to_vec()].concat(),
                    Loc::End => ct.clone(),
                })
            } else if *loc == Loc::Start && (same_attach || fixed_file) {
                Some([ct.clone(), b"\n".to_vec(), base.clone().into_bytes()].concat())
            } else {
                None
            };
            let mut corr_fail: Option<(String, String)> = None;
            if let Some(exp) = &expected {
                if out.as_bytes() != exp.as_slice() {
                    corr_fail = Some((
                        "comment_text".to_owned(),
                        format!("real output {:?}, model predicts {:?}", out, show(exp)),
                    ));
                }
            } else if !contains(out.as_bytes(), &ct) {
                corr_fail = Some((
                    "comment_text".to_owned(),
                    format!("real output {:?} does not contain the model's comment {:?}", out, show(&ct)),
                ));
            }
            // --- the level of the long form, on the empty file (where the output is the comment itself):
            // the model's level against the real one (flagged even when the output still parses), and,
            // independently of the model, the real closer must not occur anywhere in the text
            let mut level_fail: Option<String> = None;
            if src.is_empty() && !ct.is_empty() {
                let ob = out.as_bytes();
                let real_level: Option<usize> = if ob.starts_with(b"--[") {
                    let k = ob[3..].iter().take_while(|b| **b == b'=').count();
                    if ob.get(3 + k) == Some(&b'[') && form == "true" { Some(k) } else { None }
                } else {
                    None
                };
                let model_level: Option<usize> = ctx.level(text);
                o.hist("append_level", match real_level { None => "single-line form".to_owned(), Some(k) if k >= 4 => "level >= 4".to_owned(), Some(k) => format!("level {}", k) });
                if real_level != model_level && corr_fail.is_none() {
                    corr_fail = Some(("level".to_owned(), format!("real long-comment level {:?}, model {:?} (output {:?})", real_level, model_level, out)));
                }
                if let Some(k) = real_level {
                    let closer: Vec<u8> = std::iter::once(b']').chain(std::iter::repeat(b'=').take(k)).chain(std::iter::once(b']')).collect();
                    if contains(text.as_bytes(), &closer) {
                        level_fail = Some(format!("the comment is wrapped at level {} but the text contains {:?}: the comment ends inside the text (output {:?})", k, show(&closer), out));
                    }
                }
            }
            // --- oracle
            let mut fails = oracle(ctx, case, &base, &out, None);
            if let Some(w) = level_fail {
                fails.push(("closer_in_text".to_owned(), w));
            }
            o.oracle_fails = fails.iter().map(|f| f.0.clone()).collect();
            let lo = ctx.lex(&out);
            for (name, what) in &fails {
                if name == "O4" {
                    // F32: the comment is attached to the last *statement* token; block-level tokens written
                    // after it (the final `;`, the rest of a union type) are pushed down by the comment.
                    // Excused only there: every token before the attach point must keep its line.
                    // The excuse has exactly the shape F32 names (`f32_shape`): the tokens behind the attach point
                    // are the final `;` alone, or the `| B` / `& B` tail of a type declaration.
                    let (rl, bl) = (lo.lines(), lbase.lines());
                    let tail_only = real_pos.map(|p| p < bl.len() && rl.len() == bl.len() && rl[..p] == bl[..p] && f32_shape(&lbase, p)).unwrap_or(false);
                    if tail_only && !witness_mode {
                        o.count("F32_tokens_behind_the_attached_comment_move");
                        continue;
                    }
                }
                if witness_mode {
                    continue;
                }
                o.violate("oracle", &format!("append_{}", name), what.clone(), case, true);
            }
            // --- correspondence: token model (code, comments up to merging, lines)
            let oracle_ok = fails.iter().all(|f| f.0 == "O4");
            // the model's shift: `lines().count()` of the comment for `start`, none for `end`
            let nlines = if *loc == Loc::Start { nlines } else { 0 };
            if inside && !ct.is_empty() && oracle_ok && corr_fail.is_none() {
                // position-free: the comment exists exactly once more than before …
                if lo.coms.len() == lbase.coms.len() + 1 {
                    let occ = |l: &Lexed| -> usize { l.coms.iter().map(|c| count_occurrences(&c.0, &ct)).sum() };
                    if occ(&lo) != occ(&lbase) + 1 {
                        corr_fail = Some((
                            "comment_once".to_owned(),
                            format!("the model's comment {:?} occurs {} times in the comments of the output, {} times before", show(&ct), occ(&lo), occ(&lbase)),
                        ));
                    }
                }
                // … the tokens written before it move down by exactly the model's shift, those after it by at least that
                if faithful && lo.code() == lbase.code() {
                    if let Some(p) = real_pos {
                        let (rl, bl) = (lo.lines(), lbase.lines());
                        let bad = (0..rl.len()).find(|&i| if i < p { rl[i] != bl[i] + nlines } else { rl[i] < bl[i] + nlines });
                        if let Some(i) = bad {
                            corr_fail = Some((
                                "model_shift".to_owned(),
                                format!("token {} moves from line {} to {}, model shift {} (comment attached after {} tokens)", i, bl[i], rl[i], nlines, p),
                            ));
                        }
                    }
                }
                // on every source: where the AST's notion of first / last token is known to differ from the
                // file's (an attribute before `function` at `start`: F28, withdrawn; the F32 shapes at `end`)
                // the position is not compared; anywhere else a different attach point is a break
                let known_other_attach = match loc {
                    Loc::Start => lbase.toks.first().map(|t| t.bytes == b"@").unwrap_or(false),
                    Loc::End => real_pos.map(|p| f32_shape(&lbase, p)).unwrap_or(false),
                };
                if !same_attach && (fixed_file || !known_other_attach) {
                    corr_fail = Some((
                        "attach_position".to_owned(),
                        format!("comment found after {:?} code tokens, the model attaches it after {}", real_pos, model_pos),
                    ));
                }
            }
            if inside && same_attach && oracle_ok && corr_fail.is_none() {
                match ctx.model_view(case) {
                    Some(Ok(view)) => {
                        let real_code: Vec<Vec<u8>> = lo.toks.iter().map(|t| t.bytes.clone()).collect();
                        // the model's code tokens are the lexer's tokens of the *source*
                        let src_code: Vec<Vec<u8>> = lsrc.toks.iter().map(|t| t.bytes.clone()).collect();
                        if view.code != src_code {
                            corr_fail = Some(("model_code".to_owned(), "model changes the code tokens".to_owned()));
                        } else if lsrc.code() == lbase.code() && real_code != view.code {
                            corr_fail = Some(("model_code".to_owned(), "code tokens of the real output differ from the model's".to_owned()));
                        }
                        let cat_real: Vec<u8> = lo.coms.iter().flat_map(|c| c.0.clone()).collect();
                        let cat_model: Vec<u8> = view.comments.iter().flatten().cloned().collect();
                        // where exactly the comment lands among the other comments depends on which token
                        // the AST calls first/last (attributes, union types, …): compared on the fixed files only
                        if faithful && fixed_file {
                            if cat_real != cat_model {
                                corr_fail = Some((
                                    "model_comments".to_owned(),
                                    format!(
                                        "comments of the real output {:?}, model {:?}",
                                        lo.comment_bytes().iter().map(|c| show(c)).collect::<Vec<_>>(),
                                        view.comments.iter().map(|c| show(c)).collect::<Vec<_>>()
                                    ),
                                ));
                            } else if lo.coms.len() != view.comments.len() {
                                o.hist("append_comment_merge", "merged with a neighbouring line comment");
                            } else {
                                o.hist("append_comment_merge", "separate");
                            }
                        }
                        if !text.is_empty() && faithful && real_code == view.code && (fixed_file || *loc == Loc::Start) {
                            // a token written after the attached comment (the final semicolon) is pushed
                            // down by the generator when the comment is a line comment: not modelled
                            let n = view.lines.len().saturating_sub(if *loc == Loc::End { view.after } else { 0 });
                            let real_lines: Vec<Option<usize>> = lo.lines().into_iter().map(Some).collect();
                            if real_lines[..n.min(real_lines.len())] != view.lines[..n] {
                                corr_fail = Some((
                                    "model_lines".to_owned(),
                                    format!("token lines of the real output {:?}, model (shift {}) {:?}", real_lines, nlines, view.lines),
                                ));
                            }
                        }
                    }
                    Some(Err(e)) => {
                        o.hist("model_view", format!("unavailable: {}", e));
                    }
                    None => {}
                }
            }
            if let Some((check, what)) = corr_fail {
                o.oracle_fails.push(format!("corr:{}", check));
                if !witness_mode {
                    o.violate("correspondence", &check, what, case, false);
                }
            }
            if !text.is_empty() {
                o.key = Some(format!("a|{}|{}|{}", text, loc.name(), src));
            }
        }
        Case::Remove { rule, .. } => {
            let expected = expected_survivors(rule, &lbase.comment_bytes());
            let fails = oracle(ctx, case, &base, &out, Some(&expected));
            o.oracle_fails = fails.iter().map(|f| f.0.clone()).collect();
            // (F26 is fixed: `except` patterns see the comment text without the CR of a CRLF line end;
            //  the cases where the CR would change the verdict are counted to show they are exercised)
            let with_cr: Vec<Vec<u8>> = lbase.comment_bytes().iter().map(|c| [c.as_slice(), b"\r"].concat()).collect();
            let crlf_sensitive = src.contains("\r\n")
                && expected_survivors(rule, &with_cr).iter().map(|c| c[..c.len() - 1].to_vec()).collect::<Vec<_>>() != expected;
            o.hist("remove_crlf", if crlf_sensitive { "CRLF file and a pattern whose verdict would change with the CR" } else { "other" });
            let spaces = rule.has_spaces();
            // (F27 is fixed: line comments such as `--[abc[ x` are no longer excused)
            // (F30 is fixed too: a line comment directly before `...` is no longer excused)
            // (F29 is fixed as well, /repo 3880cd4: a `-` directly before a comment is only counted, not excused)
            let f27 = false;
            if spaces {
                o.hist(
                    "remove_spaces_region",
                    if f29_trigger(&lbase) {
                        "`-` directly before a comment (was F29: now checked)"
                    } else {
                        "inside"
                    },
                );
            }
            if !witness_mode {
                for (name, what) in &fails {
                    if f27 {
                        o.count("oracle_fails_in_F29_region");
                        continue;
                    }
                    o.violate("oracle", &format!("remove_{}", name), what.clone(), case, true);
                }
            }
            let lo = ctx.lex(&out);
            o.hist(
                "remove_lines",
                if lo.lines() == lbase.lines() { "token lines kept" } else { "token lines changed (C04's concern)" },
            );
            // correspondence with `removeSpaces_spec` (no whitespace trivia left on ANY carrier): what
            // separates two items of the output is only what the generator itself writes — nothing, one
            // blank, or line breaks — and never a blank next to `(` `)` `,` `;` `{` `}`
            if spaces && !f27 && fails.is_empty() {
                if let Some(bad) = leftover_whitespace(&out, &lo) {
                    o.oracle_fails.push("corr:spaces_removed".to_owned());
                    if !witness_mode {
                        o.violate(
                            "correspondence",
                            "spaces_removed",
                            format!("after remove_spaces the output {:?} still has whitespace trivia: {}", out, bad),
                            case,
                            false,
                        );
                    }
                }
            }
            let kept = expected.len();
            let total = lbase.coms.len();
            o.hist(
                "remove_selection",
                match rule {
                    Rule::Spaces => "remove_spaces".to_owned(),
                    Rule::Seq(rs) => format!("pipeline: {}", rs.iter().map(|r| if matches!(r, Rule::Spaces) { "spaces" } else { "comments" }).collect::<Vec<_>>().join(" then ")),
                    Rule::Comments { lits, regexes } if lits.is_empty() && regexes.is_empty() => "remove_comments: no except".to_owned(),
                    Rule::Comments { .. } => format!(
                        "remove_comments: except keeps {}",
                        if kept == 0 { "none" } else if kept == total { "all" } else { "some" }
                    ),
                },
            );
            if fails.is_empty() {
                if let Some(view) = ctx.model_view(case) {
                    match view {
                        Ok(view) => {
                            let real_code: Vec<Vec<u8>> = lo.toks.iter().map(|t| t.bytes.clone()).collect();
                            let comments_differ = if rule.has_spaces() {
                                lo.comment_bytes().concat() != view.comments.concat()
                            } else {
                                lo.comment_bytes() != view.comments
                            };
                            if faithful && (real_code != view.code || comments_differ)
                            {
                                o.oracle_fails.push("corr:model_remove".to_owned());
                                if !witness_mode {
                                    o.violate(
                                        "correspondence",
                                        "model_remove",
                                        format!(
                                            "real comments {:?}, model comments {:?}",
                                            lo.comment_bytes().iter().map(|c| show(c)).collect::<Vec<_>>(),
                                            view.comments.iter().map(|c| show(c)).collect::<Vec<_>>()
                                        ),
                                        case,
                                        false,
                                    );
                                }
                            }
                        }
                        Err(e) => o.hist("model_view", format!("unavailable: {}", e)),
                    }
                }
            }
            if total > 0 {
                o.key = Some(format!("r|{}|{}", case.config(), src));
            }
        }
    }
    o
}

/// reference lexer vs the tokenizer darklua parses with, on a source darklua accepts
fn cross_check_lexer(ctx: &mut Ctx, src: &str, o: &mut Outcome) {
    let fm = match fm_tokens(src) {
        Some(f) => f,
        None => {
            o.hist("lexer_cross_check", "full_moon rejects");
            return;
        }
    };
    let l = ctx.lex(src);
    let lt: Vec<(String, usize)> = l.toks.iter().map(|t| (show(&t.bytes), t.line)).collect();
    let lc: Vec<(String, usize)> = l.coms.iter().map(|c| (show(&c.0), c.1)).collect();
    // full_moon keeps the CR of a CRLF line end inside a line comment
    let fc: Vec<(String, usize)> = fm
        .coms
        .iter()
        .map(|(s, n)| (s.strip_suffix('\r').unwrap_or(s).to_owned(), *n))
        .collect();
    if fc != fm.coms {
        o.hist("lexer_cross_check_note", "full_moon line comment carries the CR of CRLF");
    }
    let case = Case::Remove { src: src.to_owned(), rule: Rule::Spaces };
    if !l.ok || lt != fm.toks {
        let i = lt.iter().zip(fm.toks.iter()).take_while(|(a, b)| a == b).count();
        o.hist("lexer_cross_check", "DISAGREE tokens");
        o.violate(
            "correspondence",
            "lexer_vs_darklua_parser",
            format!(
                "reference lexer (ok={}) and darklua's tokenizer differ at token {}: {:?} vs {:?}",
                l.ok,
                i,
                lt.get(i),
                fm.toks.get(i)
            ),
            &case,
            false,
        );
    } else if lc != fc {
        o.hist("lexer_cross_check", "DISAGREE comments");
        o.violate(
            "correspondence",
            "lexer_vs_darklua_parser",
            format!("comments differ: {:?} vs {:?}", lc, fc),
            &case,
            false,
        );
    } else {
        o.hist("lexer_cross_check", "agree (token texts, comment texts, lines)");
    }
}

// ------------------------------------------------------------------------------------------
// generators

const ALPHABET: [char; 8] = ['[', ']', '=', '-', 'a', '\n', '\r', ' '];

fn all_texts(max_len: usize) -> Vec<String> {
    let mut out = vec![String::new()];
    let mut layer = vec![String::new()];
    for _ in 0..max_len {
        let mut next = Vec::with_capacity(layer.len() * ALPHABET.len());
        for s in &layer {
            for c in ALPHABET {
                let mut t = s.clone();
                t.push(c);
                next.push(t);
            }
        }
        out.extend(next.iter().cloned());
        layer = next;
    }
    out
}

/// every text up to `max_len` over `alphabet` (the empty text excluded)
fn texts_over(alphabet: &[char], max_len: usize) -> Vec<String> {
    let mut out = Vec::new();
    let mut layer = vec![String::new()];
    for _ in 0..max_len {
        let mut next = Vec::with_capacity(layer.len() * alphabet.len());
        for s in &layer {
            for c in alphabet {
                let mut t = s.clone();
                t.push(*c);
                next.push(t);
            }
        }
        out.extend(next.iter().cloned());
        layer = next;
    }
    out
}

/// The bracket family: what decides the level of the long form and whether the comment can end early.
/// Closers of different levels that share a `]` (`]]=]`, `]=]]`, `]==]=]]` …) need five or more characters
/// together with the LF / CR / leading long bracket that selects the long form.
fn bracket_texts() -> Vec<String> {
    let mut v = texts_over(&[']', '=', '[', '\n'], 6);
    v.extend(texts_over(&[']', '=', '\r'], 5));
    v.extend(texts_over(&[']', '=', '['], 7).into_iter().filter(|t| t.starts_with("[[") || t.starts_with("[=[") || t.starts_with("[==[")));
    v.sort();
    v.dedup();
    v
}

/// overlapping closers of different levels, in every way the long form is selected
fn overlapping_closer_texts() -> Vec<String> {
    let cores = [
        "]]=]", "]=]]", "]]=]]", "]=]]=]", "]==]=]]", "]]=]==]", "]=]==]]", "]]==]=]", "]==]]=]", "]=]]]=]", "]]=]=]]",
        "]]=]==]===]", "]===]==]=]]", "x]]=]y", "]] ]=]]", "]]=] ]]", "]=]=]]",
    ];
    let mut v = Vec::new();
    for c in cores {
        for (pre, post) in [("\n", ""), ("", "\n"), ("\r", ""), ("", "\r"), ("\r\n", ""), ("a\n", "b"), ("[[", ""), ("[=[", ""), ("[==[ ", ""), ("[[", "\n"), ("\n", "\n")] {
            v.push(format!("{}{}{}", pre, c, post));
        }
    }
    v
}

/// the property's list
fn special_texts() -> Vec<String> {
    [
        "", "hello", "]]", "a]]b", "]=]", "x]=]y", "[[", "[[hello", "[=[", "[=[hello", "[==[ x ]==]", "[", "[=",
        "[=x[", "[ [", "x]", "]", "]=", "a\nb", "a\r\nb", "\n", "a\n", "\nb", "]]\n", "\n]]", "]\n]", "]=\n=]",
        "a\n]]\n]=]\n]==]", "]]\n]=]", "]\n", "a\rb", "\r", "a\r", "hello\rprint(1)", "--", "-- x", "--[[", "--[[ x ]]",
        "--\n--", "]]--", "!native", "!strict", "é ü 日本", "日本\n]]", " ", "\t", "[[\n", "[[\n]]", "]]]]\n]=]]=]",
        "[==========[", "]==========]", "a]==]\n]]\n]=]", "x\n\n\ny", "print(1)", "]] print(2) --[[",
        "]]\nprint(2)\n--[[", "\\", "\\\n", "'", "\"", "`{", "\0",
    ]
    .iter()
    .map(|s| s.to_string())
    .collect()
}

/// files for the append cases: empty / with code / ending with a line comment / lacking a final newline …
fn append_files() -> Vec<&'static str> {
    vec![
        "",
        "print(1)\n",
        "print(1)",
        "print(1) -- c",
        "print(1) -- c\n",
        "print(1)\n-- c",
        "print(1)\n-- c\n",
        "-- only",
        "--[[ only ]]",
        "return 1 --[[ c ]]",
        "local a = 1 -- x\nprint(a) --[=[ y\n ]=] print(2)\n\n\n",
        "-- first\nlocal s = 'str' .. [[long\nstring]]\nreturn s",
        "do end --",
        "f ( ) ;",
        "return 1 , 2",
        // files ending in an if-expression (the last token is the last token of the ELSE result)
        "local x = if a then b else c",
        "return if a then b elseif c then d else e",
        "x = 1 + if a then b else - c",
        "local y = if a then b else if c then d else { e }\n",
    ]
}

const TEMPLATES: [&str; 31] = [
    "local a , b = 1 , 0x1F",
    "local function f ( x , ... ) return x + 1 , ... end",
    "function M . n : m ( a ) local t = { 1 , 2 ; x = 3 , [ \"k\" ] = 4 } return t [ 1 ] . x end",
    "if a == b then f ( ) elseif a ~= b then g ( ) else h ( ) end",
    "while not a do a = a or b and c break end",
    "repeat x = x .. \"s\" until x == nil",
    "for i = 1 , 10 , 2 do continue end",
    "for k , v in pairs ( t ) do print ( k , v ) end",
    "do local s = 'q·\"·w' ; local l = [==[·long·]]·string·]==] end",
    "a . b [ c ] : d ( e ) ( f ) \"str\" { g }",
    "x += 1 y //= 2 z ..= \"w\" w -= 1 v *= 2 u /= 2 t %= 2 s ^= 2",
    "type T < U > = { f : number , [ string ] : U } | ( a : number , ... string ) -> ( ) | nil",
    "export type P = typeof ( x ) & Q type O = string ? | nil",
    "local v : number = ( w :: any ) :: number",
    "local r = if c then 1 elseif d then 2 else 3",
    "local s = `a{ x }b{ y + 1 }c` .. `plain` .. `{ z }`",
    // interpolated values that START with a table constructor (`{{` is not Luau: the generator must keep them apart)
    "local it = `{ { 1 , 2 } }`",
    "local iu = `a{ { } :: any }b{ { x = 1 } == t }`",
    "local iv = `{ { } .. x }` .. `{ { f } and 1 }c`",
    "local d = 5. or 1 local c = a .. .5 local m = a - - b local q = t [ [[s]] ] local g : A < B > = nil",
    "local n = 1e10 + .5 + 3. + 0b1010 + 1_000 + 0xFF_FF - 1e-3 + 0XAB + 1E+2",
    "local f = function < T > ( a : T , ... : T ) : ( T , ... T ) return a , ... end",
    "t = { [ 1 ] = 1 , a = 2 , 3 , } f { } f ''",
    "local e = a < b , a <= b , a > b , a >= b , a % b , a / b , a // b , a * b , a - b , - a , # t , not y , ( z ) , a ^ b",
    "local function g ( ... : number ) : ... string return ... end",
    "local str = \"esc·\\\"·\\\\·\\n·\\z···x·\\065·\\x41·\\u{48}\" .. 'a\\'b'",
    "t . x . y = nil ; ( f ) ( ) ; f ( ) : g ( ) ;",
    "local aa , bb : string , cc : any = f ( ) , \"x\" , nil",
    "@native function nf ( ) end",
    "type function TF ( t ) return t end",
    "local tbl : { number } = { } local cb : ( ) -> ( ) = nil local opt : string ? = nil",
];

const LAST_TEMPLATES: [&str; 5] = [
    "return - x ^ 2 , # t , not y , ( z ) , function ( ... ) end , ...",
    "return",
    "return f ( a ) ;",
    "return { a = 1 }",
    "return a and b or c",
];

const LINE_BODIES: [&str; 22] = [
    "", " x", "!strict", " TODO: fix", "- dashes", "[abc[ x", "[=x", "[", " keep me", " 日本", "]]", "]=]", " this one",
    "[==", "--", " --[[ not long ]]", " y ]]", "x", " KEEP", " 123", "!native", " end",
];

const LONG_COMMENTS: [&str; 12] = [
    "--[[ y ]]",
    "--[[\nmulti\n]]",
    "--[=[ a ]] b ]=]",
    "--[==[ x ]==]",
    "--[[]]",
    "--[[ -- nested ]]",
    "--[[ keep me ]]",
    "--[=[\n]]\n]=]",
    "--[[ this\nspans ]]",
    "--[[!strict]]",
    "--[===[ ]==] ]=] ]] ]===]",
    "--[[ x]]",
];

const WS: [&str; 7] = [" ", "\n", "  ", "\t", "\n\n", " \n ", "\n  "];

/// one gap between two tokens: whitespace, then zero or more comments each followed by whitespace
fn gap(rng: &mut Rng, force_comment: Option<usize>, nl: &str, prev: &str) -> String {
    let mut g = String::new();
    // tight: a long comment glued to the previous token (never after `-`, that would be a `---` line comment)
    if !prev.is_empty() && !prev.ends_with('-') && rng.chance(1, 8) {
        g.push_str(&rng.pick(&LONG_COMMENTS).replace('\n', nl));
        if rng.chance(1, 2) {
            return g;
        }
    }
    g.push_str(&rng.pick(&WS).replace('\n', nl));
    let n = match force_comment {
        Some(_) => 1 + rng.below(2),
        None => {
            if rng.chance(1, 4) {
                1 + rng.below(2)
            } else {
                0
            }
        }
    };
    for i in 0..n {
        let long = match force_comment {
            Some(k) => (k + i) % 2 == 0,
            None => rng.chance(1, 2),
        };
        if long {
            g.push_str(&rng.pick(&LONG_COMMENTS).replace('\n', nl));
            g.push_str(&rng.pick(&WS).replace('\n', nl));
        } else {
            g.push_str("--");
            g.push_str(*rng.pick(&LINE_BODIES));
            g.push_str(nl);
            if rng.chance(1, 3) {
                g.push_str(&rng.pick(&WS).replace('\n', nl));
            }
        }
    }
    g
}

/// a program with trivia in the gaps; `every`: a comment in every gap (every trivia position)
fn gen_source(rng: &mut Rng, every: bool, nl: &str, only: Option<usize>) -> String {
    let mut toks: Vec<String> = Vec::new();
    let n = if only.is_some() { 1 } else { 1 + rng.below(3) };
    for _ in 0..n {
        let t = match only {
            Some(i) if i < TEMPLATES.len() => TEMPLATES[i],
            Some(_) => "",
            None => *rng.pick(&TEMPLATES),
        };
        toks.extend(t.split(' ').filter(|x| !x.is_empty()).map(|x| x.replace('·', " ")));
    }
    let last = match only {
        Some(i) if i >= TEMPLATES.len() => Some(LAST_TEMPLATES[i - TEMPLATES.len()]),
        Some(_) => None,
        None => {
            if rng.chance(1, 3) {
                Some(*rng.pick(&LAST_TEMPLATES))
            } else {
                None
            }
        }
    };
    if let Some(t) = last {
        toks.extend(t.split(' ').map(|x| x.replace('·', " ")));
    }
    let mut s = String::new();
    if every || rng.chance(1, 2) {
        let g = gap(rng, if every { Some(0) } else { None }, nl, "");
        s.push_str(g.trim_start_matches(' '));
    }
    for (i, t) in toks.iter().enumerate() {
        s.push_str(t);
        let is_last = i + 1 == toks.len();
        if !is_last || every || rng.chance(1, 2) {
            s.push_str(&gap(rng, if every { Some(i) } else { None }, nl, t));
        }
    }
    if rng.chance(1, 3) {
        // end without a final newline, possibly right after a line comment
        while s.ends_with('\n') || s.ends_with(' ') || s.ends_with('\r') || s.ends_with('\t') {
            s.pop();
        }
    }
    s
}

fn lit_pool() -> Vec<Lit> {
    vec![
        (false, false, "x".into()),
        (false, false, "keep".into()),
        (false, false, "KEEP".into()),
        (true, false, "--!".into()),
        (false, false, "TODO".into()),
        (true, false, "--[[".into()),
        (true, false, "--[=".into()),
        (false, false, "]]".into()),
        (false, true, "]]".into()),
        (false, true, "x".into()),
        (true, true, "--".into()),
        (true, true, "--[[]]".into()),
        (false, false, "日本".into()),
        (false, false, "\n".into()),
        (false, false, "this".into()),
        (true, false, "-- ".into()),
        (false, false, "--".into()),
        (false, false, "zzz-never".into()),
        (false, false, ".".into()),
        (false, false, "[".into()),
    ]
}

const REGEX_POOL: [&str; 12] = [
    "this.*", "^--!\\w+", "[A-Z]{2,}", "(?i)keep", "\\d", "^--\\[=*\\[", ".", "^$", "^--\\s", "(?s)multi.*\\]\\]$",
    "[\\[\\]]", "\\bx\\b",
];

fn gen_rule(rng: &mut Rng, crlf: bool) -> Rule {
    match rng.below(8) {
        0 => Rule::Spaces,
        1 => Rule::Comments { lits: vec![], regexes: vec![] },
        2 | 3 | 4 => {
            let _ = crlf;
            let pool: Vec<Lit> = lit_pool();
            let n = 1 + rng.below(3);
            Rule::Comments { lits: (0..n).map(|_| rng.pick(&pool).clone()).collect(), regexes: vec![] }
        }
        _ => {
            let pool: Vec<&str> = REGEX_POOL.to_vec();
            let n = 1 + rng.below(2);
            Rule::Comments { lits: vec![], regexes: (0..n).map(|_| rng.pick(&pool).to_string()).collect() }
        }
    }
}

// ------------------------------------------------------------------------------------------
// the carrier sweep: a comment as leading and as trailing trivia of every token of every construct

#[derive(Clone, Debug)]
struct CarrierSource {
    src: String,
    /// byte offset of the token the marker comment is attached to
    offset: usize,
    marker: String,
    leading: bool,
    labels: Vec<String>,
    template: usize,
    token: usize,
}

struct CTok {
    text: String,
    lead: Vec<String>,
    trail: Vec<String>,
}

fn parse_template(t: &str) -> Vec<CTok> {
    t.split(' ')
        .filter(|w| !w.is_empty())
        .map(|w| {
            let (text, labels) = match w.split_once('§') {
                Some((a, b)) => (a, b),
                None => (w, ""),
            };
            let mut tok = CTok { text: text.replace('·', " "), lead: Vec::new(), trail: Vec::new() };
            for l in labels.split('+').filter(|l| !l.is_empty()) {
                if let Some(l) = l.strip_prefix('<') {
                    tok.lead.push(l.to_owned());
                } else if let Some(l) = l.strip_prefix('>') {
                    tok.trail.push(l.to_owned());
                } else {
                    tok.lead.push(l.to_owned());
                    tok.trail.push(l.to_owned());
                }
            }
            tok
        })
        .collect()
}

/// `prev NL marker token` (leading) or `token marker NL next` (trailing); a decoy comment ends the file
fn carrier_sources() -> Vec<CarrierSource> {
    let mut out = Vec::new();
    for (ti, t) in carriers::TEMPLATES.iter().enumerate() {
        let toks = parse_template(t);
        for i in 0..toks.len() {
            for leading in [true, false] {
                for long in [false, true] {
                    let labels = if leading { toks[i].lead.clone() } else { toks[i].trail.clone() };
                    // unlabelled tokens: one comment form per side is enough
                    if labels.is_empty() && long != ((i + ti) % 2 == 0) {
                        continue;
                    }
                    let marker = if long { "--[[@K]]".to_owned() } else { "--@K".to_owned() };
                    let mut s = String::new();
                    let mut offset = 0;
                    for (j, tk) in toks.iter().enumerate() {
                        if j == i && leading {
                            if !s.is_empty() {
                                s.push('\n');
                            }
                            s.push_str(&marker);
                            s.push_str(if long { " " } else { "\n" });
                        } else if j > 0 && !s.ends_with('\n') {
                            s.push(' ');
                        }
                        if j == i {
                            offset = s.len();
                        }
                        s.push_str(&tk.text);
                        if j == i && !leading {
                            s.push(' ');
                            s.push_str(&marker);
                            s.push('\n');
                        }
                    }
                    if !s.ends_with('\n') {
                        s.push('\n');
                    }
                    s.push_str("--@D");
                    out.push(CarrierSource { src: s, offset, marker, leading, labels, template: ti, token: i });
                }
            }
        }
    }
    // the end-of-file token: comments after the last statement are its leading trivia
    for marker in ["--@K", "--[[@K]]"] {
        out.push(CarrierSource {
            src: format!("--@D\nf ( )\n{}", marker),
            offset: usize::MAX,
            marker: marker.to_owned(),
            leading: true,
            labels: vec!["Block.tokens".to_owned(), "BlockTokens.final_token".to_owned()],
            template: usize::MAX,
            token: 0,
        });
    }
    out
}

/// Is the marker comment leading / trailing trivia of the token at `offset`, for the tokenizer darklua parses with?
fn attachment_holds(c: &CarrierSource) -> Option<bool> {
    use full_moon::node::Node;
    use full_moon::tokenizer::TokenReference;
    let c = c.clone();
    std::panic::catch_unwind(move || {
        let ast = full_moon::parse_fallible(&c.src, full_moon::LuaVersion::luau()).into_result().ok()?;
        let check = |t: &TokenReference| -> bool {
            if c.leading {
                t.leading_trivia().any(|tr| tr.to_string() == c.marker)
            } else {
                t.trailing_trivia().any(|tr| tr.to_string() == c.marker)
            }
        };
        if c.offset == usize::MAX {
            return Some(check(ast.eof()));
        }
        for t in ast.nodes().tokens() {
            if t.token().start_position().bytes() == c.offset {
                return Some(check(t));
            }
        }
        Some(false)
    })
    .ok()
    .flatten()
}

/// the rule pipelines every carrier source goes through
fn carrier_rules() -> Vec<Rule> {
    let keep = |m: &str| Rule::Comments { lits: vec![(false, false, m.to_owned())], regexes: vec![] };
    let none = Rule::Comments { lits: vec![], regexes: vec![] };
    vec![
        keep("@K"),
        keep("@D"),
        keep("@"),
        none.clone(),
        Rule::Comments { lits: vec![], regexes: vec!["@K\\b".to_owned()] },
        Rule::Spaces,
        Rule::Seq(vec![keep("@K"), Rule::Spaces]),
        Rule::Seq(vec![Rule::Spaces, keep("@K")]),
        Rule::Seq(vec![keep("@D"), Rule::Spaces]),
        Rule::Seq(vec![Rule::Spaces, keep("@D")]),
        Rule::Seq(vec![none.clone(), Rule::Spaces]),
        Rule::Seq(vec![Rule::Spaces, none]),
    ]
}

/// (struct, section, field) of every `impl_token_fns!` use under `<repo>/src/nodes`
fn repo_carriers(repo: &str) -> Result<Vec<String>, String> {
    fn walk(dir: &std::path::Path, out: &mut Vec<std::path::PathBuf>) {
        if let Ok(rd) = std::fs::read_dir(dir) {
            for e in rd.filter_map(|e| e.ok()) {
                let p = e.path();
                if p.is_dir() {
                    walk(&p, out);
                } else if p.extension().map(|x| x == "rs").unwrap_or(false) {
                    out.push(p);
                }
            }
        }
    }
    let root = std::path::Path::new(repo).join("src/nodes");
    let mut files = Vec::new();
    walk(&root, &mut files);
    if files.is_empty() {
        return Err(format!("no sources under {}", root.display()));
    }
    let use_re = regex::Regex::new(r"impl_token_fns!\s*\(").unwrap();
    let impl_re = regex::Regex::new(r"(?m)^impl(?:<[^>]*>)?\s+(\w+)").unwrap();
    let field_re = regex::Regex::new(r"(?:r#)?(\w+)").unwrap();
    let mut out = Vec::new();
    for f in files {
        if f == root.join("mod.rs") {
            continue; // the macro definition itself
        }
        let s = std::fs::read_to_string(&f).map_err(|e| e.to_string())?;
        for m in use_re.find_iter(&s) {
            let bytes = s.as_bytes();
            let (mut i, mut depth) = (m.end(), 1);
            while depth > 0 && i < bytes.len() {
                match bytes[i] {
                    b'(' => depth += 1,
                    b')' => depth -= 1,
                    _ => {}
                }
                i += 1;
            }
            let args = &s[m.end()..i - 1];
            let name = impl_re
                .captures_iter(&s[..m.start()])
                .last()
                .map(|c| c[1].to_owned())
                .ok_or_else(|| format!("{}: impl_token_fns! outside an impl", f.display()))?;
            for sec in ["target", "iter_flatten", "iter"] {
                let sec_re = regex::Regex::new(&format!(r"(?s)\b{}\s*=\s*\[(.*?)\]", sec)).unwrap();
                if let Some(c) = sec_re.captures(args) {
                    for fld in field_re.captures_iter(&c[1]) {
                        out.push(format!("{}:{}:{}", name, sec, &fld[1]));
                    }
                }
            }
        }
    }
    out.sort();
    out.dedup();
    Ok(out)
}

/// The sweep: returns the cases to run; fills the histogram `carrier` and the self-checks
/// `carrier_list` (model list = repository list) and `carrier_coverage` (no carrier without a case).
fn carrier_sweep(report: &mut Report, ctx: &mut Ctx) -> Vec<Case> {
    let self_check = |report: &mut Report, check: &str, what: String| {
        if std::env::var("C18_DEBUG").is_ok() {
            eprintln!("self-check {}: {}", check, what);
        }
        report.violation(Violation {
            kind: "correspondence".into(),
            check: check.into(),
            what,
            input: json!({"kind": "self-check"}),
            failing_input_found: false,
        });
    };
    // the model's list against the repository under test
    let model_list: Vec<String> = {
        let ans = ctx.model.ask("c18.carriers");
        let mut v: Vec<String> = ans.split(',').map(str::to_owned).collect();
        v.sort();
        v
    };
    let repo = std::env::var("VERIF_REPO").unwrap_or_else(|_| "/repo".to_owned());
    match repo_carriers(&repo) {
        Ok(real) => {
            let missing: Vec<&String> = real.iter().filter(|c| !model_list.contains(c)).collect();
            let stale: Vec<&String> = model_list.iter().filter(|c| !real.contains(c)).collect();
            report.count("carriers_in_repository", real.len() as u64);
            if !missing.is_empty() || !stale.is_empty() {
                self_check(
                    report,
                    "carrier_list",
                    format!("impl_token_fns! uses in {}/src/nodes not in Carriers.lean: {:?}; in Carriers.lean but not in the source: {:?}", repo, missing, stale),
                );
            }
        }
        Err(e) => self_check(report, "carrier_list", format!("cannot read the carriers of the repository: {}", e)),
    }
    let known: Vec<String> = model_list
        .iter()
        .map(|c| {
            let p: Vec<&str> = c.split(':').collect();
            format!("{}.{}", p[0], p[2])
        })
        .collect();
    // sources, attachment check, coverage
    let sources = carrier_sources();
    let rules = carrier_rules();
    let mut cases = Vec::new();
    let mut covered: HashMap<(String, bool), u64> = HashMap::new();
    for c in &sources {
        for l in &c.labels {
            if !l.starts_with("manual:") && !known.contains(l) {
                self_check(report, "carrier_coverage", format!("template {} labels a carrier that is not in the list: {}", c.template, l));
            }
        }
        if ctx.baseline(&c.src).is_err() {
            report.hist("carrier_sources", "darklua rejects the source");
            if !c.labels.is_empty() {
                self_check(report, "carrier_coverage", format!("darklua rejects a carrier source (template {}, token {}): {:?}", c.template, c.token, c.src));
            }
            continue;
        }
        let attached = attachment_holds(c) == Some(true);
        if !attached && std::env::var("C18_DEBUG").is_ok() {
            eprintln!("not attached as intended: template {} token {} leading={} {:?}", c.template, c.token, c.leading, c.src);
        }
        report.hist(
            "carrier_sources",
            if attached { "marker attached as intended (checked with full_moon)" } else { "marker attached to another token" },
        );
        if attached {
            let labels: Vec<String> = if c.labels.is_empty() { vec!["(token without its own label)".to_owned()] } else { c.labels.clone() };
            for l in labels {
                *covered.entry((l.clone(), c.leading)).or_default() += rules.len() as u64;
                for _ in 0..rules.len() {
                    report.hist("carrier", &format!("{} [{}]", l, if c.leading { "leading" } else { "trailing" }));
                }
            }
        }
        for r in &rules {
            cases.push(Case::Remove { src: c.src.clone(), rule: r.clone() });
        }
    }
    for u in carriers::UNPARSEABLE {
        if run_real(u, NO_RULES).is_ok() {
            self_check(report, "carrier_coverage", format!("darklua now parses {:?}: the exemption of the attribute-group carriers is out of date", u));
        }
    }
    for k in known.iter() {
        let exempt = carriers::EXEMPT.iter().find(|e| e.0 == k);
        for leading in [true, false] {
            let is_exempt = exempt.map(|e| if leading { e.1 } else { e.2 }).unwrap_or(false);
            let n = covered.get(&(k.clone(), leading)).cloned().unwrap_or(0);
            if n == 0 && !is_exempt {
                self_check(
                    report,
                    "carrier_coverage",
                    format!("carrier {} has no case with a comment as {} trivia", k, if leading { "leading" } else { "trailing" }),
                );
            }
        }
    }
    report.count("carriers_in_model_list", known.len() as u64);
    report.count("carrier_cases", cases.len() as u64);
    report.exhaustive.insert("every impl_token_fns! carrier x {leading, trailing} comment x 12 rule pipelines".into(), true);
    cases
}

// ------------------------------------------------------------------------------------------
// adjacency guards of the token-based generator: every place where it decides from the text already
// written (`ends_with`), from trivia of the next token (`has_trivia`-like) or from `needs_space` whether two
// tokens may touch. `⟨⟩` marks the gap; each gap is filled with no trivia, trailing-only trivia (on the
// line of the token before), leading-only trivia (after a line break), both, with blanks and comments.

const GUARD_TEMPLATES: &[(&str, &str)] = &[
    // write_string_value_segment_with_tokens: `{` of an interpolated value followed by a table's `{`
    ("interp value starts with a table", "local s = `{⟨⟩{ 1 , 2 } }`"),
    ("interp value starts with a table", "local s = `a{⟨⟩{ } :: any }b{⟨⟩{ x = 1 } == t }c`"),
    ("interp value starts with a table", "local s = `{⟨⟩{ } .. x }`"),
    ("interp value starts with a table", "local s = `{⟨⟩{ f } and 1 }`"),
    ("interp value starts with a table", "local s = `{⟨⟩{ { 1 } } }`"),
    ("table brace trivia behind an interp brace", "local s = `{ {⟨⟩1 } }`"),
    ("table brace trivia behind an interp brace", "local s = `{⟨⟩{⟨⟩1 } }`"),
    ("table brace trivia behind an interp brace", "local s = `{ {⟨⟩} }`"),
    // write_trivia: a comment right after a `-`
    ("`-` before a comment", "local e = a -⟨⟩b"),
    ("`-` before a comment", "local e = -⟨⟩b"),
    ("`-` before a comment", "local e = a -⟨⟩- b"),
    ("`-` before a comment", "local e = a -⟨⟩-⟨⟩b"),
    // needs_space / follows_original / last_number_dot
    ("number ending with a dot", "local d = 5.⟨⟩or 1"),
    ("number ending with a dot", "local d = 5.⟨⟩.. x"),
    ("number before dots", "local d = 1⟨⟩.. 2"),
    ("dots before a number", "local c = a ..⟨⟩.5"),
    ("dots before a number", "local c = a ..⟨⟩5"),
    ("bracket before a long string", "local q = t [⟨⟩[[s]] ]"),
    ("bracket before a long string", "local q = t [⟨⟩[=[s]=]⟨⟩]"),
    ("closing brackets", "local q = t [ u [ 1 ]⟨⟩]"),
    ("`>` before `=`", "local g : A < B >⟨⟩= nil"),
    ("names and keywords", "local⟨⟩x = a⟨⟩and⟨⟩b⟨⟩or⟨⟩not⟨⟩c"),
    ("names and numbers", "local n = 1⟨⟩or⟨⟩0x1⟨⟩and⟨⟩2"),
    ("call with a string or a table", "local r = f⟨⟩\"s\" , f⟨⟩{ } , f⟨⟩[[x]]"),
    ("variadic type pack", "type W = ( ...⟨⟩number ) -> (⟨⟩...⟨⟩string )"),
    ("generic type pack", "type G < T...⟨⟩> = ( T...⟨⟩) -> ( )"),
    ("semicolon and parenthese", "f ( )⟨⟩;⟨⟩( g ) ( )"),
    ("return and last semicolon", "do return⟨⟩1⟨⟩;⟨⟩end"),
];

const GAPS: &[(&str, &str)] = &[
    ("none", ""),
    ("blank", " "),
    ("trailing long comment", "--[[c]]"),
    ("trailing long comment", " --[[c]]"),
    ("trailing long comment", " --[[c]] "),
    ("trailing line comment", " --c\n"),
    ("trailing line comment", "--c\n"),
    ("line break", "\n"),
    ("leading blank", "\n  "),
    ("leading long comment", "\n--[[c]]"),
    ("leading long comment", "\n  --[[c]] "),
    ("leading line comment", "\n--c\n"),
    ("both", " --[[c]]\n--[[d]] "),
    ("both", "--[[c]]\n  --d\n  "),
    ("multi-line comment", " --[[c\nd]] "),
];

/// the directed guard family: every template x every gap filling x the 12 rule pipelines of the carrier sweep
fn guard_cases(report: &mut Report, ctx: &mut Ctx) -> Vec<Case> {
    let rules = carrier_rules();
    let mut cases = Vec::new();
    let mut reached: HashMap<&str, u64> = HashMap::new();
    for (guard, t) in GUARD_TEMPLATES {
        for (gap_kind, gap) in GAPS {
            let src = format!("{}\n--@D", t.replace("⟨⟩", gap));
            // the filling must not change the program: same reference tokens as with a blank in every gap
            // (`5.or` is one malformed number for Lua/Luau although darklua's tokenizer splits it)
            let spaced = format!("{}\n--@D", t.replace("⟨⟩", " "));
            if ctx.lex(&src).code() != ctx.lex(&spaced).code() {
                report.hist("guard_sources", &format!("{}: changes the tokens", gap_kind));
                continue;
            }
            if ctx.baseline(&src).is_err() {
                report.hist("guard_sources", &format!("{}: rejected by darklua", gap_kind));
                continue;
            }
            report.hist("guard_sources", &format!("{}: accepted", gap_kind));
            report.hist("guard", &format!("{} / {}", guard, gap_kind));
            *reached.entry(guard).or_default() += 1;
            for r in &rules {
                cases.push(Case::Remove { src: src.clone(), rule: r.clone() });
            }
        }
    }
    // self-check: every guard has sources that darklua accepts, with trailing-only, leading-only and no trivia
    for (guard, _) in GUARD_TEMPLATES {
        if reached.get(guard).cloned().unwrap_or(0) < 3 {
            report.violation(Violation {
                kind: "correspondence".into(),
                check: "guard_coverage".into(),
                what: format!("adjacency guard {:?} has fewer than 3 accepted sources", guard),
                input: json!({"kind": "self-check"}),
                failing_input_found: false,
            });
        }
    }
    // self-check: the brace guard of interpolated values is really reached: with remove_spaces the real
    // output must keep `{` and the table's `{` apart by exactly the blank the generator inserts
    let probe = "local s = `{ { 1 } }`";
    match run_real(probe, "{rules:['remove_spaces']}") {
        Ok(out) if out.contains("`{ {1}}`") => report.count("interp_brace_guard_reached", 1),
        other => report.violation(Violation {
            kind: "correspondence".into(),
            check: "guard_coverage".into(),
            what: format!("the interpolated-value brace guard is not reached as expected: remove_spaces on {:?} gives {:?}", probe, other),
            input: json!({"kind": "remove_spaces", "src": probe}),
            failing_input_found: false,
        }),
    }
    report.count("guard_cases", cases.len() as u64);
    cases
}

// ------------------------------------------------------------------------------------------
// driving

fn run_parallel(cases: Vec<Case>, cross_check: bool) -> Vec<(Case, Outcome)> {
    let threads = std::thread::available_parallelism().map(|n| n.get()).unwrap_or(4).clamp(1, 14);
    let chunks: Vec<Vec<(usize, Case)>> = {
        let mut c: Vec<Vec<(usize, Case)>> = (0..threads).map(|_| Vec::new()).collect();
        for (i, case) in cases.into_iter().enumerate() {
            c[i % threads].push((i, case));
        }
        c
    };
    let mut results: Vec<(usize, Case, Outcome)> = std::thread::scope(|s| {
        let handles: Vec<_> = chunks
            .into_iter()
            .map(|chunk| {
                s.spawn(move || {
                    let mut ctx = Ctx::new();
                    let mut seen_src: std::collections::HashSet<String> = Default::default();
                    chunk
                        .into_iter()
                        .map(|(i, case)| {
                            let mut o = judge(&mut ctx, &case, false);
                            if cross_check && !o.skipped && seen_src.insert(case.src().to_owned()) {
                                cross_check_lexer(&mut ctx, case.src(), &mut o);
                            }
                            (i, case, o)
                        })
                        .collect::<Vec<_>>()
                })
            })
            .collect();
        handles.into_iter().flat_map(|h| h.join().expect("worker died")).collect()
    });
    results.sort_by_key(|r| r.0);
    results.into_iter().map(|(_, c, o)| (c, o)).collect()
}

/// around a correspondence break: look for an input inside the proved region on which the oracle fails
fn search_oracle_failure(ctx: &mut Ctx, case: &Case) -> Option<(Case, String)> {
    let mut candidates: Vec<Case> = vec![case.clone()];
    match case {
        Case::Append { text, loc, src } => {
            for f in append_files() {
                for l in [Loc::Start, Loc::End] {
                    candidates.push(Case::Append { text: text.clone(), loc: l, src: f.to_owned() });
                }
            }
            for c in ALPHABET {
                candidates.push(Case::Append { text: format!("{}{}", text, c), loc: *loc, src: src.clone() });
                candidates.push(Case::Append { text: format!("{}{}", c, text), loc: *loc, src: src.clone() });
                candidates.push(Case::Append { text: format!("{}{}", text, c), loc: *loc, src: "print(1)\n".into() });
            }
        }
        Case::Remove { src, .. } => {
            candidates.push(Case::Remove { src: src.clone(), rule: Rule::Spaces });
            candidates.push(Case::Remove { src: src.clone(), rule: Rule::Comments { lits: vec![], regexes: vec![] } });
            for l in lit_pool().into_iter().filter(|l| !l.1) {
                candidates.push(Case::Remove { src: src.clone(), rule: Rule::Comments { lits: vec![l], regexes: vec![] } });
            }
        }
    }
    for c in candidates {
        let o = judge(ctx, &c, false);
        if let Some(v) = o.violations.iter().find(|v| v.kind == "oracle") {
            return Some((c, v.what.clone()));
        }
    }
    None
}

/// ddmin over the characters of the source (and of the text), keeping "same check still violated"
fn shrink(ctx: &mut Ctx, case: &Case, check: &str) -> Case {
    let still = |ctx: &mut Ctx, c: &Case| -> bool {
        let mut o = judge(ctx, c, false);
        if check == "lexer_vs_darklua_parser" && !o.skipped {
            cross_check_lexer(ctx, c.src(), &mut o);
        }
        o.violations.iter().any(|v| v.check == check)
    };
    let with_src = |c: &Case, s: String| -> Case {
        match c {
            Case::Append { text, loc, .. } => Case::Append { text: text.clone(), loc: *loc, src: s },
            Case::Remove { rule, .. } => Case::Remove { src: s, rule: rule.clone() },
        }
    };
    let mut cur = case.clone();
    let mut n = 2usize;
    loop {
        let chars: Vec<char> = cur.src().chars().collect();
        if chars.len() < 2 {
            break;
        }
        let chunk = (chars.len() + n - 1) / n;
        let mut reduced = false;
        let mut i = 0;
        while i < chars.len() {
            let cand: String = chars[..i].iter().chain(chars[(i + chunk).min(chars.len())..].iter()).collect();
            let c2 = with_src(&cur, cand);
            if still(ctx, &c2) {
                cur = c2;
                reduced = true;
                break;
            }
            i += chunk;
        }
        if reduced {
            n = n.saturating_sub(1).max(2);
        } else if chunk == 1 {
            break;
        } else {
            n = (n * 2).min(chars.len());
        }
    }
    cur
}

fn fold(report: &mut Report, ctx: &mut Ctx, results: Vec<(Case, Outcome)>) {
    for (case, o) in results {
        for (n, b) in &o.hists {
            report.hist(n, b);
        }
        for (n, c) in &o.counts {
            report.count(n, *c);
        }
        if o.skipped {
            report.count("skipped_sources", 1);
            continue;
        }
        report.case(o.key.clone());
        if report.samples.len() < report.max_samples && o.key.is_some() && report.evaluations % 997 == 1 {
            report.sample(case.to_json());
        }
        for v in o.violations {
            if v.kind == "correspondence" && v.check != "lexer_vs_darklua_parser" {
                if let Some((c2, what)) = search_oracle_failure(ctx, &case) {
                    report.violation(Violation {
                        kind: "oracle".into(),
                        check: format!("{}_via_search", v.check),
                        what: format!("found while searching around a correspondence break ({}): {}", v.what, what),
                        input: c2.to_json(),
                        failing_input_found: true,
                    });
                    continue;
                }
            }
            report.violation(v);
        }
    }
}

fn replay_known_findings(report: &mut Report, ctx: &mut Ctx) {
    for f in known_findings("C18") {
        let id = f["id"].as_str().unwrap_or("?").to_owned();
        let case = match Case::from_json(&f["witness"]) {
            Some(c) => c,
            None => {
                report.notes.push(format!("known finding {} has no replayable witness", id));
                continue;
            }
        };
        let expect = f["witness"]["expect"].as_str().unwrap_or("O1").to_owned();
        let o = judge(ctx, &case, true);
        if o.oracle_fails.iter().any(|x| x == &expect) {
            report.known_finding(&id, f["expected_wrong"].as_str().unwrap_or(""));
        } else {
            report.notes.push(format!("known finding {} no longer reproduces (oracle fails: {:?})", id, o.oracle_fails));
        }
    }
}

fn corpus_cases() -> Vec<Case> {
    let dir = concat!(env!("CARGO_MANIFEST_DIR"), "/../corpus/C18");
    let mut out = Vec::new();
    if let Ok(rd) = std::fs::read_dir(dir) {
        let mut paths: Vec<_> = rd.filter_map(|e| e.ok()).map(|e| e.path()).collect();
        paths.sort();
        for p in paths {
            if p.extension().map(|e| e == "json").unwrap_or(false) {
                if let Ok(text) = std::fs::read_to_string(&p) {
                    if let Ok(v) = serde_json::from_str::<Value>(&text) {
                        match &v {
                            Value::Array(a) => out.extend(a.iter().filter_map(Case::from_json)),
                            _ => out.extend(Case::from_json(&v)),
                        }
                    }
                }
            }
        }
    }
    out
}

pub fn run(report: &mut Report, replay: Option<&str>) {
    let mut ctx = Ctx::new();
    if let Some(path) = replay {
        let text = std::fs::read_to_string(path).expect("cannot read the replay file");
        let v: Value = serde_json::from_str(&text).expect("replay file is not JSON");
        let input = if v.get("input").is_some() { v["input"].clone() } else { v.clone() };
        let cases: Vec<Case> = match &input {
            Value::Array(a) => a.iter().filter_map(Case::from_json).collect(),
            _ => Case::from_json(&input).into_iter().collect(),
        };
        for case in cases {
            let base = run_real(case.src(), NO_RULES);
            let out = run_real(case.src(), &case.config());
            eprintln!("replay {}\n  config   {}\n  baseline {:?}\n  output   {:?}", case.to_json(), case.config(), base, out);
            let mut o = judge(&mut ctx, &case, false);
            if !o.skipped {
                cross_check_lexer(&mut ctx, case.src(), &mut o);
            }
            eprintln!("  oracle fails: {:?}", o.oracle_fails);
            if std::env::var("C18_SHRINK").is_ok() {
                if let Some(v) = o.violations.first() {
                    let small = shrink(&mut ctx, &case, &v.check.clone());
                    eprintln!("  shrunk ({}): {}", v.check, small.to_json());
                }
            }
            fold(report, &mut ctx, vec![(case, o)]);
        }
        return;
    }
    let thorough = report.is_thorough();
    let mut rng = Rng::new(report.seed);
    report.rule = "append: every text over {[ ] = - a LF CR SP} up to length 4 (+ the property's list) x {start,end} x {empty file, print(1)LF}; \
                   up to length 3 (thorough: 4) on 19 files (ending with a line comment / without newline / comment-only …). \
                   remove: generated Luau programs (31 statement templates, comment in every gap or random gaps, LF and CRLF) x \
                   {remove_spaces, remove_comments, except literal sets, except regex sets}. \
                   Non-trivial = append with a non-empty text, or a remove case whose source has at least one comment; keys are (config, source)."
        .to_owned();

    // 0. corpus and known findings first
    let corpus = corpus_cases();
    report.count("corpus_cases", corpus.len() as u64);
    let r = run_parallel(corpus, true);
    fold(report, &mut ctx, r);
    replay_known_findings(report, &mut ctx);

    // 0b. every token carrier of the AST
    let cases = carrier_sweep(report, &mut ctx);
    let r = run_parallel(cases, true);
    fold(report, &mut ctx, r);

    // 0c. the adjacency guards of the generator
    let cases = guard_cases(report, &mut ctx);
    let r = run_parallel(cases, true);
    fold(report, &mut ctx, r);

    // 1. append_text_comment: exhaustive family
    let mut cases = Vec::new();
    let full = all_texts(4);
    let mut texts_all_files: Vec<String> = if thorough { full.clone() } else { all_texts(3) };
    texts_all_files.extend(special_texts());
    texts_all_files.extend(overlapping_closer_texts());
    // the bracket family, exhaustive, on an empty and a non-empty file
    let brackets = bracket_texts();
    report.count("bracket_family_texts", brackets.len() as u64);
    for t in &brackets {
        if t.chars().count() <= 4 && t.chars().all(|c| ALPHABET.contains(&c)) {
            continue; // already in the exhaustive block below
        }
        for loc in [Loc::Start, Loc::End] {
            for f in ["", "print(1)\n"] {
                cases.push(Case::Append { text: t.clone(), loc, src: f.to_owned() });
            }
        }
    }
    report.exhaustive.insert("append texts up to length 6 over {] = [ LF}, up to length 5 over {] = CR}, up to length 7 over {] = [} starting with a long bracket x {start,end} x {empty, non-empty file}".into(), true);
    for t in &full {
        for loc in [Loc::Start, Loc::End] {
            for f in ["", "print(1)\n"] {
                cases.push(Case::Append { text: t.clone(), loc, src: f.to_owned() });
            }
        }
    }
    for t in &texts_all_files {
        for loc in [Loc::Start, Loc::End] {
            for f in append_files() {
                if (f.is_empty() || f == "print(1)\n") && t.chars().count() <= 4 && t.chars().all(|c| ALPHABET.contains(&c)) {
                    continue; // already in the exhaustive block
                }
                cases.push(Case::Append { text: t.clone(), loc, src: f.to_owned() });
            }
        }
    }
    // random longer texts over the alphabet and over a wider one, on generated sources
    let n_random = if thorough { 60000 } else { 600 };
    for _ in 0..n_random {
        let len = 5 + rng.below(12);
        let wide = rng.chance(1, 3);
        let t: String = (0..len)
            .map(|_| if wide { *rng.pick(&['[', ']', '=', '-', 'a', '\n', ' ', 'é', '"', '\\', '{']) } else { *rng.pick(&ALPHABET) })
            .collect();
        let src = if rng.chance(1, 2) { append_files()[rng.below(append_files().len())].to_owned() } else { gen_source(&mut rng, false, "\n", None) };
        let loc = if rng.chance(1, 2) { Loc::Start } else { Loc::End };
        cases.push(Case::Append { text: t, loc, src });
    }
    report.exhaustive.insert("append texts up to length 4 over the 8-letter alphabet x {start,end} x {empty, non-empty file}".into(), true);
    report.count("append_cases", cases.len() as u64);
    let r = run_parallel(cases, false);
    fold(report, &mut ctx, r);

    // 2. remove_comments / remove_spaces
    let mut cases = Vec::new();
    // every template, a comment in every gap, every basic rule
    for i in 0..(TEMPLATES.len() + LAST_TEMPLATES.len()) {
        for nl in ["\n", "\r\n"] {
            let src = gen_source(&mut rng, true, nl, Some(i));
            cases.push(Case::Remove { src: src.clone(), rule: Rule::Spaces });
            cases.push(Case::Remove { src: src.clone(), rule: Rule::Comments { lits: vec![], regexes: vec![] } });
            cases.push(Case::Remove { src: src.clone(), rule: Rule::Comments { lits: vec![(false, false, "--".into())], regexes: vec![] } });
            cases.push(Case::Remove { src: src.clone(), rule: Rule::Comments { lits: vec![(true, false, "--[".into())], regexes: vec![] } });
            cases.push(Case::Remove { src, rule: Rule::Comments { lits: vec![], regexes: vec!["^--[^\\[]".into()] } });
        }
    }
    let n_sources = if thorough { 60000 } else { 900 };
    for k in 0..n_sources {
        let crlf = k % 5 == 4;
        let nl = if crlf { "\r\n" } else { "\n" };
        let src = gen_source(&mut rng, k % 3 == 0, nl, None);
        let n_rules = 3;
        for _ in 0..n_rules {
            cases.push(Case::Remove { src: src.clone(), rule: gen_rule(&mut rng, crlf) });
        }
    }
    report.count("remove_cases", cases.len() as u64);
    let r = run_parallel(cases, true);
    fold(report, &mut ctx, r);
    debug_assert!(!has_lone_cr("a\r\nb"));
}
