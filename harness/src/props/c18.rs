//! Property C18: correspondence and oracle (probe stage).
use crate::report::Report;
use darklua_core::{Configuration, Options, Resources};

pub fn run_real(src: &str, config: &str) -> Result<String, String> {
    let src = src.to_owned();
    let config = config.to_owned();
    let r = std::panic::catch_unwind(move || -> Result<String, String> {
        let resources = Resources::from_memory();
        resources.write("src/f.lua", &src).map_err(|e| format!("{:?}", e))?;
        let configuration: Configuration =
            json5::from_str(&config).map_err(|e| format!("config: {}", e))?;
        let options = Options::new("src/f.lua")
            .with_output("out/f.lua")
            .with_configuration(configuration);
        let tree = darklua_core::process(&resources, options).map_err(|e| format!("process: {}", e))?;
        tree.result().map_err(|errs| {
            errs.into_iter().map(|e| e.to_string()).collect::<Vec<_>>().join("; ")
        })?;
        resources.get("out/f.lua").map_err(|e| format!("{:?}", e))
    });
    match r {
        Ok(x) => x,
        Err(_) => Err("panic".to_owned()),
    }
}

pub fn run(report: &mut Report, replay: Option<&str>) {
    if let Some(path) = replay {
        let text = std::fs::read_to_string(path).unwrap();
        let v: serde_json::Value = serde_json::from_str(&text).unwrap();
        for case in v.as_array().unwrap() {
            let src = case["src"].as_str().unwrap();
            let config = case["config"].as_str().unwrap();
            eprintln!("--- src={:?} config={}\n=> {:?}", src, config, run_real(src, config));
        }
        return;
    }
    report.notes.push("C18: no harness yet".to_owned());
}
