//! Property C19: configurations are read strictly and round-trip without loss.
//!
//! Every case is a JSON tree `J`. It is rendered to text for the real `json5::from_str::<Configuration>`
//! and sent as an S-expression to the Lean model (`C19.deserializeConfig` / `serializeConfig`, the defs the
//! theorems are about).
//!  * correspondence: accept/reject (and, for single faults, the error class) and the exact text of
//!    `serde_json::to_string(&config)` vs the model's.
//!  * oracle "strict": every single-field corruption built here (misspelt key, unknown key, wrong type,
//!    duplicate key, extra property, unknown rule) must be rejected by the real code.
//!  * oracle "round trip": the re-read of the serialised text must be accepted and must transform a probe
//!    project exactly like the original; configurations that serialise to the same text must transform
//!    the probe identically. Failures outside the proved region H19 (`C19.lossless`, asked from the model)
//!    are the recorded defects (known_findings.json); inside H19 they are violations.
use crate::model::{hex, unhex, Model};
use crate::report::{known_findings, Report, Violation};
use crate::rng::Rng;
use darklua_core::verif_hooks::filter_pattern_matches;
use darklua_core::{process, Configuration, Options, Resources, WorkerTree};
use serde_json::{json, Value};
use std::collections::BTreeMap;
use std::path::Path;

#[derive(Clone, Debug, PartialEq)]
pub enum J {
    Null,
    Bool(bool),
    Num(i64),
    /// a number token printed verbatim (non-integers)
    Raw(String),
    Str(String),
    Arr(Vec<J>),
    Obj(Vec<(String, J)>),
}

fn json_string(s: &str) -> String {
    serde_json::to_string(s).unwrap()
}

impl J {
    fn text(&self) -> String {
        match self {
            J::Null => "null".into(),
            J::Bool(b) => b.to_string(),
            J::Num(i) => i.to_string(),
            J::Raw(t) => t.clone(),
            J::Str(s) => json_string(s),
            J::Arr(xs) => format!("[{}]", xs.iter().map(|x| x.text()).collect::<Vec<_>>().join(",")),
            J::Obj(kvs) => format!(
                "{{{}}}",
                kvs.iter().map(|(k, v)| format!("{}:{}", json_string(k), v.text())).collect::<Vec<_>>().join(",")
            ),
        }
    }
    fn sexp(&self) -> String {
        match self {
            J::Null => "z".into(),
            J::Bool(true) => "t".into(),
            J::Bool(false) => "f".into(),
            J::Num(i) => format!("(n {})", i),
            J::Raw(t) => format!("(r {})", hex(t.as_bytes())),
            J::Str(s) => format!("(s {})", hex(s.as_bytes())),
            J::Arr(xs) => format!("(a{})", xs.iter().map(|x| format!(" {}", x.sexp())).collect::<String>()),
            J::Obj(kvs) => format!(
                "(o{})",
                kvs.iter().map(|(k, v)| format!(" ({} {})", hex(k.as_bytes()), v.sexp())).collect::<String>()
            ),
        }
    }
    fn from_value(v: &Value) -> J {
        match v {
            Value::Null => J::Null,
            Value::Bool(b) => J::Bool(*b),
            Value::Number(n) => match n.as_i64() {
                Some(i) => J::Num(i),
                None => J::Raw(n.to_string()),
            },
            Value::String(s) => J::Str(s.clone()),
            Value::Array(xs) => J::Arr(xs.iter().map(J::from_value).collect()),
            // serde_json::Map is sorted; only used for hand-written literals where order is irrelevant
            Value::Object(m) => J::Obj(m.iter().map(|(k, v)| (k.clone(), J::from_value(v))).collect()),
        }
    }
    fn strings(&self, out: &mut Vec<String>) {
        match self {
            J::Str(s) => out.push(s.clone()),
            J::Arr(xs) => xs.iter().for_each(|x| x.strings(out)),
            J::Obj(kvs) => kvs.iter().for_each(|(_, v)| v.strings(out)),
            _ => {}
        }
    }
}

/// inverse of `J::sexp` (used by --replay: key order and duplicate keys are preserved)
fn j_of_sexp(text: &str) -> Option<J> {
    fn tokens(text: &str) -> Vec<String> {
        let mut out = Vec::new();
        let mut cur = String::new();
        for c in text.chars() {
            match c {
                '(' | ')' => {
                    if !cur.is_empty() {
                        out.push(std::mem::take(&mut cur));
                    }
                    out.push(c.to_string());
                }
                ' ' => {
                    if !cur.is_empty() {
                        out.push(std::mem::take(&mut cur));
                    }
                }
                c => cur.push(c),
            }
        }
        if !cur.is_empty() {
            out.push(cur);
        }
        out
    }
    fn hex_str(t: &str) -> Option<String> {
        String::from_utf8(unhex(t)?).ok()
    }
    fn parse(toks: &[String], pos: &mut usize) -> Option<J> {
        let t = toks.get(*pos)?;
        *pos += 1;
        match t.as_str() {
            "z" => Some(J::Null),
            "t" => Some(J::Bool(true)),
            "f" => Some(J::Bool(false)),
            "(" => {
                let head = toks.get(*pos)?.clone();
                *pos += 1;
                let result = match head.as_str() {
                    "n" => {
                        let v = toks.get(*pos)?.parse::<i64>().ok()?;
                        *pos += 1;
                        J::Num(v)
                    }
                    "r" => {
                        let v = hex_str(toks.get(*pos)?)?;
                        *pos += 1;
                        J::Raw(v)
                    }
                    "s" => {
                        let v = hex_str(toks.get(*pos)?)?;
                        *pos += 1;
                        J::Str(v)
                    }
                    "a" => {
                        let mut xs = Vec::new();
                        while toks.get(*pos)? != ")" {
                            xs.push(parse(toks, pos)?);
                        }
                        J::Arr(xs)
                    }
                    "o" => {
                        let mut kvs = Vec::new();
                        while toks.get(*pos)? != ")" {
                            if toks.get(*pos)? != "(" {
                                return None;
                            }
                            *pos += 1;
                            let k = hex_str(toks.get(*pos)?)?;
                            *pos += 1;
                            let v = parse(toks, pos)?;
                            if toks.get(*pos)? != ")" {
                                return None;
                            }
                            *pos += 1;
                            kvs.push((k, v));
                        }
                        J::Obj(kvs)
                    }
                    _ => return None,
                };
                if toks.get(*pos)? != ")" {
                    return None;
                }
                *pos += 1;
                Some(result)
            }
            _ => None,
        }
    }
    let toks = tokens(text);
    let mut pos = 0;
    let j = parse(&toks, &mut pos)?;
    if pos == toks.len() {
        Some(j)
    } else {
        None
    }
}

fn s(x: &str) -> J {
    J::Str(x.to_owned())
}
fn arr_s(xs: &[&str]) -> J {
    J::Arr(xs.iter().map(|x| s(x)).collect())
}
fn obj(kvs: Vec<(&str, J)>) -> J {
    J::Obj(kvs.into_iter().map(|(k, v)| (k.to_owned(), v)).collect())
}

const BAD_REGEXES: &[&str] = &["(", "[a", "*a", "a{2,1}"];

// ---------------------------------------------------------------------------------------------
// real side
// ---------------------------------------------------------------------------------------------

fn real_de(text: &str) -> Result<Configuration, String> {
    let text = text.to_owned();
    match std::panic::catch_unwind(move || json5::from_str::<Configuration>(&text).map_err(|e| e.to_string())) {
        Ok(r) => r,
        Err(_) => Err("panic".into()),
    }
}

fn real_ser(cfg: &Configuration) -> Result<String, String> {
    match std::panic::catch_unwind(std::panic::AssertUnwindSafe(|| serde_json::to_string(cfg).map_err(|e| e.to_string()))) {
        Ok(r) => r,
        Err(_) => Err("panic".into()),
    }
}

const PROBE_LUA: &str = "--!keep this\n-- plain comment\nlocal function sideEffect() return true end\nassert(sideEffect(), 'm')\ndebug.profilebegin(sideEffect())\nlocal name = 'n'\nlocal s = `a{name}b`\nfoo = 1\nzed = foo\na = 1\nb = a\nlocal function named() return name end\nlocal m = require('./lib')\ndo end\nlocal unused = nil\nreturn _G.VALUE, VALUE, s, m, named, zed, b, name .. name .. name .. name .. name .. name .. name .. name .. name .. name .. name .. name .. name .. name\n";
const PROBE_ATTR: &str = "@native\nlocal function nat() return 1 end\n@checked\nlocal function chk() return 2 end\nreturn nat, chk\n";
const PROBE_LIB: &str = "local lib = {}\nlib.x = 1 + 1\nreturn lib\n";

const PROBE_ALIAS_USER: &str = "local dep = require('@pkg/dep')\nreturn dep\n";
const PROBE_FOLDER_USER: &str = "local f = require('./folder')\nreturn f\n";
const PROBE_SOURCE_USER: &str = "local thing = require('@own/thing')\nreturn thing\n";

/// The probe project. Which serialised setting is observable through which file (also in meta/C19.json):
/// * `src/a.lua`, `src/b.lua`  every rule parameter (comments `--!keep`, assert / profiling calls with side
///   effects, interpolated string, globals `a b foo zed`, named function, `_G.VALUE`, long concatenation for
///   `column_span`, `require('./lib')` for bundle / convert_require); two copies so that filters
///   (`**/a.lua`, `**/b.lua`) discriminate; `src/attr.luau` for `remove_attribute.match`
/// * `src/alias.lua`           `use_luau_configuration` of the path and luau require modes: `@pkg` is an alias
///   of the `.luaurc` at the project root, resolvable only when the flag is on
/// * `src/folder_user.lua`     `module_folder_name`: `src/folder/init.lua` and `src/folder/index.lua` differ;
///   path vs luau require mode: `./sibling` inside `folder/init.lua` is `folder/sibling.lua` (path) or
///   `src/sibling.lua` (luau)
/// * `src/source_user.lua`     `sources` / `aliases` of a require mode (`@own` -> `./vendor`)
/// * every bundled output      `modules_identifier`, `excludes` (`./lib` stays a require)
/// * `note.txt`                `append_text_comment.file`
fn probe_resources() -> Resources {
    let r = Resources::from_memory();
    r.write("src/a.lua", PROBE_LUA).unwrap();
    r.write("src/b.lua", PROBE_LUA).unwrap();
    r.write("src/attr.luau", PROBE_ATTR).unwrap();
    r.write("src/lib.lua", PROBE_LIB).unwrap();
    r.write("src/alias.lua", PROBE_ALIAS_USER).unwrap();
    r.write("src/folder_user.lua", PROBE_FOLDER_USER).unwrap();
    r.write("src/source_user.lua", PROBE_SOURCE_USER).unwrap();
    r.write("src/folder/init.lua", "return require('./sibling')\n").unwrap();
    r.write("src/folder/sibling.lua", "return 'inner sibling'\n").unwrap();
    r.write("src/sibling.lua", "return 'outer sibling'\n").unwrap();
    r.write("src/folder/index.lua", "return 'from index'\n").unwrap();
    r.write(".luaurc", "{ \"aliases\": { \"pkg\": \"./packages\" } }").unwrap();
    r.write("packages/dep.lua", "return 'dependency'\n").unwrap();
    r.write("vendor/thing.lua", "return 'vendored'\n").unwrap();
    r.write("note.txt", "from file").unwrap();
    r
}

const PROBE_OUTPUTS: &[&str] = &[
    "out/a.lua",
    "out/b.lua",
    "out/attr.luau",
    "out/lib.lua",
    "out/alias.lua",
    "out/folder_user.lua",
    "out/source_user.lua",
    "out/folder/init.lua",
    "out/folder/index.lua",
    "out/folder/sibling.lua",
    "out/sibling.lua",
];

/// what a configuration does to the probe project: every output file, or the error texts
fn behaviour(cfg: Configuration) -> String {
    let result = std::panic::catch_unwind(std::panic::AssertUnwindSafe(move || {
        let resources = probe_resources();
        let options = Options::new("src").with_output("out").with_configuration(cfg);
        let mut text = String::new();
        match process(&resources, options) {
            Err(e) => text.push_str(&format!("process-error: {}\n", e)),
            Ok(tree) => {
                let mut errors: Vec<String> = tree.collect_errors().iter().map(|e| e.to_string()).collect();
                errors.sort();
                for e in errors {
                    text.push_str(&format!("error: {}\n", e));
                }
            }
        }
        for o in PROBE_OUTPUTS {
            match resources.get(o) {
                Ok(c) => text.push_str(&format!("== {}\n{}\n", o, c)),
                Err(_) => text.push_str(&format!("== {} (absent)\n", o)),
            }
        }
        text
    }));
    result.unwrap_or_else(|_| "panic".to_owned())
}

// ---------------------------------------------------------------------------------------------
// model side
// ---------------------------------------------------------------------------------------------

#[derive(Debug, Clone, PartialEq)]
enum ModelAnswer {
    Err(String),
    Ok { text: String, roundtrip: String, in_h: bool, wf: bool },
    Bad(String),
}

fn model_request(j: &J) -> String {
    let mut strings = Vec::new();
    j.strings(&mut strings);
    strings.sort();
    strings.dedup();
    let bad_globs: Vec<String> = strings
        .iter()
        .filter(|p| {
            let p = (*p).clone();
            !matches!(std::panic::catch_unwind(move || filter_pattern_matches(&p, Path::new("a"))), Ok(Ok(_)))
        })
        .map(|p| hex(p.as_bytes()))
        .collect();
    let bad_regex: Vec<String> =
        strings.iter().filter(|p| BAD_REGEXES.contains(&p.as_str())).map(|p| hex(p.as_bytes())).collect();
    format!(
        "c19.cfg (req {} (bg{}) (br{}))",
        j.sexp(),
        bad_globs.iter().map(|x| format!(" {}", x)).collect::<String>(),
        bad_regex.iter().map(|x| format!(" {}", x)).collect::<String>()
    )
}

fn parse_model(answer: &str) -> ModelAnswer {
    let parts: Vec<&str> = answer.split(' ').collect();
    match parts.as_slice() {
        ["err", class] => ModelAnswer::Err((*class).to_owned()),
        ["ok", text, rt, h, wf] => match unhex(text).and_then(|b| String::from_utf8(b).ok()) {
            Some(t) => ModelAnswer::Ok { text: t, roundtrip: (*rt).to_owned(), in_h: *h == "in", wf: *wf == "wf" },
            None => ModelAnswer::Bad(answer.to_owned()),
        },
        _ => ModelAnswer::Bad(answer.to_owned()),
    }
}

/// does the real error message belong to the model's error class?
fn class_matches(class: &str, message: &str) -> bool {
    let m = message;
    match class {
        "unknown-field" => m.contains("unknown field"),
        "duplicate-field" => m.contains("duplicate field"),
        "missing-field" | "missing-field-rule" => m.contains("missing field"),
        "invalid-rule-name" => m.contains("invalid rule name"),
        // a rule's `configure`: one corruption can trip several of its checks (a misspelt required key is
        // both unexpected and missing); which one reports first is not part of the property
        "unexpected-field" | "kind-expected" | "required-or-collision" => {
            m.contains("unexpected field")
                || m.contains("expected for field")
                || m.contains("unexpected value for field")
                || m.contains("unexpected type for field")
                || m.contains("missing required field")
                || m.contains("missing one field")
                || m.contains("cannot be defined together")
        }
        "one-or-many" => m.contains("OneOrMany"),
        "expected-string" => m.contains("expected string"),
        "invalid-generator-name" => m.contains("invalid generator name"),
        "invalid-require-mode" => m.contains("invalid require mode"),
        "unknown-variant" => m.contains("unknown variant"),
        "invalid-type" | "invalid-type-rule" => {
            m.contains("invalid type") || m.contains("invalid value") || m.contains("expected ")
        }
        _ => false,
    }
}

// ---------------------------------------------------------------------------------------------
// generators
// ---------------------------------------------------------------------------------------------

/// valid property sets of the parameterised rules (object form, without filters)
fn rule_variants(name: &str) -> Vec<Vec<(&'static str, J)>> {
    match name {
        "append_text_comment" => vec![
            vec![("text", s("hi"))],
            vec![("text", s(""))],
            vec![("file", s("note.txt"))],
            vec![("text", s("hi")), ("location", s("start"))],
            vec![("text", s("hi \"q\" \\ there")), ("location", s("end"))],
            vec![("file", s("note.txt")), ("location", s("end"))],
        ],
        "remove_assertions" | "remove_debug_profiling" => vec![
            vec![],
            vec![("preserve_arguments_side_effects", J::Bool(true))],
            vec![("preserve_arguments_side_effects", J::Bool(false))],
        ],
        "remove_comments" => vec![
            vec![],
            vec![("except", arr_s(&[]))],
            vec![("except", arr_s(&["^--!"]))],
            vec![("except", arr_s(&["plain", "^--!keep"]))],
        ],
        "remove_attribute" => vec![
            vec![],
            vec![("match", arr_s(&[]))],
            vec![("match", arr_s(&["native"]))],
            vec![("match", arr_s(&["^c", "zzz"]))],
        ],
        "remove_interpolated_string" => {
            vec![vec![], vec![("strategy", s("string"))], vec![("strategy", s("tostring"))]]
        }
        "convert_require" => vec![
            vec![("current", s("path")), ("target", s("roblox"))],
            vec![("current", s("path")), ("target", s("path"))],
            vec![("current", s("luau")), ("target", s("path"))],
            vec![("target", s("luau")), ("current", s("path"))],
        ],
        "rename_variables" => vec![
            vec![],
            vec![("globals", arr_s(&[]))],
            vec![("globals", arr_s(&["$default"]))],
            vec![("globals", arr_s(&["$roblox"]))],
            vec![("globals", arr_s(&["b", "a", "b"]))],
            vec![("globals", arr_s(&["b", "a", "zed"])), ("detect_globals", J::Bool(false))],
            vec![("include_functions", J::Bool(true))],
            vec![("include_functions", J::Bool(false))],
            vec![("detect_globals", J::Bool(false))],
            vec![("detect_globals", J::Bool(true))],
            vec![("globals", arr_s(&["a", "$roblox"])), ("include_functions", J::Bool(true)), ("detect_globals", J::Bool(false))],
        ],
        "inject_global_value" => {
            let id = ("identifier", s("VALUE"));
            let mut v = vec![vec![id.clone()]];
            for value in [
                J::Bool(true),
                J::Bool(false),
                J::Num(1),
                J::Num(0),
                J::Num(-2),
                J::Raw("1.5".into()),
                J::Raw("-0.25".into()),
                s("x"),
                s(""),
                J::Null,
                arr_s(&["a", "b"]),
                arr_s(&[]),
            ] {
                v.push(vec![id.clone(), ("value", value.clone())]);
                v.push(vec![("default_value", value), id.clone(), ("env", s("DLV_C19_UNSET_VARIABLE"))]);
            }
            v.push(vec![id.clone(), ("env", s("DLV_C19_SET_VARIABLE"))]);
            v.push(vec![id.clone(), ("env_json", s("DLV_C19_SET_VARIABLE"))]);
            v.push(vec![id.clone(), ("env", s("DLV_C19_UNSET_VARIABLE"))]);
            v.push(vec![id.clone(), ("env_json", s("DLV_C19_UNSET_VARIABLE"))]);
            v.push(vec![id.clone(), ("default_value", s("d"))]);
            v.push(vec![("identifier", s("other"))]);
            v
        }
        _ => vec![vec![]],
    }
}

/// filter forms: (apply, skip); patterns discriminate the probe tree
fn filter_forms() -> Vec<(Option<J>, Option<J>)> {
    let applies = [None, Some(s("src/a.lua")), Some(arr_s(&["**/a.lua"])), Some(arr_s(&["**/a.lua", "**/attr.*"])), Some(arr_s(&[]))];
    let skips = [None, Some(s("**/b.lua")), Some(arr_s(&["src/b.lua"])), Some(arr_s(&["nomatch/**", "src/b.*"])), Some(arr_s(&[]))];
    let mut out = Vec::new();
    for a in &applies {
        for k in &skips {
            out.push((a.clone(), k.clone()));
        }
    }
    out
}

fn rule_object(name: &str, props: &[(&'static str, J)], filters: &(Option<J>, Option<J>), filters_first: bool) -> J {
    let mut kvs: Vec<(String, J)> = Vec::new();
    let mut filter_kvs = Vec::new();
    if let Some(a) = &filters.0 {
        filter_kvs.push(("apply_to_files".to_owned(), a.clone()));
    }
    if let Some(k) = &filters.1 {
        filter_kvs.push(("skip_files".to_owned(), k.clone()));
    }
    if filters_first {
        kvs.extend(filter_kvs.clone());
    }
    kvs.push(("rule".to_owned(), s(name)));
    for (k, v) in props {
        kvs.push(((*k).to_owned(), v.clone()));
    }
    if !filters_first {
        kvs.extend(filter_kvs);
    }
    J::Obj(kvs)
}

fn config_with_rules(rules: Vec<J>) -> J {
    J::Obj(vec![("rules".to_owned(), J::Arr(rules))])
}

fn generator_forms() -> Vec<J> {
    let mut v = vec![s("retain_lines"), s("retain-lines"), s("dense"), s("readable")];
    for name in ["retain_lines", "retain-lines", "dense", "readable"] {
        v.push(obj(vec![("name", s(name))]));
    }
    for name in ["dense", "readable"] {
        for span in [0, 1, 20, 80, 120] {
            v.push(obj(vec![("name", s(name)), ("column_span", J::Num(span))]));
            v.push(obj(vec![("column_span", J::Num(span)), ("name", s(name))]));
        }
    }
    v
}

fn bundle_forms() -> Vec<J> {
    let mut modes = vec![s("path"), s("luau"), obj(vec![("name", s("path"))]), obj(vec![("name", s("luau"))])];
    for folder in ["init", "index"] {
        modes.push(obj(vec![("name", s("path")), ("module_folder_name", s(folder))]));
        for b in [true, false] {
            modes.push(obj(vec![("module_folder_name", s(folder)), ("use_luau_configuration", J::Bool(b)), ("name", s("path"))]));
        }
    }
    for b in [true, false] {
        modes.push(obj(vec![("name", s("luau")), ("use_luau_configuration", J::Bool(b))]));
    }
    // `sources` / `aliases`: not described by the Lean model (answered `unmodelled`), judged by the oracles only
    modes.push(obj(vec![("name", s("path")), ("sources", obj(vec![("@own", s("./vendor"))]))]));
    modes.push(obj(vec![("name", s("path")), ("sources", obj(vec![("@own", s("./vendor"))])), ("use_luau_configuration", J::Bool(false)), ("module_folder_name", s("index"))]));
    modes.push(obj(vec![("name", s("luau")), ("aliases", obj(vec![("@own", s("../vendor"))]))]));
    modes.push(obj(vec![("name", s("luau")), ("sources", obj(vec![("@own", s("../vendor"))])), ("use_luau_configuration", J::Bool(false))]));
    let mut v = vec![J::Null];
    for m in &modes {
        v.push(obj(vec![("require_mode", m.clone())]));
    }
    for m in modes.iter().take(3) {
        for ident in [None, Some(J::Null), Some(s("__M"))] {
            for excludes in [None, Some(arr_s(&[])), Some(arr_s(&["./lib"])), Some(arr_s(&["@x", "@x"]))] {
                let mut kvs = vec![("require_mode", m.clone())];
                if let Some(i) = &ident {
                    kvs.push(("modules_identifier", i.clone()));
                }
                if let Some(e) = &excludes {
                    kvs.push(("excludes", e.clone()));
                }
                v.push(obj(kvs));
            }
        }
    }
    v
}

#[derive(Clone)]
struct Case {
    j: J,
    /// how the case was built; corruptions carry the kind of fault
    origin: String,
    /// Some(kind) when this is a single-field corruption that the property says must be rejected
    must_reject: Option<String>,
}

fn valid_cases(rule_names: &[String], _thorough: bool) -> Vec<Case> {
    let mut cases = Vec::new();
    let filters = filter_forms();
    for name in rule_names {
        cases.push(Case { j: config_with_rules(vec![s(name)]), origin: format!("rule-string:{}", name), must_reject: None });
        for (vi, props) in rule_variants(name).iter().enumerate() {
            for (fi, f) in filters.iter().enumerate() {
                cases.push(Case {
                    j: config_with_rules(vec![rule_object(name, props, f, fi % 2 == 1)]),
                    origin: format!("rule-object:{}:variant{}:filter{}", name, vi, fi),
                    must_reject: None,
                });
            }
        }
    }
    // generator forms and bundle settings, alone and combined with rules and top-level filters
    let some_rules = J::Arr(vec![s("remove_empty_do"), rule_object("remove_comments", &[], &(Some(s("src/a.lua")), None), false)]);
    for g in generator_forms() {
        cases.push(Case { j: obj(vec![("generator", g.clone())]), origin: "generator".into(), must_reject: None });
        cases.push(Case {
            j: obj(vec![("generator", g), ("rules", some_rules.clone())]),
            origin: "generator+rules".into(),
            must_reject: None,
        });
    }
    for b in bundle_forms() {
        cases.push(Case { j: obj(vec![("bundle", b.clone()), ("rules", J::Arr(vec![]))]), origin: "bundle".into(), must_reject: None });
        cases.push(Case {
            j: obj(vec![("rules", some_rules.clone()), ("bundle", b), ("generator", s("dense"))]),
            origin: "bundle+rules".into(),
            must_reject: None,
        });
    }
    for (a, k) in filter_forms() {
        let mut kvs = vec![("process", some_rules.clone())];
        if let Some(a) = a {
            kvs.push(("apply_to_files", a));
        }
        if let Some(k) = k {
            kvs.push(("skip_files", k));
        }
        cases.push(Case { j: obj(kvs), origin: "top-filters".into(), must_reject: None });
    }
    // the empty rule list is not the default (the default is the 13 default rules): it must survive, under
    // both key names, with every generator form and top-level filter form
    for key in ["rules", "process"] {
        cases.push(Case { j: obj(vec![(key, J::Arr(vec![]))]), origin: "empty-rules".into(), must_reject: None });
        for g in generator_forms() {
            cases.push(Case {
                j: obj(vec![(key, J::Arr(vec![])), ("generator", g.clone())]),
                origin: "empty-rules+generator".into(),
                must_reject: None,
            });
            cases.push(Case {
                j: obj(vec![("generator", g), (key, J::Arr(vec![]))]),
                origin: "empty-rules+generator".into(),
                must_reject: None,
            });
        }
        for (a, k) in filter_forms() {
            let mut kvs = vec![(key, J::Arr(vec![]))];
            if let Some(a) = a {
                kvs.push(("apply_to_files", a));
            }
            if let Some(k) = k {
                kvs.push(("skip_files", k));
            }
            cases.push(Case { j: obj(kvs), origin: "empty-rules+top-filters".into(), must_reject: None });
        }
    }
    // every field whose default is not the empty / zero value, given that empty / zero value explicitly
    // (a `skip_serializing_if = is_empty / is_zero / not` on such a field loses it)
    let zero_cases: Vec<(&str, J)> = vec![
        ("rules: []", obj(vec![("rules", J::Arr(vec![]))])),
        ("column_span: 0 (dense)", obj(vec![("rules", J::Arr(vec![])), ("generator", obj(vec![("name", s("dense")), ("column_span", J::Num(0))]))])),
        ("column_span: 0 (readable)", obj(vec![("rules", J::Arr(vec![])), ("generator", obj(vec![("name", s("readable")), ("column_span", J::Num(0))]))])),
        ("module_folder_name: ''", obj(vec![("rules", J::Arr(vec![])), ("bundle", obj(vec![("require_mode", obj(vec![("name", s("path")), ("module_folder_name", s(""))]))]))])),
        ("use_luau_configuration: false (path)", obj(vec![("rules", J::Arr(vec![])), ("bundle", obj(vec![("require_mode", obj(vec![("name", s("path")), ("use_luau_configuration", J::Bool(false))]))]))])),
        ("use_luau_configuration: false (luau)", obj(vec![("rules", J::Arr(vec![])), ("bundle", obj(vec![("require_mode", obj(vec![("name", s("luau")), ("use_luau_configuration", J::Bool(false))]))]))])),
        ("modules_identifier: ''", obj(vec![("rules", J::Arr(vec![])), ("bundle", obj(vec![("require_mode", s("path")), ("modules_identifier", s(""))]))])),
        ("preserve_arguments_side_effects: false (assertions)", config_with_rules(vec![obj(vec![("rule", s("remove_assertions")), ("preserve_arguments_side_effects", J::Bool(false))])])),
        ("preserve_arguments_side_effects: false (profiling)", config_with_rules(vec![obj(vec![("rule", s("remove_debug_profiling")), ("preserve_arguments_side_effects", J::Bool(false))])])),
        ("detect_globals: false", config_with_rules(vec![obj(vec![("rule", s("rename_variables")), ("detect_globals", J::Bool(false))])])),
        ("globals: [] (default is $default)", config_with_rules(vec![obj(vec![("rule", s("rename_variables")), ("globals", J::Arr(vec![]))])])),
        ("text: ''", config_with_rules(vec![obj(vec![("rule", s("append_text_comment")), ("text", s(""))])])),
        ("identifier: ''", config_with_rules(vec![obj(vec![("rule", s("inject_global_value")), ("identifier", s(""))])])),
        ("value: 0 / false / '' / null / []", config_with_rules(vec![
            obj(vec![("rule", s("inject_global_value")), ("identifier", s("VALUE")), ("value", J::Num(0))]),
            obj(vec![("rule", s("inject_global_value")), ("identifier", s("A")), ("value", J::Bool(false))]),
            obj(vec![("rule", s("inject_global_value")), ("identifier", s("B")), ("value", s(""))]),
            obj(vec![("rule", s("inject_global_value")), ("identifier", s("C")), ("value", J::Null)]),
            obj(vec![("rule", s("inject_global_value")), ("identifier", s("D")), ("value", J::Arr(vec![]))]),
        ])),
    ];
    for (what, j) in zero_cases {
        cases.push(Case { j, origin: format!("zero-value {}", what), must_reject: None });
    }
    cases.push(Case { j: obj(vec![]), origin: "empty".into(), must_reject: None });
    cases
}

fn random_valid_case(rng: &mut Rng, rule_names: &[String]) -> Case {
    let filters = filter_forms();
    let n = 1 + rng.below(4);
    let mut rules = Vec::new();
    for _ in 0..n {
        let name = rng.pick(rule_names).clone();
        let variants = rule_variants(&name);
        let props = rng.pick(&variants).clone();
        if props.is_empty() && rng.chance(1, 3) && !matches!(name.as_str(), "append_text_comment" | "convert_require" | "inject_global_value") {
            rules.push(s(&name));
        } else {
            let f = if rng.chance(1, 2) { (None, None) } else { rng.pick(&filters).clone() };
            rules.push(rule_object(&name, &props, &f, rng.chance(1, 2)));
        }
    }
    let mut kvs = vec![(if rng.chance(1, 4) { "process" } else { "rules" }, J::Arr(rules))];
    if rng.chance(1, 2) {
        kvs.push(("generator", rng.pick(&generator_forms()).clone()));
    }
    if rng.chance(1, 4) {
        kvs.push(("bundle", rng.pick(&bundle_forms()).clone()));
    }
    if rng.chance(1, 3) {
        let (a, k) = rng.pick(&filters).clone();
        if let Some(a) = a {
            kvs.push(("apply_to_files", a));
        }
        if let Some(k) = k {
            kvs.push(("skip_files", k));
        }
    }
    rng.shuffle(&mut kvs);
    Case { j: obj(kvs), origin: "random".into(), must_reject: None }
}

/// paths to every object in the tree (as index paths), with a label of what the object is
fn object_paths(j: &J, path: &mut Vec<usize>, out: &mut Vec<Vec<usize>>) {
    match j {
        J::Obj(kvs) => {
            out.push(path.clone());
            for (i, (_, v)) in kvs.iter().enumerate() {
                path.push(i);
                object_paths(v, path, out);
                path.pop();
            }
        }
        J::Arr(xs) => {
            for (i, v) in xs.iter().enumerate() {
                path.push(i);
                object_paths(v, path, out);
                path.pop();
            }
        }
        _ => {}
    }
}

fn get_mut<'a>(j: &'a mut J, path: &[usize]) -> &'a mut J {
    let mut cur = j;
    for i in path {
        cur = match cur {
            J::Obj(kvs) => &mut kvs[*i].1,
            J::Arr(xs) => &mut xs[*i],
            other => other,
        };
    }
    cur
}

fn wrong_type_values(current: &J) -> Vec<J> {
    let all = vec![J::Bool(true), J::Num(7), s("zzz"), J::Null, J::Arr(vec![J::Num(1)]), obj(vec![("q", J::Num(1))])];
    all.into_iter()
        .filter(|c| std::mem::discriminant(c) != std::mem::discriminant(current))
        .collect()
}

/// keys whose value may legitimately take several JSON types (so a type swap is not a corruption)
fn polymorphic_key(key: &str) -> bool {
    matches!(key, "value" | "default_value")
}

/// all single-field corruptions of a valid configuration tree
fn corruptions(base: &Case, all_property_keys: &[String], schema: &[(String, String, String)]) -> Vec<Case> {
    let mut out = Vec::new();
    let mut paths = Vec::new();
    object_paths(&base.j, &mut Vec::new(), &mut paths);
    for p in &paths {
        let n_keys = match get_mut(&mut base.j.clone(), p) {
            J::Obj(kvs) => kvs.len(),
            _ => 0,
        };
        // extra / unknown property
        for extra in ["foo", "Rule", "rules ", "location"].iter().map(|x| x.to_string()).chain(all_property_keys.iter().cloned()) {
            let mut j = base.j.clone();
            if let J::Obj(kvs) = get_mut(&mut j, p) {
                if kvs.iter().any(|(k, _)| *k == extra) {
                    continue;
                }
                // a property of this very rule is not an unknown key
                let rule_name = kvs.iter().find(|(k, _)| k == "rule").and_then(|(_, v)| if let J::Str(n) = v { Some(n.clone()) } else { None });
                if let Some(n) = rule_name {
                    if schema.iter().any(|(r, k, _)| *r == n && *k == extra) || extra == "apply_to_files" || extra == "skip_files" {
                        continue;
                    }
                }
                kvs.push((extra.clone(), J::Num(1)));
            }
            out.push(Case { j, origin: format!("{} + extra key `{}`", base.origin, extra), must_reject: Some("extra-key".into()) });
        }
        for i in 0..n_keys {
            // misspelt key
            for variant in 0..2 {
                let mut j = base.j.clone();
                let mut key_name = String::new();
                if let J::Obj(kvs) = get_mut(&mut j, p) {
                    key_name = kvs[i].0.clone();
                    kvs[i].0 = if variant == 0 { format!("{}x", kvs[i].0) } else { kvs[i].0[..kvs[i].0.len().saturating_sub(1)].to_owned() };
                }
                out.push(Case { j, origin: format!("{} + misspelt `{}`", base.origin, key_name), must_reject: Some("misspelt-key".into()) });
            }
            // duplicate key: the identical copy, and value variants on BOTH occurrences. A reader that tests
            // "is it already set?" by comparing with the type's default / empty value accepts a duplicate whose
            // first value is that default, so the first occurrence ranges over the empty values of every JSON
            // type (and the original), the second over the original and other values; the second occurrence
            // is placed right after the first or at the end of the object.
            {
                let mut j = base.j.clone();
                let mut key_name = String::new();
                if let J::Obj(kvs) = get_mut(&mut j, p) {
                    key_name = kvs[i].0.clone();
                    let dup = kvs[i].clone();
                    kvs.push(dup);
                }
                out.push(Case { j, origin: format!("{} + duplicate `{}`", base.origin, key_name), must_reject: Some("duplicate-key".into()) });
            }
            {
                let (key_name, original) = match get_mut(&mut base.j.clone(), p) {
                    J::Obj(kvs) => kvs[i].clone(),
                    _ => continue,
                };
                let firsts = vec![
                    original.clone(),
                    J::Arr(vec![]),
                    s(""),
                    J::Num(0),
                    J::Bool(false),
                    J::Obj(vec![]),
                    J::Null,
                ];
                let seconds = vec![original.clone(), J::Arr(vec![]), s("zzz"), arr_s(&["zzz", "yyy"]), J::Bool(true), J::Null];
                for (fi, first) in firsts.iter().enumerate() {
                    for (si, second) in seconds.iter().enumerate() {
                        if fi == 0 && si == 0 {
                            continue; // the identical copy above
                        }
                        for adjacent in [true, false] {
                            let mut j = base.j.clone();
                            if let J::Obj(kvs) = get_mut(&mut j, p) {
                                kvs[i].1 = first.clone();
                                let dup = (key_name.clone(), second.clone());
                                if adjacent {
                                    kvs.insert(i + 1, dup);
                                } else {
                                    kvs.push(dup);
                                }
                            }
                            out.push(Case {
                                j,
                                origin: format!(
                                    "{} + duplicate `{}` with values {} then {} ({})",
                                    base.origin,
                                    key_name,
                                    first.text(),
                                    second.text(),
                                    if adjacent { "adjacent" } else { "at the end" }
                                ),
                                must_reject: Some("duplicate-key-variant".into()),
                            });
                        }
                    }
                }
            }
            // wrong type
            let (key_name, current) = match get_mut(&mut base.j.clone(), p) {
                J::Obj(kvs) => kvs[i].clone(),
                _ => continue,
            };
            // a string where only some strings are allowed: a wrong *value*
            if matches!(key_name.as_str(), "location" | "strategy" | "name" | "require_mode" | "current" | "target" | "generator")
                && matches!(current, J::Str(_))
            {
                let mut j = base.j.clone();
                if let J::Obj(kvs) = get_mut(&mut j, p) {
                    kvs[i].1 = s("zzz");
                }
                out.push(Case {
                    j,
                    origin: format!("{} + `{}` := \"zzz\"", base.origin, key_name),
                    must_reject: Some("wrong-value".into()),
                });
            }
            for w in wrong_type_values(&current) {
                // legitimate alternatives: string <-> array for filters; string <-> object for generator and
                // require modes; null for the optional bundle / modules_identifier; anything for `value`
                let legit = polymorphic_key(&key_name)
                    || (matches!(key_name.as_str(), "apply_to_files" | "skip_files") && matches!(w, J::Str(_)))
                    || (matches!(key_name.as_str(), "bundle" | "modules_identifier") && matches!(w, J::Null))
                    || (matches!(key_name.as_str(), "generator" | "require_mode" | "current" | "target") && matches!(w, J::Obj(_) | J::Str(_)));
                if legit {
                    continue;
                }
                let mut j = base.j.clone();
                if let J::Obj(kvs) = get_mut(&mut j, p) {
                    kvs[i].1 = w.clone();
                }
                out.push(Case {
                    j,
                    origin: format!("{} + `{}` := {}", base.origin, key_name, w.text()),
                    must_reject: Some("wrong-type".into()),
                });
            }
        }
    }
    out
}

// ---------------------------------------------------------------------------------------------
// checking
// ---------------------------------------------------------------------------------------------

struct Outcome {
    case: Case,
    violations: Vec<Violation>,
    accepted: bool,
    /// serialised text and probe behaviour of accepted configurations
    serialised: Option<(String, String)>,
    in_h: Option<bool>,
    roundtrip_failed: Option<String>,
    model_rt: Option<String>,
}

fn case_input(case: &Case) -> Value {
    json!({"kind": "config", "text": case.j.text(), "sexp": case.j.sexp(), "origin": case.origin, "must_reject": case.must_reject})
}

fn check_case(case: &Case, model: &mut Model) -> Outcome {
    let text = case.j.text();
    let real = real_de(&text);
    let answer = parse_model(&model.ask(&model_request(&case.j)));
    let mut out = Outcome {
        case: case.clone(),
        violations: Vec::new(),
        accepted: real.is_ok(),
        serialised: None,
        in_h: None,
        roundtrip_failed: None,
        model_rt: None,
    };
    let input = case_input(case);
    // ---- oracle: strictness (judged by construction of the corruption, not by the model)
    if let (Some(kind), Ok(_)) = (&case.must_reject, &real) {
        out.violations.push(Violation {
            kind: "oracle".into(),
            check: format!("strict-{}", kind),
            what: format!("corrupted configuration accepted ({}): {}", case.origin, text),
            input: input.clone(),
            failing_input_found: true,
        });
    }
    // ---- correspondence: accept / reject / class / text
    match (&real, &answer) {
        (_, ModelAnswer::Err(class)) if class == "unmodelled" => {}
        (Err(message), ModelAnswer::Err(class)) => {
            // value variants of a duplicate may be ill typed as well: a double fault, whichever error comes first
            if case.must_reject.is_some() && case.must_reject.as_deref() != Some("duplicate-key-variant") && !class_matches(class, message) {
                out.violations.push(Violation {
                    kind: "correspondence".into(),
                    check: "error-class".into(),
                    what: format!("model rejects with class `{}`, real message: {}", class, message),
                    input: input.clone(),
                    failing_input_found: false,
                });
            }
        }
        (Ok(cfg), ModelAnswer::Ok { text: model_text, roundtrip, in_h, wf }) => {
            out.in_h = Some(*in_h);
            if !*wf {
                // `roundtrip_partial` assumes `configWF`; every state the model deserialises must satisfy it
                out.violations.push(Violation {
                    kind: "correspondence".into(),
                    check: "model-state-well-formed".into(),
                    what: "the model accepted this configuration into a state outside configWF".into(),
                    input: input.clone(),
                    failing_input_found: false,
                });
            }
            if *in_h && roundtrip != "same" {
                out.violations.push(Violation {
                    kind: "correspondence".into(),
                    check: "model-roundtrip-inside-H".into(),
                    what: format!("inside H19 the model itself does not round-trip: {}", roundtrip),
                    input: input.clone(),
                    failing_input_found: false,
                });
            }
            out.model_rt = Some(roundtrip.clone());
            match real_ser(cfg) {
                Ok(real_text) => {
                    if real_text != *model_text {
                        out.violations.push(Violation {
                            kind: "correspondence".into(),
                            check: "serialised-text".into(),
                            what: format!("serde_json::to_string gives {} but the model gives {}", real_text, model_text),
                            input: input.clone(),
                            failing_input_found: false,
                        });
                    }
                }
                Err(e) => out.violations.push(Violation {
                    kind: "oracle".into(),
                    check: "serialises".into(),
                    what: format!("an accepted configuration cannot be serialised: {}", e),
                    input: input.clone(),
                    failing_input_found: true,
                }),
            }
        }
        (Ok(_), ModelAnswer::Err(class)) => out.violations.push(Violation {
            kind: "correspondence".into(),
            check: "accept-reject".into(),
            what: format!("real code accepts, model rejects with `{}`", class),
            input: input.clone(),
            failing_input_found: false,
        }),
        (Err(message), ModelAnswer::Ok { .. }) => out.violations.push(Violation {
            kind: "correspondence".into(),
            check: "accept-reject".into(),
            what: format!("model accepts, real code rejects: {}", message),
            input: input.clone(),
            failing_input_found: false,
        }),
        (_, ModelAnswer::Bad(a)) => out.violations.push(Violation {
            kind: "correspondence".into(),
            check: "driver".into(),
            what: format!("model driver answered `{}`", a),
            input: input.clone(),
            failing_input_found: false,
        }),
    }
    // ---- oracle: round trip, on the real code only
    if let Ok(cfg) = real {
        if let Ok(real_text) = real_ser(&cfg) {
            let original_behaviour = behaviour(cfg);
            match real_de(&real_text) {
                Err(e) => out.roundtrip_failed = Some(format!("the serialised text {} is rejected when read back: {}", real_text, e)),
                Ok(cfg2) => {
                    let text2 = real_ser(&cfg2).unwrap_or_default();
                    let behaviour2 = behaviour(cfg2);
                    if behaviour2 != original_behaviour {
                        out.roundtrip_failed = Some(format!(
                            "after the round trip through {} the probe project is transformed differently",
                            real_text
                        ));
                    } else if text2 != real_text {
                        out.roundtrip_failed = Some(format!("serialisation is not stable: {} then {}", real_text, text2));
                    }
                }
            }
            out.serialised = Some((real_text, original_behaviour));
        }
    }
    // model says lossless but the real round trip fails, or the reverse inside H: settled by the caller
    out
}

fn run_cases(cases: Vec<Case>) -> Vec<Outcome> {
    let n_threads = 16usize;
    let chunk = ((cases.len() + n_threads - 1) / n_threads).max(1);
    std::thread::scope(|scope| {
        let handles: Vec<_> = cases
            .chunks(chunk)
            .map(|c| {
                scope.spawn(move || {
                    let mut model = Model::spawn();
                    c.iter().map(|case| check_case(case, &mut model)).collect::<Vec<_>>()
                })
            })
            .collect();
        handles.into_iter().flat_map(|h| h.join().expect("case thread")).collect()
    })
}

fn settle(report: &mut Report, outcomes: Vec<Outcome>, groups: &mut BTreeMap<String, Vec<(String, String, bool)>>) {
    let mut n_samples = 0;
    for o in outcomes {
        let nontrivial = o.case.must_reject.is_some()
            || o.case.j.text().contains("_files")
            || matches!(&o.serialised, Some((t, _)) if t.contains("{\"rule\""))
            || o.case.origin.starts_with("generator")
            || o.case.origin.starts_with("bundle");
        report.case(if nontrivial { Some(o.case.j.text()) } else { None });
        let bucket = match (&o.case.must_reject, o.accepted) {
            (Some(k), false) => format!("corruption rejected: {}", k),
            (Some(k), true) => format!("corruption ACCEPTED: {}", k),
            (None, true) => "valid accepted".to_owned(),
            (None, false) => "valid-by-construction rejected (string form of a rule with required properties, …)".to_owned(),
        };
        report.hist("case", &bucket);
        report.hist("origin", o.case.origin.split(':').next().unwrap_or("").split(" + ").next().unwrap_or(""));
        if let Some(rt) = &o.model_rt {
            report.hist("model-roundtrip", &rt.split(':').next().unwrap_or("").to_owned());
        }
        if let Some(h) = o.in_h {
            report.hist("H19", if h { "inside" } else { "outside" });
        }
        let mut violations = o.violations;
        // known region: sequences read as require modes (recorded finding F28)
        violations.retain(|v| {
            if v.check.starts_with("strict-") && is_require_mode_sequence(&o.case) {
                report.count("known_region_strict_require_mode_sequence", 1);
                false
            } else {
                true
            }
        });
        if let Some(why) = &o.roundtrip_failed {
            match o.in_h {
                Some(true) => violations.push(Violation {
                    kind: "oracle".into(),
                    check: "roundtrip".into(),
                    what: format!("inside H19 (lossless) yet: {}", why),
                    input: case_input(&o.case),
                    failing_input_found: true,
                }),
                Some(false) => report.count("known_region_roundtrip_failures", 1),
                None => {
                    // no verdict of the model (it answered `unmodelled`): the round trip is still demanded,
                    // except for convert_require rules (F27, known)
                    if o.case.j.text().contains("\"convert_require\"") {
                        report.count("known_region_roundtrip_failures", 1);
                    } else {
                        violations.push(Violation {
                            kind: "oracle".into(),
                            check: "roundtrip".into(),
                            what: format!("(setting outside the Lean model) {}", why),
                            input: case_input(&o.case),
                            failing_input_found: true,
                        });
                    }
                }
            }
        }
        // the model's own round-trip verdict must never be more optimistic than the code's behaviour
        if let (Some(rt), Some(_)) = (&o.model_rt, &o.roundtrip_failed) {
            if rt == "same" && o.in_h == Some(false) {
                // outside H but the model round-trips exactly: then the real failure is not explained
                violations.push(Violation {
                    kind: "correspondence".into(),
                    check: "roundtrip-verdict".into(),
                    what: format!("model round-trips this configuration exactly, real code: {}", o.roundtrip_failed.clone().unwrap()),
                    input: case_input(&o.case),
                    failing_input_found: false,
                });
            }
        }
        if let Some((text, behaviour)) = o.serialised {
            groups.entry(text).or_default().push((o.case.j.text(), behaviour, o.in_h.unwrap_or(false)));
        }
        if nontrivial && n_samples < 8 && o.case.must_reject.is_none() && o.accepted {
            report.sample(json!({"config": o.case.j.text(), "origin": o.case.origin, "model_roundtrip": o.model_rt, "in_H19": o.in_h}));
            n_samples += 1;
        }
        for v in violations {
            report.violation(v);
        }
    }
}

/// `current: [1]` / `target: [0]`: serde reads a sequence as a tagged enum (variant index first)
fn is_require_mode_sequence(case: &Case) -> bool {
    fn find(j: &J) -> bool {
        match j {
            J::Obj(kvs) => kvs.iter().any(|(k, v)| {
                ((k == "current" || k == "target") && matches!(v, J::Arr(xs) if matches!(xs.first(), Some(J::Num(0..=2))))) || find(v)
            }),
            J::Arr(xs) => xs.iter().any(find),
            _ => false,
        }
    }
    find(&case.j)
}

/// "two configurations that behave differently never serialise to the same text"
fn check_groups(report: &mut Report, groups: &BTreeMap<String, Vec<(String, String, bool)>>) {
    for (text, members) in groups {
        report.count("distinct_serialised_texts", 1);
        let inside: Vec<&(String, String, bool)> = members.iter().filter(|m| m.2).collect();
        // inside H19: all members must behave the same
        if let Some(first) = inside.first() {
            for m in &inside {
                if m.1 != first.1 {
                    report.violation(Violation {
                        kind: "oracle".into(),
                        check: "distinct-configs-distinct-text".into(),
                        what: format!("`{}` and `{}` behave differently on the probe but both serialise to {}", first.0, m.0, text),
                        input: json!({"kind": "pair", "a": first.0, "b": m.0}),
                        failing_input_found: true,
                    });
                    break;
                }
            }
        }
        if members.iter().any(|m| m.1 != members[0].1) {
            report.count("texts_shared_by_differently_behaving_configs(known region included)", 1);
        }
    }
}

// ---------------------------------------------------------------------------------------------
// known findings
// ---------------------------------------------------------------------------------------------

fn replay_known(report: &mut Report) {
    for f in known_findings("C19") {
        let id = f["id"].as_str().unwrap_or("?").to_owned();
        let w = &f["witness"];
        let still = match w["kind"].as_str() {
            Some("roundtrip") => {
                let text = w["config"].as_str().unwrap_or("");
                match real_de(text) {
                    Ok(cfg) => {
                        let ser = real_ser(&cfg).unwrap_or_default();
                        let b1 = behaviour(cfg);
                        match real_de(&ser) {
                            Ok(c2) => behaviour(c2) != b1,
                            Err(_) => true,
                        }
                    }
                    Err(_) => false,
                }
            }
            Some("accepted-corruption") => real_de(w["config"].as_str().unwrap_or("")).is_ok(),
            Some("worker-tree") => f13_stale(w["first"].as_str().unwrap_or(""), w["second"].as_str().unwrap_or("")) == Some(true),
            _ => false,
        };
        if still {
            if f["status"] == "fixed" {
                // a repaired defect is not excused any more
                report.violation(Violation {
                    kind: "oracle".into(),
                    check: "fixed-finding-regressed".into(),
                    what: format!("{} is recorded as fixed but its witness fails again: {}", id, f["expected_wrong"].as_str().unwrap_or("")),
                    input: json!({"kind": "known-finding", "id": id, "witness": w}),
                    failing_input_found: true,
                });
            } else {
                report.known_finding(&id, f["expected_wrong"].as_str().unwrap_or(""));
            }
        }
    }
}

/// F13: process with `first`, then again with `second` on the same WorkerTree; Some(true) when the second
/// pass leaves outputs that differ from a fresh run with `second`
fn f13_stale(first: &str, second: &str) -> Option<bool> {
    let c1 = real_de(first).ok()?;
    let c2 = real_de(second).ok()?;
    let c2_fresh = real_de(second).ok()?;
    let r = std::panic::catch_unwind(std::panic::AssertUnwindSafe(move || {
        let resources = probe_resources();
        let mut tree = WorkerTree::default();
        let o1 = Options::new("src").with_output("out").with_configuration(c1);
        tree.collect_work(&resources, &o1).ok()?;
        tree.process(&resources, o1).ok()?;
        let o2 = Options::new("src").with_output("out").with_configuration(c2);
        tree.process(&resources, o2).ok()?;
        let incremental: Vec<String> = PROBE_OUTPUTS.iter().map(|o| resources.get(o).unwrap_or_default()).collect();
        let fresh_resources = probe_resources();
        process(&fresh_resources, Options::new("src").with_output("out").with_configuration(c2_fresh)).ok()?;
        let fresh: Vec<String> = PROBE_OUTPUTS.iter().map(|o| fresh_resources.get(o).unwrap_or_default()).collect();
        Some(incremental != fresh)
    }));
    r.ok().flatten()
}

// ---------------------------------------------------------------------------------------------

/// the probe project must react to every parameter the configurations vary, otherwise behavioural
/// equality would be a weak judge; pairs that should behave differently are checked on every run
fn probe_sensitivity(report: &mut Report) {
    let pairs: &[(&str, &str)] = &[
        ("{rules:['remove_comments']}", "{rules:[{rule:'remove_comments', except:['^--!']}]}"),
        ("{rules:['remove_attribute']}", "{rules:[{rule:'remove_attribute', match:['native']}]}"),
        ("{rules:['remove_assertions']}", "{rules:[{rule:'remove_assertions', preserve_arguments_side_effects:false}]}"),
        ("{rules:['remove_debug_profiling']}", "{rules:[{rule:'remove_debug_profiling', preserve_arguments_side_effects:false}]}"),
        ("{rules:['remove_interpolated_string']}", "{rules:[{rule:'remove_interpolated_string', strategy:'tostring'}]}"),
        ("{rules:['rename_variables']}", "{rules:[{rule:'rename_variables', include_functions:true}]}"),
        ("{rules:[{rule:'rename_variables', detect_globals:false}]}", "{rules:[{rule:'rename_variables', detect_globals:false, globals:['a','b']}]}"),
        ("{rules:['rename_variables']}", "{rules:[{rule:'rename_variables', detect_globals:false}]}"),
        ("{rules:[{rule:'inject_global_value', identifier:'VALUE', value:1}]}", "{rules:[{rule:'inject_global_value', identifier:'VALUE', value:'x'}]}"),
        ("{rules:[{rule:'inject_global_value', identifier:'VALUE'}]}", "{rules:[{rule:'inject_global_value', identifier:'other'}]}"),
        ("{rules:[{rule:'inject_global_value', identifier:'VALUE', env:'DLV_C19_UNSET_VARIABLE'}]}", "{rules:[{rule:'inject_global_value', identifier:'VALUE', env:'DLV_C19_UNSET_VARIABLE', default_value:3}]}"),
        ("{rules:[{rule:'inject_global_value', identifier:'VALUE', env:'DLV_C19_SET_VARIABLE'}]}", "{rules:[{rule:'inject_global_value', identifier:'VALUE', env_json:'DLV_C19_SET_VARIABLE'}]}"),
        ("{rules:[{rule:'inject_global_value', identifier:'VALUE', env:'DLV_C19_SET_VARIABLE'}]}", "{rules:[{rule:'inject_global_value', identifier:'VALUE', env:'DLV_C19_UNSET_VARIABLE'}]}"),
        ("{rules:[{rule:'append_text_comment', text:'hi'}]}", "{rules:[{rule:'append_text_comment', text:'hi', location:'end'}]}"),
        ("{rules:[{rule:'append_text_comment', text:'hi'}]}", "{rules:[{rule:'append_text_comment', file:'note.txt'}]}"),
        ("{rules:[{rule:'convert_require', current:'path', target:'luau'}]}", "{rules:[{rule:'convert_require', current:'path', target:'roblox'}]}"),
        ("{rules:[]}", "{}"),
        ("{process:[]}", "{process:['remove_empty_do']}"),
        ("{rules:[], bundle:{require_mode:'path'}}", "{rules:[], bundle:{require_mode:{name:'path', module_folder_name:''}}}"),
        ("{rules:[]}", "{rules:[], generator:'dense'}"),
        ("{rules:[], generator:'dense'}", "{rules:[], generator:'readable'}"),
        ("{rules:[], generator:'dense'}", "{rules:[], generator:{name:'dense', column_span:20}}"),
        ("{rules:[]}", "{rules:[], bundle:{require_mode:'path'}}"),
        ("{rules:[], bundle:{require_mode:'path'}}", "{rules:[], bundle:{require_mode:'path', modules_identifier:'__M'}}"),
        ("{rules:[], bundle:{require_mode:'path'}}", "{rules:[], bundle:{require_mode:'path', excludes:['./lib']}}"),
        ("{rules:[], bundle:{require_mode:'path'}}", "{rules:[], bundle:{require_mode:{name:'path', use_luau_configuration:false}}}"),
        ("{rules:[], bundle:{require_mode:'luau'}}", "{rules:[], bundle:{require_mode:{name:'luau', use_luau_configuration:false}}}"),
        ("{rules:[], bundle:{require_mode:'path'}}", "{rules:[], bundle:{require_mode:{name:'path', module_folder_name:'index'}}}"),
        ("{rules:[], bundle:{require_mode:'path'}}", "{rules:[], bundle:{require_mode:'luau'}}"),
        ("{rules:[], bundle:{require_mode:'path'}}", "{rules:[], bundle:{require_mode:{name:'path', sources:{'@own':'./vendor'}}}}"),
        ("{rules:[], bundle:{require_mode:'luau'}}", "{rules:[], bundle:{require_mode:{name:'luau', aliases:{'@own':'../vendor'}}}}"),
        ("{rules:[{rule:'convert_require', current:'path', target:'luau'}]}", "{rules:[{rule:'convert_require', current:{name:'path', use_luau_configuration:false}, target:'luau'}]}"),
        ("{rules:['remove_empty_do']}", "{rules:[{rule:'remove_empty_do', skip_files:'**/b.lua'}]}"),
        ("{rules:['remove_empty_do']}", "{rules:[{rule:'remove_empty_do', apply_to_files:'src/a.lua'}]}"),
        ("{rules:['remove_empty_do']}", "{rules:['remove_empty_do'], skip_files:['src/b.*']}"),
        ("{rules:['remove_empty_do']}", "{rules:['remove_empty_do'], apply_to_files:'**/a.lua'}"),
    ];
    for (a, b) in pairs {
        match (real_de(a), real_de(b)) {
            (Ok(ca), Ok(cb)) => {
                if behaviour(ca) == behaviour(cb) {
                    report.notes.push(format!("probe project does not tell `{}` from `{}`", a, b));
                    report.count("probe_pairs_not_distinguished", 1);
                } else {
                    report.count("probe_pairs_distinguished", 1);
                }
            }
            _ => report.notes.push(format!("probe pair not accepted: `{}` / `{}`", a, b)),
        }
    }
}

pub fn run(report: &mut Report, replay: Option<&str>) {
    report.rule = "Valid configurations: every rule name in string and object form x each property at default and \
        non-default values x filter forms (none/apply/skip/both; string, 1-array, n-array, empty array) x generator \
        forms x bundle settings (enumerated), then seeded random multi-rule configurations; corruptions: every \
        single-field corruption (extra key incl. every property name known to any rule, misspelt key, duplicate key, \
        wrong JSON type) of a set of valid configurations. Non-trivial = a corruption, or a configuration with filters, \
        a rule in object form, a generator or a bundle setting; distinct = distinct configuration text."
        .to_owned();
    // one variable is set (valid JSON) so that `env` / `env_json` of inject_global_value are observable;
    // DLV_C19_UNSET_VARIABLE is never set
    std::env::set_var("DLV_C19_SET_VARIABLE", "[1, \"two\"]");
    let mut model = Model::spawn();
    if let Some(path) = replay {
        let text = std::fs::read_to_string(path).unwrap_or_default();
        let v: Value = serde_json::from_str(&text).unwrap_or(Value::Null);
        let input = if v.get("input").is_some() { v["input"].clone() } else { v.clone() };
        if input["kind"] == "pair" {
            // two configurations that serialise alike: re-judge both
            let mut groups = BTreeMap::new();
            let mut outcomes = Vec::new();
            for key in ["a", "b"] {
                if let Some(value) = input[key].as_str().and_then(|t| json5::from_str::<Value>(t).ok()) {
                    let case = Case { j: J::from_value(&value), origin: "replay-pair".into(), must_reject: None };
                    outcomes.push(check_case(&case, &mut model));
                }
            }
            settle(report, outcomes, &mut groups);
            check_groups(report, &groups);
            return;
        }
        if let Some(cfg_text) = input["text"].as_str() {
            let tree = input["sexp"].as_str().and_then(j_of_sexp).or_else(|| json5::from_str::<Value>(cfg_text).ok().map(|v| J::from_value(&v)));
            if let Some(tree) = tree {
                let case = Case {
                    j: tree,
                    origin: input["origin"].as_str().unwrap_or("replay").to_owned(),
                    must_reject: input["must_reject"].as_str().map(|x| x.to_owned()),
                };
                let mut groups = BTreeMap::new();
                let outcomes = vec![check_case(&case, &mut model)];
                settle(report, outcomes, &mut groups);
                return;
            }
        }
        report.notes.push("replay file not understood; running the full check".into());
    }
    replay_known(report);
    probe_sensitivity(report);
    // ---- the tables agree: rule names, property names
    let real_names: Vec<String> = darklua_core::rules::get_all_rule_names().iter().map(|x| x.to_string()).collect();
    let model_names: Vec<String> = model.ask("c19.names").split(' ').map(|x| x.to_owned()).collect();
    if real_names != model_names {
        report.violation(Violation {
            kind: "correspondence".into(),
            check: "rule-names".into(),
            what: format!("get_all_rule_names() = {:?}, model table = {:?}", real_names, model_names),
            input: json!({"kind": "names"}),
            failing_input_found: false,
        });
    }
    report.exhaustive.insert("every rule name of get_all_rule_names() in string and object form".into(), true);
    let schema: Vec<(String, String, String)> = model
        .ask("c19.schema")
        .split(' ')
        .filter_map(|t| {
            let mut p = t.splitn(3, ':');
            Some((p.next()?.to_owned(), p.next()?.to_owned(), p.next()?.to_owned()))
        })
        .collect();
    let mut all_keys: Vec<String> = schema.iter().map(|x| x.1.clone()).collect();
    all_keys.sort();
    all_keys.dedup();
    // the harness variants cover every (rule, property) of the model's schema
    for (rule, key, _) in &schema {
        if !rule_variants(rule).iter().any(|v| v.iter().any(|(k, _)| k == key)) {
            report.notes.push(format!("schema property {}.{} has no generated variant", rule, key));
        }
    }
    let thorough = report.is_thorough();
    let mut groups: BTreeMap<String, Vec<(String, String, bool)>> = BTreeMap::new();
    // ---- valid configurations
    let valid = valid_cases(&real_names, thorough);
    report.count("enumerated_valid_cases", valid.len() as u64);
    let mut rng = Rng::new(report.seed);
    let mut random_cases = Vec::new();
    for _ in 0..(if thorough { 150000 } else { 15000 }) {
        random_cases.push(random_valid_case(&mut rng, &real_names));
    }
    // ---- corruptions of a set of bases: one per rule family + generator/bundle/top-level shapes
    let mut bases: Vec<Case> = Vec::new();
    for name in &real_names {
        let variants = rule_variants(name);
        let props = variants.last().unwrap().clone();
        bases.push(Case {
            j: config_with_rules(vec![rule_object(name, &props, &(Some(s("src/a.lua")), Some(arr_s(&["**/b.lua"]))), false)]),
            origin: format!("base:{}", name),
            must_reject: None,
        });
        if thorough {
            for (vi, props) in variants.iter().enumerate().take(variants.len() - 1) {
                bases.push(Case {
                    j: config_with_rules(vec![rule_object(name, props, &(None, None), false)]),
                    origin: format!("base:{}:variant{}", name, vi),
                    must_reject: None,
                });
            }
        }
    }
    bases.push(Case {
        j: obj(vec![
            ("rules", J::Arr(vec![s("remove_spaces")])),
            ("generator", obj(vec![("name", s("dense")), ("column_span", J::Num(40))])),
            (
                "bundle",
                obj(vec![
                    ("require_mode", obj(vec![("name", s("path")), ("module_folder_name", s("index")), ("use_luau_configuration", J::Bool(false))])),
                    ("modules_identifier", s("__M")),
                    ("excludes", arr_s(&["@x"])),
                ]),
            ),
            ("apply_to_files", s("src/**")),
            ("skip_files", arr_s(&["**/b.lua"])),
        ]),
        origin: "base:generator-dense+bundle-path+top-filters".into(),
        must_reject: None,
    });
    bases.push(Case {
        j: obj(vec![
            ("process", J::Arr(vec![])),
            ("generator", obj(vec![("name", s("readable"))])),
            ("bundle", obj(vec![("require_mode", obj(vec![("name", s("luau")), ("use_luau_configuration", J::Bool(true))]))])),
        ]),
        origin: "base:generator-readable+bundle-luau".into(),
        must_reject: None,
    });
    bases.push(Case {
        j: obj(vec![("generator", obj(vec![("name", s("retain_lines"))])), ("bundle", obj(vec![("require_mode", s("path"))]))]),
        origin: "base:generator-retain_lines+bundle-string".into(),
        must_reject: None,
    });
    let mut corrupted = Vec::new();
    for b in &bases {
        corrupted.extend(corruptions(b, &all_keys, &schema));
    }
    // unknown rule names
    for bad in ["nope", "remove_call_match", "Remove_spaces", "remove_spaces ", ""] {
        corrupted.push(Case { j: config_with_rules(vec![s(bad)]), origin: "unknown rule (string)".into(), must_reject: Some("unknown-rule".into()) });
        corrupted.push(Case {
            j: config_with_rules(vec![obj(vec![("rule", s(bad))])]),
            origin: "unknown rule (object)".into(),
            must_reject: Some("unknown-rule".into()),
        });
    }
    // invalid patterns and regular expressions (contradictory properties are covered by the collisions below)
    for bad in ["a**", "**/**", "src/[", "{a"] {
        corrupted.push(Case { j: obj(vec![("apply_to_files", s(bad))]), origin: "invalid pattern (top)".into(), must_reject: Some("invalid-pattern".into()) });
        corrupted.push(Case {
            j: config_with_rules(vec![obj(vec![("rule", s("remove_spaces")), ("skip_files", arr_s(&["**", bad]))])]),
            origin: "invalid pattern (rule)".into(),
            must_reject: Some("invalid-pattern".into()),
        });
    }
    for bad in BAD_REGEXES {
        corrupted.push(Case {
            j: config_with_rules(vec![obj(vec![("rule", s("remove_comments")), ("except", arr_s(&[bad]))])]),
            origin: "invalid regex".into(),
            must_reject: Some("invalid-regex".into()),
        });
    }
    // property combinations: for every rule, EVERY subset of the properties of its schema (taken from the
    // model's schema dump), in EVERY key order, each property with a well-typed value. The model and the real
    // code must agree on accept / reject for all of them (required properties, collisions), and every
    // combination containing two members of a documented collision group must be rejected (oracle).
    let collision_groups: &[(&str, &[&str])] = &[
        ("append_text_comment", &["text", "file"]),
        ("inject_global_value", &["value", "env", "env_json"]),
        ("inject_global_value", &["value", "default_value"]),
    ];
    fn permutations(items: &[usize]) -> Vec<Vec<usize>> {
        if items.len() <= 1 {
            return vec![items.to_vec()];
        }
        let mut out = Vec::new();
        for i in 0..items.len() {
            let mut rest = items.to_vec();
            let head = rest.remove(i);
            for mut p in permutations(&rest) {
                p.insert(0, head);
                out.push(p);
            }
        }
        out
    }
    let mut rules_with_props: Vec<String> = schema.iter().map(|x| x.0.clone()).collect();
    rules_with_props.dedup();
    let mut subset_cases = 0u64;
    for rule in &rules_with_props {
        let props: Vec<(String, String)> = schema.iter().filter(|x| x.0 == *rule).map(|x| (x.1.clone(), x.2.clone())).collect();
        let n = props.len();
        let value_kinds = if props.iter().any(|(_, kind)| kind == "any") { 3 } else { 1 };
        for mask in 1u32..(1 << n) {
            let chosen: Vec<usize> = (0..n).filter(|i| mask & (1 << i) != 0).collect();
            let names: Vec<&str> = chosen.iter().map(|i| props[*i].0.as_str()).collect();
            let contradictory = collision_groups
                .iter()
                .any(|(r, group)| r == rule && group.iter().filter(|g| names.contains(g)).count() >= 2);
            for (pi, order) in permutations(&chosen).into_iter().enumerate() {
                for value_kind in 0..value_kinds {
                    let mut kvs: Vec<(String, J)> = Vec::new();
                    let rule_first = (pi + value_kind) % 2 == 0;
                    if rule_first {
                        kvs.push(("rule".to_owned(), s(rule)));
                    }
                    for i in &order {
                        let (key, kind) = &props[*i];
                        let value = match kind.as_str() {
                            "bool" => J::Bool(false),
                            "string" => match key.as_str() {
                                "file" => s("note.txt"),
                                "env" | "env_json" => s("DLV_C19_UNSET_VARIABLE"),
                                "identifier" => s("VALUE"),
                                _ => s("x"),
                            },
                            "string-list" => arr_s(&["a"]),
                            "regex-list" => arr_s(&["^--!"]),
                            "ident-list" => arr_s(&["a"]),
                            "require-mode" => s("path"),
                            "any" => match value_kind {
                                0 => s("x"),
                                1 => J::Num(1),
                                _ => J::Null,
                            },
                            k if k.starts_with("enum=") => s(k[5..].split(',').last().unwrap_or("")),
                            _ => J::Null,
                        };
                        kvs.push((key.clone(), value));
                    }
                    if !rule_first {
                        kvs.push(("rule".to_owned(), s(rule)));
                    }
                    if pi % 3 == 1 {
                        kvs.push(("skip_files".to_owned(), s("**/b.lua")));
                    }
                    subset_cases += 1;
                    corrupted.push(Case {
                        j: config_with_rules(vec![J::Obj(kvs)]),
                        origin: format!(
                            "property-subset {}: {}",
                            rule,
                            order.iter().map(|i| props[*i].0.as_str()).collect::<Vec<_>>().join("+")
                        ),
                        must_reject: if contradictory { Some("contradictory".into()) } else { None },
                    });
                }
            }
        }
    }
    report.count("property_subset_cases", subset_cases);
    report.exhaustive.insert(
        "property combinations: every subset of every rule's schema properties in every key order (contradictory = two members of a collision group)".into(),
        true,
    );

    report.count("corruption_cases", corrupted.len() as u64);
    report.exhaustive.insert(
        "all single-field corruptions (extra key x every known property name, misspelt, duplicate, wrong type) of one base configuration per rule and three generator/bundle/top-level bases".into(),
        true,
    );
    // corpus: finding witnesses and past disagreements, replayed on every run
    let mut corpus = Vec::new();
    let corpus_dir = concat!(env!("CARGO_MANIFEST_DIR"), "/../corpus/C19");
    if let Ok(entries) = std::fs::read_dir(corpus_dir) {
        let mut paths: Vec<_> = entries.flatten().map(|e| e.path()).collect();
        paths.sort();
        for path in paths {
            if let Ok(text) = std::fs::read_to_string(&path) {
                if let Ok(v) = serde_json::from_str::<Value>(&text) {
                    let tree = v["sexp"].as_str().and_then(j_of_sexp).or_else(|| {
                        v["text"].as_str().and_then(|t| json5::from_str::<Value>(t).ok()).map(|x| J::from_value(&x))
                    });
                    if let Some(tree) = tree {
                        corpus.push(Case {
                            j: tree,
                            origin: format!("corpus:{}", path.file_name().and_then(|n| n.to_str()).unwrap_or("")),
                            must_reject: v["must_reject"].as_str().map(|x| x.to_owned()),
                        });
                    }
                }
            }
        }
    }
    report.count("corpus_cases", corpus.len() as u64);
    let mut all = corpus;
    all.extend(valid);
    all.extend(random_cases);
    all.extend(corrupted);
    let outcomes = run_cases(all);
    settle(report, outcomes, &mut groups);
    check_groups(report, &groups);
}
