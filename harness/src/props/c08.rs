//! Property C08: static evaluation never disagrees with real execution.
//!
//! Every case is one expression, as wire text (BUILDING-AST.md). For each case:
//!  (1) CORRESPONDENCE — the three answers of the REAL `darklua_core::process::Evaluator`
//!      (`evaluate`, `has_side_effects` with and without `assume_pure_metamethods`,
//!      `can_return_multiple_values`) are compared bit-exactly with the Lean model
//!      (`Rules/Evaluator.lean` over `Float`, op `c08.eval`), the defs the theorems are about;
//!  (2) ORACLE, independent of the model — `return <e>` is executed on the Lean reference
//!      semantics (`sem.run`) in several environments binding the opaque leaves (`x`, `t`, `f`,
//!      `...`) to tables with effectful metamethods / numbers / strings / nil; when the run is
//!      error-free the returned value must be the REAL evaluator's definite answer, when the
//!      evaluator says "no side effects" the trace must be empty (also on error runs), when it
//!      says "single value" exactly one value must come back.
//! A failing oracle outside the proved region `H8` (op `c08.h`) is attributed to the listed
//! finding; inside `H8` it is a VIOLATION.
use crate::astsexp::{self, Sexp};
use crate::exec;
use crate::model::Model;
use crate::report::{self, Report, Violation};
use crate::rng::Rng;
use darklua_core::nodes::{Expression, LastStatement};
use darklua_core::process::{Evaluator, LuaValue};
use serde_json::json;

const NAN_WIRE: &str = "f7ff8000000000000";

fn num_wire(v: f64) -> String {
    if v.is_nan() {
        NAN_WIRE.to_owned()
    } else {
        format!("f{:016x}", v.to_bits())
    }
}

fn canon_num_atom(atom: &str) -> String {
    match crate::model::wire_f64(atom) {
        Some(v) => num_wire(v),
        None => atom.to_owned(),
    }
}

/// the evaluator's answers in the driver's format `(<value> <se> <se-pure> <multi>)`
#[derive(Clone, Debug, PartialEq)]
struct Answers {
    value: String,
    se: bool,
    se_pure: bool,
    multi: bool,
}

impl Answers {
    fn text(&self) -> String {
        format!("({} {} {} {})", self.value, self.se, self.se_pure, self.multi)
    }
    fn definite(&self) -> bool {
        self.value != "unknown"
    }
}

fn value_text(v: &LuaValue) -> String {
    match v {
        LuaValue::Nil => "nil".into(),
        LuaValue::True => "true".into(),
        LuaValue::False => "false".into(),
        LuaValue::Number(n) => format!("(num {})", num_wire(*n)),
        LuaValue::String(s) => format!("(str {})", crate::model::hex(s)),
        LuaValue::Table => "table".into(),
        LuaValue::Function => "function".into(),
        LuaValue::Unknown => "unknown".into(),
    }
}

fn real_answers(expr: &Expression) -> Option<Answers> {
    std::panic::catch_unwind(std::panic::AssertUnwindSafe(|| {
        let ev = Evaluator::default();
        let pure = Evaluator::default().assume_pure_metamethods();
        Answers {
            value: value_text(&ev.evaluate(expr)),
            se: ev.has_side_effects(expr),
            se_pure: pure.has_side_effects(expr),
            multi: ev.can_return_multiple_values(expr),
        }
    }))
    .ok()
}

fn parse_model_answers(text: &str) -> Option<Answers> {
    let s = Sexp::parse(text).ok()?;
    let items = s.list()?;
    if items.len() != 4 {
        return None;
    }
    let value = match &items[0] {
        Sexp::Atom(a) => a.clone(),
        Sexp::List(l) if l.len() == 2 => {
            let head = l[0].atom()?;
            let arg = l[1].atom()?;
            if head == "num" {
                format!("(num {})", canon_num_atom(arg))
            } else {
                format!("({} {})", head, arg)
            }
        }
        _ => return None,
    };
    let b = |s: &Sexp| s.atom().map(|a| a == "true");
    Some(Answers { value, se: b(&items[1])?, se_pure: b(&items[2])?, multi: b(&items[3])? })
}

// ---------------------------------------------------------------------------------------------
// alphabets
// ---------------------------------------------------------------------------------------------

fn lua_expr_wire(code: &str) -> String {
    let block = exec::parse(&format!("return {}", code)).unwrap_or_else(|e| panic!("prelude expr {}: {}", code, e));
    match block.get_last_statement() {
        Some(LastStatement::Return(r)) => astsexp::expr_to_sexp(r.iter_expressions().next().unwrap()),
        _ => panic!("no return"),
    }
}

fn num(v: f64) -> String {
    format!("(num f{:016x})", v.to_bits())
}
fn string(bytes: &[u8]) -> String {
    format!("(str {})", crate::model::hex(bytes))
}
fn var(name: &str) -> String {
    format!("(var {})", crate::model::hex(name.as_bytes()))
}

struct Alphabet {
    literals: Vec<String>,
    opaque: Vec<String>,
    reduced: Vec<String>,
    ty: String,
    empty_fn: String,
}

const BINOPS: [&str; 16] =
    ["and", "or", "eq", "ne", "lt", "le", "gt", "ge", "add", "sub", "mul", "div", "idiv", "mod", "pow", "concat"];
const UNOPS: [&str; 3] = ["neg", "not", "len"];
const BINOPS_REDUCED: [&str; 6] = ["and", "or", "eq", "lt", "add", "concat"];

fn alphabet() -> Alphabet {
    let empty_fn = lua_expr_wire("function() end");
    let mut literals: Vec<String> = vec!["nil".into(), "true".into(), "false".into()];
    for v in [
        0.0,
        -0.0,
        1.0,
        -1.0,
        0.1,
        0.1 + 0.2,
        1e308,
        5e-324,
        9007199254740993.0,
        123456789012345.0,
        1e15,
        1e100,
        1e-7,
        1e-20,
        2e-20,
        255.0,
        16.0,
        2.5,
        // the %.14g boundary of tostring / `..` (seeded C08-m9): 14 and 15 significant digits inside [1e-4, 1e14)
        12345678.901234,
        12345678.9012345,
        1.00000000000001,
        0.123456789012345,
        99999999999999.0,
    ] {
        literals.push(num(v));
    }
    // infinities and NaN as the division trees darklua builds
    literals.push(lua_expr_wire("1/0"));
    literals.push(lua_expr_wire("-1/0"));
    literals.push(lua_expr_wire("0/0"));
    for s in [
        &b""[..],
        b"1",
        b" 0x10 ",
        b"1e2",
        b"-5",
        b"abc",
        b"\xff\xfe",
        b" 1 ",
        b"+1",
        b"0x",
        b"1_0",
        b"inf",
        b"nan",
        b"0b11",
        b"\xc2\xa01",
        b"- 1",
        b"--5",
        b"0x1p4",
        b"10",
        b"1.5",
        b"0",
        b"-0",
        b"\xe2\x82\xac",
        b"1e",
        b".5",
        b"5.",
        b"0x_1",
        b"1\x0b",
        b"1e400",
        b"-0x10",
        b"ABC",
        b"ab",
        // a control byte followed by a digit: written `\0dd<digit>` in source (source-text leg)
        b"\x001",
        b"\n3",
        b"a\"b'`{\\",
        // byte order is not character order: invalid UTF-8, valid sequences with lead byte >= EF, a truncated sequence
        b"\xfe",
        b"\x80",
        b"\xff\xff",
        b"\xef\xbf\xbd",
        b"\xef\xbf\xbe",
        b"\xf0\x9f\x98\x80",
        b"\xc3",
        b"\xc3\xa9",
        // numeric strings whose integral mantissa is above 2^53, with a decimal exponent (number_coercion)
        b"9007199254740993e1",
        b"18014398509481985e3",
    ] {
        literals.push(string(s));
    }
    literals.push("(table)".into());
    literals.push(lua_expr_wire("{ f() }"));
    literals.push(lua_expr_wire("{ 1, a = true }"));
    literals.push(empty_fn.clone());
    let opaque = vec![
        var("x"),
        lua_expr_wire("t.a"),
        lua_expr_wire("t[1]"),
        lua_expr_wire("f()"),
        "vararg".to_owned(),
    ];
    let reduced = vec!["nil".into(), "true".into(), num(0.0), num(1.0), string(b"1"), var("x")];
    let ty = {
        let w = lua_expr_wire("x :: number");
        // (cast (var x78) <ty>)
        let s = Sexp::parse(&w).unwrap();
        s.list().unwrap()[2].to_string()
    };
    Alphabet { literals, opaque, reduced, ty, empty_fn }
}

fn un(op: &str, e: &str) -> String {
    format!("(un {} {})", op, e)
}
fn bin(op: &str, l: &str, r: &str) -> String {
    format!("(bin {} {} {})", op, l, r)
}

/// every node kind at depth ≤ 1 over the full alphabets
fn depth1(a: &Alphabet) -> Vec<String> {
    let mut leaves: Vec<String> = a.literals.clone();
    leaves.extend(a.opaque.iter().cloned());
    let small: Vec<String> = {
        let mut s = a.reduced.clone();
        s.push("false".into());
        s.push(string(b"abc"));
        s.push("(table)".into());
        s.push(lua_expr_wire("f()"));
        s
    };
    let mut out = leaves.clone();
    for op in UNOPS {
        for e in &leaves {
            out.push(un(op, e));
        }
    }
    for op in BINOPS {
        for l in &leaves {
            for r in &leaves {
                out.push(bin(op, l, r));
            }
        }
    }
    for e in &leaves {
        out.push(format!("(paren {})", e));
        out.push(format!("(cast {} {})", e, a.ty));
        out.push(format!("(interp (v {}))", e));
        out.push(format!("(interp (s x61) (v {}) (s x62))", e));
        out.push(format!("(table (pos {}))", e));
        out.push(format!("(table (keyed {} true))", e));
        out.push(format!("(table (named x6b {}) (pos (num f3ff0000000000000)))", e));
        // instantiation: the target must be a prefix
        out.push(format!("(inst (paren {}) {})", e, a.ty));
        out.push(format!("(inst (inst (paren {}) {}) {})", e, a.ty, a.ty));
    }
    for e in &a.opaque {
        if e != "vararg" {
            out.push(format!("(inst {} {})", e, a.ty));
            out.push(format!("(field {} x6b)", e));
            out.push(format!("(index {} (num f3ff0000000000000))", e));
            out.push(format!("(call {} - t)", e));
        }
    }
    for l in &leaves {
        for r in &small {
            out.push(format!("(interp (v {}) (v {}))", l, r));
            out.push(format!("(index (paren {}) {})", r, l));
        }
    }
    // if-expressions: condition over everything, results over the small alphabet; one elseif
    for c in &leaves {
        for t in &small {
            for e in &small {
                out.push(format!("(ifx {} {} () {})", c, t, e));
            }
        }
        for c2 in &small {
            for t2 in &small {
                out.push(format!("(ifx {} (num f4000000000000000) (({} {})) (num f4008000000000000))", c, c2, t2));
                out.push(format!("(ifx {} (num f4000000000000000) (({} {})) (num f4008000000000000))", c2, c, t2));
            }
        }
    }
    out
}

/// Directed cases of the source-text leg: every string of a list made for literal DECODING (control /
/// high bytes followed by digits and hex digits, quotes, backslashes, brackets, UTF-8 scalars, CR/LF) in
/// every spelling family (salt % 8) under the operators that consume the value, as quoted strings, as
/// interpolation segments and next to interpolated values; every number of a list in every number spelling
/// (salt / 8 % 8). Returned with the salt that selects the spelling.
fn directed_source_cases() -> Vec<(String, usize)> {
    let strings: Vec<&[u8]> = vec![
        b"\x001", b"\x0b1", b"\x7f0", b"a\x009", b"\n3", b"\r\n", b"\x00", b"\xff0", b"\xc3\xa91", b"\xe2\x82\xac",
        b"]]", b"a]=]b", b"\\n", b"\"", b"'", b"`{}", b"", b"1", b" 0x10 ", b"1e2", b"abc", b"\xff\xfe", b"\x1b[0m9",
        b"\tA\x0cF", b"12\x0034", b"\x7f\x80\x81", b"\xf0\x9f\x98\x80a", b"x\ny", b"  ", b"\x01\x02\x033",
    ];
    let numbers: [f64; 16] = [
        0.0, 1.0, 16.0, 255.0, 1000.0, 65536.0, 9007199254740991.0, 0.5, 0.1, 1e15, 1e100, 5e-324, 1e308, 123456.75, 3.0e-7, 4096.0,
    ];
    let mut out = Vec::new();
    for style in 0..STRING_STYLES {
        for (i, bytes) in strings.iter().enumerate() {
            let lit = string(bytes);
            let salt = style + STRING_STYLES * ((i + style) % NUMBER_STYLES);
            let seg = crate::model::hex(bytes);
            for w in [
                lit.clone(),
                un("len", &lit),
                bin("eq", &lit, &string(b"\n3")),
                bin("eq", &lit, &lit),
                bin("lt", &lit, &string(b"a")),
                bin("concat", &lit, &string(b"")),
                bin("concat", &num(1.0), &lit),
                bin("add", &lit, &num(0.0)),
                un("neg", &lit),
                format!("(interp (s {}))", seg),
                format!("(interp (s {}) (v (num f3ff0000000000000)))", seg),
                format!("(interp (v {}) (s {}))", lit, seg),
                format!("(un len (interp (s {}) (v true) (s {})))", seg, seg),
                format!("(index (var x74) {})", lit),
                format!("(table (keyed {} {}))", lit, lit),
                format!("(ifx (bin eq {} {}) {} () nil)", lit, lit, lit),
            ] {
                out.push((w, salt));
            }
        }
    }
    // byte strings whose byte order differs from any character order, compared with EACH OTHER
    let odd: Vec<&[u8]> = vec![
        b"\xfe", b"\x80", b"\xff\xff", b"\xef\xbf\xbd", b"\xef\xbf\xbe", b"\xf0\x9f\x98\x80", b"\xc3", b"\xc3\xa9",
        b"\xff", b"a\x80", b"a\xef\xbf\xbd", b"\xed\xa0\x80", b"z",
    ];
    for (i, l) in odd.iter().enumerate() {
        for (j, r) in odd.iter().enumerate() {
            for (o, op) in ["lt", "le", "gt", "ge", "eq"].iter().enumerate() {
                out.push((bin(op, &string(l), &string(r)), (i + 3 * j + o) % STRING_STYLES));
            }
        }
    }
    let mut numbers: Vec<f64> = numbers.to_vec();
    numbers.extend(LONG_NUMBER_TEXTS.iter().map(|t| t.parse::<f64>().unwrap()));
    for nstyle in 0..NUMBER_STYLES {
        for (i, v) in numbers.iter().enumerate() {
            let n = num(*v);
            let salt = (i % STRING_STYLES) + STRING_STYLES * nstyle;
            for w in [
                n.clone(),
                bin("add", &n, &num(0.0)),
                bin("eq", &n, &n),
                bin("concat", &n, &string(b"")),
                un("neg", &n),
                bin("lt", &n, &num(2.5)),
                format!("(interp (v {}))", n),
                bin("idiv", &n, &num(16.0)),
            ] {
                out.push((w, salt));
            }
        }
    }
    out
}

/// depth ≤ 1 over the reduced alphabet and operator-class representatives
fn reduced_depth1(a: &Alphabet) -> Vec<String> {
    let mut out = a.reduced.clone();
    for op in UNOPS {
        for e in &a.reduced {
            out.push(un(op, e));
        }
    }
    for op in BINOPS_REDUCED {
        for l in &a.reduced {
            for r in &a.reduced {
                out.push(bin(op, l, r));
            }
        }
    }
    out
}

/// the `index`-th depth-2 expression over the reduced alphabet
fn depth2_at(d1: &[String], index: usize) -> String {
    let n = d1.len();
    let binaries = BINOPS_REDUCED.len() * n * n;
    if index < binaries {
        let op = BINOPS_REDUCED[index / (n * n)];
        let rest = index % (n * n);
        bin(op, &d1[rest / n], &d1[rest % n])
    } else {
        let i = index - binaries;
        un(UNOPS[i / n], &d1[i % n])
    }
}

fn depth2_count(d1: &[String]) -> usize {
    BINOPS_REDUCED.len() * d1.len() * d1.len() + UNOPS.len() * d1.len()
}

fn random_string(rng: &mut Rng) -> Vec<u8> {
    const PIECES: [&[u8]; 33] = [
        b"0", b"1", b"9", b"x", b"X", b"e", b"E", b"p", b".", b"-", b"+", b" ", b"_", b"b", b"a", b"f", b"\t", b"inf", b"nan",
        b"\xc2\xa0", b"\xff", b"0x", b"10", b"\n",
        // invalid UTF-8 and valid sequences with a high lead byte (byte order vs character order)
        b"\xfe", b"\x80", b"\xc3", b"\xc3\xa9", b"\xef\xbf\xbd", b"\xef\xbf\xbe", b"\xf0\x9f\x98\x80",
        // integral mantissas above 2^53 (an exponent may follow)
        b"9007199254740993", b"18014398509481985",
    ];
    let n = rng.below(6);
    let mut out = Vec::new();
    for _ in 0..n {
        out.extend_from_slice(PIECES[rng.below(PIECES.len())]);
    }
    // keep clear of `0x…p<k>` literals whose value overflows u64 (compute_value panics in debug builds)
    out
}

fn random_number(rng: &mut Rng) -> f64 {
    match rng.below(6) {
        0 => rng.range(-3, 20) as f64,
        1 => (rng.range(-30, 30) as f64) / 8.0,
        2 => f64::from_bits(rng.next_u64()),
        3 => *rng.pick(&[1e15, 1e16, 1e21, 1e-5, 1e-4, 0.1, 0.2, 0.3, 1e-20, 2e-20, 1e300, 4.5e15, 2.220446049250313e-16, 12345678.9012345, 1.00000000000001, 0.123456789012345, 0.00012345678901234, 1234567.89012345, 99999999999999.0]),
        4 => (rng.range(0, 1 << 20) as f64) * 1e-3,
        _ => (rng.next_u64() >> 11) as f64,
    }
}

fn random_expr(rng: &mut Rng, a: &Alphabet, depth: u32) -> String {
    if depth == 0 || rng.chance(1, 6) {
        return match rng.below(10) {
            0..=2 => rng.pick(&a.literals).clone(),
            3..=4 => rng.pick(&a.opaque).clone(),
            5 => num(random_number(rng)),
            6 => string(&random_string(rng)),
            7 => rng.pick(&a.reduced).clone(),
            8 => num(rng.range(0, 3) as f64),
            _ => { let c: [&[u8]; 5] = [b"a", b"b", b"", b"1", b"2"]; string(c[rng.below(5)]) }
        };
    }
    let d = depth - 1;
    match rng.below(20) {
        0..=7 => {
            let op = BINOPS[rng.below(16)];
            bin(op, &random_expr(rng, a, d), &random_expr(rng, a, d))
        }
        8..=10 => un(UNOPS[rng.below(3)], &random_expr(rng, a, d)),
        11 => format!("(paren {})", random_expr(rng, a, d)),
        12 => format!("(cast {} {})", random_expr(rng, a, d), a.ty),
        13..=14 => {
            let n = rng.below(3);
            let mut elifs = String::new();
            for i in 0..n {
                if i > 0 {
                    elifs.push(' ');
                }
                elifs.push_str(&format!("({} {})", random_expr(rng, a, d), random_expr(rng, a, d)));
            }
            format!("(ifx {} {} ({}) {})", random_expr(rng, a, d), random_expr(rng, a, d), elifs, random_expr(rng, a, d))
        }
        15..=16 => {
            let n = rng.below(4);
            let mut segs = Vec::new();
            for _ in 0..n {
                if rng.chance(1, 2) {
                    { let c: [&[u8]; 4] = [b"a", b"", b" ", b"1"]; segs.push(format!("(s {})", crate::model::hex(c[rng.below(4)]))); }
                } else {
                    segs.push(format!("(v {})", random_expr(rng, a, d)));
                }
            }
            format!("(interp{}{})", if segs.is_empty() { "" } else { " " }, segs.join(" "))
        }
        17 => {
            let n = rng.below(3);
            let mut entries = Vec::new();
            for _ in 0..n {
                entries.push(match rng.below(3) {
                    0 => format!("(pos {})", random_expr(rng, a, d)),
                    1 => format!("(named x6b {})", random_expr(rng, a, d)),
                    _ => format!("(keyed {} {})", random_expr(rng, a, d), random_expr(rng, a, d)),
                });
            }
            format!("(table{}{})", if entries.is_empty() { "" } else { " " }, entries.join(" "))
        }
        18 => format!("(inst (paren {}) {})", random_expr(rng, a, d), a.ty),
        _ => match rng.below(4) {
            0 => format!("(field (paren {}) x6b)", random_expr(rng, a, d)),
            1 => format!("(index (paren {}) {})", random_expr(rng, a, d), random_expr(rng, a, d)),
            2 => format!("(call (var x66) - t {})", random_expr(rng, a, d)),
            _ => a.empty_fn.clone(),
        },
    }
}

// ---------------------------------------------------------------------------------------------
// oracle: execution on the reference semantics
// ---------------------------------------------------------------------------------------------

/// every way a case (or a part of its checks) can be left out; all are counted in the evidence
/// (histogram `skipped`), and all but the listed-known ones raise a violation
const SKIP_REASONS: &[&str] = &[
    "not-buildable",
    "evaluator-panic:UNEXPECTED",
    "oracle-run-timeout",
    "oracle-run-protocol-error",
    "e2e:program-not-buildable",
    "e2e:rule-error",
    "e2e:rule-panic:UNEXPECTED",
    "random-tree-over-6000-bytes(regenerated)",
    "source-leg:not-renderable(negative-or-non-finite-number-leaf)",
    "source-leg:renderer-vs-reference-reader",
    "source-leg:parse-error",
    "source-leg:parser-panic",
];

const HOLE: &str = "(var x5f5f484f4c45)"; // __HOLE

/// Lua preludes binding the opaque leaves; `__HOLE` is replaced by the expression
fn environments() -> Vec<(&'static str, String)> {
    let meta = r#"
local function mk(tag)
  local m = {}
  m.__index = function(t, k) emit(tag, "index") return 7 end
  m.__add = function(a, b) emit(tag, "add") return 1 end
  m.__sub = function(a, b) emit(tag, "sub") return 1 end
  m.__mul = function(a, b) emit(tag, "mul") return 1 end
  m.__div = function(a, b) emit(tag, "div") return 1 end
  m.__mod = function(a, b) emit(tag, "mod") return 1 end
  m.__pow = function(a, b) emit(tag, "pow") return 1 end
  m.__idiv = function(a, b) emit(tag, "idiv") return 1 end
  m.__unm = function(a) emit(tag, "unm") return 1 end
  m.__concat = function(a, b) emit(tag, "concat") return "c" end
  m.__len = function(a) emit(tag, "len") return 3 end
  m.__eq = function(a, b) emit(tag, "eq") return true end
  m.__lt = function(a, b) emit(tag, "lt") return true end
  m.__le = function(a, b) emit(tag, "le") return false end
  m.__call = function(self, ...) emit(tag, "call") return 1, 2 end
  m.__tostring = function(a) emit(tag, "tostring") return "obj" end
  return setmetatable({}, m)
end
"#;
    let body = "return (function(...) return __HOLE end)";
    let mut envs = Vec::new();
    envs.push((
        "meta",
        format!("{}local x = mk('x') local t = mk('t') local f = mk('f')\n{}(x, 2)", meta, body),
    ));
    envs.push((
        "number",
        format!("local x = 5 local t = {{ a = 1, 2, k = 'v' }} local function f(...) emit('f') return 1, 2 end\n{}()", body),
    ));
    envs.push((
        "nil",
        format!("local x = nil local t = {{}} local function f(...) emit('f') end\n{}(nil, false, 3)", body),
    ));
    envs.push((
        "string",
        format!("local x = '10' local t = {{ a = false }} local function f(...) emit('f') return f end\n{}('7')", body),
    ));
    envs.into_iter()
        .map(|(name, code)| {
            let block = exec::parse(&code).unwrap_or_else(|e| panic!("prelude {}: {}", name, e));
            let text = astsexp::block_to_sexp(&block);
            assert!(text.matches(HOLE).count() == 1, "prelude {} has no unique hole", name);
            (name, text)
        })
        .collect()
}

fn extern_list() -> String {
    let names: Vec<String> = crate::progen::EXTERNS.iter().map(|n| crate::model::hex(n.as_bytes())).collect();
    format!("({})", names.join(" "))
}

fn run_request(env_block: &str, expr: &str) -> String {
    format!("sem.run 12 {} {}", extern_list(), env_block.replace(HOLE, expr))
}

enum Outcome {
    Ok { values: Vec<Sexp>, events: usize },
    Err { events: usize },
    Other,
}

fn parse_outcome(text: &str) -> Outcome {
    let s = match Sexp::parse(text) {
        Ok(s) => s,
        Err(_) => return Outcome::Other,
    };
    let items = match s.list() {
        Some(l) => l,
        None => return Outcome::Other,
    };
    match (items.first().and_then(|h| h.atom()), items.len()) {
        (Some("ok"), 3) => match (items[1].list(), items[2].list()) {
            (Some(v), Some(e)) => Outcome::Ok { values: v.to_vec(), events: e.len() },
            _ => Outcome::Other,
        },
        (Some("err"), 3) => match items[2].list() {
            Some(e) => Outcome::Err { events: e.len() },
            None => Outcome::Other,
        },
        _ => Outcome::Other,
    }
}

/// does the executed value equal the evaluator's definite answer?
fn value_matches(expected: &str, got: &Sexp) -> bool {
    match expected {
        "nil" | "true" | "false" => got.atom() == Some(expected),
        "table" => got.head() == Some("tbl"),
        "function" => got.atom() == Some("fn"),
        _ => {
            let e = match Sexp::parse(expected) {
                Ok(e) => e,
                Err(_) => return false,
            };
            let l = e.list().unwrap();
            let arg = l[1].atom().unwrap();
            match l[0].atom() {
                // numbers: same double (all NaNs are one value; -0 and +0 are told apart)
                Some("num") => got.atom().map(canon_num_atom).as_deref() == Some(arg),
                Some("str") => got.atom() == Some(arg),
                _ => false,
            }
        }
    }
}

/// what the property demands of one run; `None` = satisfied
fn judge(real: &Answers, outcome: &Outcome) -> Option<String> {
    match outcome {
        Outcome::Other => None,
        Outcome::Err { events } => {
            if !real.se && *events > 0 {
                Some(format!("declared side-effect free but the (failing) run performed {} external call(s)", events))
            } else {
                None
            }
        }
        Outcome::Ok { values, events } => {
            if !real.se && *events > 0 {
                return Some(format!("declared side-effect free but the run performed {} external call(s)", events));
            }
            if !real.multi && values.len() != 1 {
                return Some(format!("declared single-valued but the run returned {} values", values.len()));
            }
            if real.definite() {
                if values.len() != 1 {
                    return Some(format!("evaluates to {} but the run returned {} values", real.value, values.len()));
                }
                if !value_matches(&real.value, &values[0]) {
                    return Some(format!("evaluates to {} but the run returned {}", real.value, values[0]));
                }
            }
            None
        }
    }
}

struct Ctx {
    envs: Vec<(&'static str, String)>,
    ty_wire: String,
    empty_fn: String,
    checked_literals: std::sync::Mutex<std::collections::HashSet<String>>,
}

fn has_opaque(expr: &str) -> bool {
    expr.contains("(var ") || expr.contains("vararg") || expr.contains("(call ") || expr.contains("(field ") || expr.contains("(index ")
}

/// run the oracle on the real answers; returns the first failure (environment, reason, outcome text)
fn oracle(model: &mut Model, ctx: &Ctx, real: &Answers, expr: &str, all_envs: bool, salt: usize, r: &mut Report) -> Option<(String, String, String)> {
    let picks: Vec<usize> = if !has_opaque(expr) {
        vec![1]
    } else if all_envs {
        (0..ctx.envs.len()).collect()
    } else {
        vec![0, 1 + salt % (ctx.envs.len() - 1)]
    };
    for i in picks {
        let (name, block) = &ctx.envs[i];
        let answer = model.ask(&run_request(block, expr));
        let outcome = parse_outcome(&answer);
        match &outcome {
            Outcome::Ok { .. } => r.hist("oracle_run", "ok"),
            Outcome::Err { .. } => r.hist("oracle_run", "error"),
            Outcome::Other => {
                if answer == "timeout" {
                    r.hist("oracle_run", "timeout");
                    r.hist("skipped", "oracle-run-timeout");
                } else {
                    r.hist("oracle_run", "protocol");
                    r.hist("skipped", "oracle-run-protocol-error");
                    r.violation(Violation {
                        kind: "correspondence".into(),
                        check: "harness:sem.run".into(),
                        what: format!("the reference semantics driver did not answer with an outcome: {}", answer.chars().take(120).collect::<String>()),
                        input: json!({"expr": expr, "environment": name}),
                        failing_input_found: false,
                    });
                }
            }
        }
        if let Some(why) = judge(real, &outcome) {
            return Some(((*name).to_owned(), why, answer));
        }
    }
    None
}

/// Which listed finding explains an oracle failure outside H8? None any more: F1–F4 are fixed, and the
/// remaining condition of H8 (`refeq`) never makes the execution oracle fail.
fn finding_for_tags(_tags: &[String], _why: &str) -> Option<&'static str> {
    None
}

fn subexpressions(expr: &str) -> Vec<String> {
    fn walk(s: &Sexp, out: &mut Vec<String>) {
        if let Some(items) = s.list() {
            let head = items.first().and_then(|h| h.atom()).unwrap_or("");
            if matches!(head, "bin" | "un" | "paren" | "ifx" | "interp" | "cast" | "inst" | "table" | "num" | "str" | "var" | "call" | "field" | "index") {
                out.push(s.to_string());
            }
            if !matches!(head, "fn" | "ty" | "num" | "str" | "var") {
                for i in items.iter().skip(1) {
                    walk(i, out);
                }
            }
        } else if matches!(s.atom(), Some("nil" | "true" | "false" | "vararg")) {
            out.push(s.to_string());
        }
    }
    let mut out = Vec::new();
    if let Ok(s) = Sexp::parse(expr) {
        walk(&s, &mut out);
    }
    out.sort_by_key(|s| s.len());
    out.dedup();
    out
}


// ---------------------------------------------------------------------------------------------
// source-text leg: the case rendered as Luau SOURCE by a renderer of our own, parsed by darklua
// ---------------------------------------------------------------------------------------------

/// Renders a wire expression as Luau source text. It shares nothing with darklua's generators or
/// `string_utils`: every string byte / number is spelled by the rules below, chosen by `style`.
/// Each rendered literal is recorded so that an independent reader (C13's reference decoder in the
/// Lean driver) can confirm that the text denotes the intended value.
struct Renderer<'a> {
    rng: Rng,
    /// 0..8 = fixed spelling family, 8 = random per byte / literal
    string_style: usize,
    number_style: usize,
    ty_wire: &'a str,
    empty_fn: &'a str,
    /// (kind "str" | "seg" | "num", literal text, intended value: hex bytes or f<bits>)
    literals: Vec<(&'static str, String, String)>,
}

const NUMBER_STYLES: usize = 9;

/// decimal texts with an integral mantissa above 2^53 and an exponent e1..e22: the double nearest to the
/// TEXT is not the product of the rounded mantissa by the power of ten (double rounding)
const LONG_NUMBER_TEXTS: [&str; 16] = [
    "9007199254740993e1", "9007199254740993e22", "18014398509481985e3", "123456789012345678e5", "99999999999999999e10",
    "9223372036854775807e7", "36028797018963969e15", "9007199254740995e2", "72057594037927937e1", "12345678901234567891e4",
    "9007199254740993E1", "144115188075855873e20", "9007199254740997e19", "288230376151711745e2", "10000000000000000001e21",
    "9007199254740999e11",
];
const STRING_STYLES: usize = 8;

fn is_plain(b: u8) -> bool {
    (0x20..0x7f).contains(&b) && b != b'\\' && b != b'"' && b != b'\'' && b != b'`' && b != b'{'
}

impl<'a> Renderer<'a> {
    fn letter_escape(b: u8) -> Option<&'static str> {
        Some(match b {
            b'\n' => "\\n",
            b'\t' => "\\t",
            b'\r' => "\\r",
            7 => "\\a",
            8 => "\\b",
            12 => "\\f",
            11 => "\\v",
            b'\\' => "\\\\",
            b'"' => "\\\"",
            b'\'' => "\\'",
            _ => return None,
        })
    }

    /// decimal escape: the shortest spelling that cannot absorb the next character, or 3 digits
    fn decimal_escape(b: u8, next_is_digit: bool, force3: bool) -> String {
        if force3 || next_is_digit {
            format!("\\{:03}", b)
        } else {
            format!("\\{}", b)
        }
    }

    /// the body of a quoted / backtick string for `bytes`; `quote` is the delimiter
    fn string_body(&mut self, bytes: &[u8], quote: u8) -> String {
        let mut out = String::new();
        let mut i = 0;
        while i < bytes.len() {
            let b = bytes[i];
            let next_digit = bytes.get(i + 1).map(|n| n.is_ascii_digit()).unwrap_or(false);
            let next_hex = bytes.get(i + 1).map(|n| n.is_ascii_hexdigit()).unwrap_or(false);
            let style = if self.string_style >= STRING_STYLES { self.rng.below(6) } else { self.string_style % 6 };
            // a valid UTF-8 scalar starting here?
            let scalar = std::str::from_utf8(&bytes[i..(i + 4).min(bytes.len())])
                .ok()
                .or_else(|| {
                    (1..4).rev().find_map(|n| std::str::from_utf8(&bytes[i..(i + n).min(bytes.len())]).ok())
                })
                .and_then(|t| t.chars().next());
            let must_escape = !is_plain(b) && !(b == b'"' && quote != b'"') && !(b == b'\'' && quote != b'\'')
                && !(b == b'`' && quote != b'`') && !(b == b'{' && quote != b'`');
            match style {
                // natural: plain bytes raw, the rest as the shortest legal decimal escape
                0 => {
                    if !must_escape {
                        out.push(b as char);
                    } else if b == quote || b == b'\\' || (b == b'{' && quote == b'`') {
                        out.push('\\');
                        out.push(b as char);
                    } else {
                        out.push_str(&Self::decimal_escape(b, next_digit, false));
                    }
                }
                // every byte as a three-digit decimal escape (so `\ddd` is often followed by a digit)
                1 => out.push_str(&Self::decimal_escape(b, next_digit, true)),
                // every byte as \xHH (often followed by a hex digit)
                2 => out.push_str(&format!("\\x{:02x}", b)),
                // letter escapes where they exist, plain otherwise, else \ddd
                3 => {
                    if let Some(e) = Self::letter_escape(b) {
                        out.push_str(e);
                    } else if !must_escape {
                        out.push(b as char);
                    } else if b == b'`' || b == b'{' {
                        out.push('\\');
                        out.push(b as char);
                    } else {
                        out.push_str(&Self::decimal_escape(b, next_digit, false));
                    }
                }
                // \u{…} for scalars (with leading zeros sometimes), \xHH for the rest
                4 => {
                    if let Some(c) = scalar {
                        let zeros = ["", "0", "000"][self.rng.below(3)];
                        out.push_str(&format!("\\u{{{}{:x}}}", zeros, c as u32));
                        i += c.len_utf8();
                        continue;
                    }
                    out.push_str(&format!("\\x{:02X}", b));
                    let _ = next_hex;
                }
                // \z + white space between pieces, line continuation for a newline byte, upper-case hex
                _ => {
                    if b == b'\n' {
                        out.push_str("\\\n");
                    } else if !must_escape {
                        out.push(b as char);
                    } else if b == quote || b == b'\\' || (b == b'{' && quote == b'`') {
                        out.push('\\');
                        out.push(b as char);
                    } else {
                        out.push_str(&Self::decimal_escape(b, next_digit, false));
                    }
                    // `\z` skips the white space that follows it (never before a space byte of the value)
                    if bytes.get(i + 1).map(|n| !n.is_ascii_whitespace()).unwrap_or(true) {
                        out.push_str(["", "\\z ", "\\z \n\t "][self.rng.below(3)]);
                    }
                }
            }
            i += 1;
        }
        out
    }

    fn string_literal(&mut self, bytes: &[u8]) -> String {
        let family = if self.string_style >= STRING_STYLES { self.rng.below(STRING_STYLES) } else { self.string_style };
        // long brackets when the content allows it
        if family == 7 {
            let printable = bytes.iter().all(|b| (0x20..0x7f).contains(b) || *b == b'\n');
            if printable && bytes.first() != Some(&b'\n') {
                let content = String::from_utf8(bytes.to_vec()).unwrap();
                for level in 0..3 {
                    let close = format!("]{}]", "=".repeat(level));
                    let whole = format!("{}{}", content, close);
                    if whole.find(&close) == Some(content.len()) {
                        let text = format!("[{}[{}{}", "=".repeat(level), content, close);
                        self.literals.push(("str", text.clone(), crate::model::hex(bytes)));
                        return text;
                    }
                }
            }
        }
        let quote = if family == 6 || (family >= STRING_STYLES && self.rng.chance(1, 2)) { b'\'' } else { b'"' };
        let saved = self.string_style;
        if family == 6 || family == 7 {
            self.string_style = 0;
        }
        let body = self.string_body(bytes, quote);
        self.string_style = saved;
        let text = format!("{}{}{}", quote as char, body, quote as char);
        self.literals.push(("str", text.clone(), crate::model::hex(bytes)));
        text
    }

    fn group3(digits: &str) -> String {
        let mut out = String::new();
        for (i, c) in digits.chars().enumerate() {
            if i > 0 && (digits.len() - i) % 3 == 0 {
                out.push('_');
            }
            out.push(c);
        }
        out
    }

    fn number_literal(&mut self, bits: u64) -> Result<String, &'static str> {
        let v = f64::from_bits(bits);
        if !v.is_finite() || v.is_sign_negative() {
            return Err("negative-or-non-finite-number-leaf");
        }
        let style = if self.number_style >= NUMBER_STYLES { self.rng.below(NUMBER_STYLES) } else { self.number_style };
        let integer = v.fract() == 0.0 && v < 9007199254740992.0;
        let int = v as u64;
        let natural = format!("{:?}", v);
        // long spelling: a 17–19 digit integral mantissa and an exponent e1..e22 denoting exactly this double
        let long = || -> Option<String> {
            for t in LONG_NUMBER_TEXTS {
                if t.parse::<f64>().ok().map(f64::to_bits) == Some(bits) {
                    return Some(t.to_owned());
                }
            }
            if !(v >= 1e18 && v < 1.0e38 && v.fract() == 0.0) {
                return None;
            }
            let exact = v as u128; // integral doubles below 2^127 convert exactly
            let digits = exact.to_string().len() as u32;
            let k = digits.saturating_sub(18).clamp(1, 22);
            let m0 = exact / 10u128.pow(k);
            for m in [m0 + 1, m0, m0 + 2, m0.saturating_sub(1)] {
                let len = m.to_string().len();
                let t = format!("{}e{}", m, k);
                if (17..=19).contains(&len) && t.parse::<f64>().ok().map(f64::to_bits) == Some(bits) {
                    return Some(t);
                }
            }
            None
        };
        let text = match style {
            8 => long().unwrap_or_else(|| natural.clone()),
            1 => format!("{:e}", v),
            2 if integer => format!("0x{:x}", int),
            3 if integer => format!("0b{:b}", int),
            4 if integer => Self::group3(&format!("{}", int)),
            5 if natural.starts_with("0.") => natural[1..].to_owned(),
            6 => format!("{:E}", v),
            // (Luau has no hexadecimal floats: no `p` exponent)
            7 if integer => format!("0X{:X}", int),
            _ => natural,
        };
        self.literals.push(("num", text.clone(), format!("f{:016x}", bits)));
        Ok(text)
    }

    fn is_leaf(s: &Sexp) -> bool {
        match s {
            Sexp::Atom(_) => true,
            Sexp::List(l) => matches!(l.first().and_then(|h| h.atom()), Some("num" | "str" | "var")),
        }
    }

    fn operand(&mut self, s: &Sexp) -> Result<String, &'static str> {
        let text = self.render(s)?;
        Ok(if Self::is_leaf(s) { text } else { format!("({})", text) })
    }

    /// something that may be followed by `.k`, `[k]`, `(args)`, `<<T>>`
    fn prefix(&mut self, s: &Sexp) -> Result<String, &'static str> {
        let text = self.render(s)?;
        Ok(match s.head() {
            Some("var" | "call" | "field" | "index" | "paren") => text,
            _ => format!("({})", text),
        })
    }

    fn name(atom: &Sexp) -> Result<String, &'static str> {
        let n = atom.atom().and_then(astsexp::unhex_name).ok_or("name")?;
        if n.is_empty() || !n.bytes().all(|b| b.is_ascii_alphanumeric() || b == b'_') || n.as_bytes()[0].is_ascii_digit() {
            return Err("name-not-an-identifier");
        }
        Ok(n)
    }

    fn render(&mut self, s: &Sexp) -> Result<String, &'static str> {
        let items = match s {
            Sexp::Atom(a) => {
                return match a.as_str() {
                    "nil" | "true" | "false" => Ok(a.clone()),
                    "vararg" => Ok("...".into()),
                    _ => Err("atom"),
                }
            }
            Sexp::List(items) => items,
        };
        let head = s.head().ok_or("headless")?;
        match (head, &items[1..]) {
            ("num", [bits]) => {
                let bits = bits.atom().and_then(|a| a.strip_prefix('f')).and_then(|d| u64::from_str_radix(d, 16).ok()).ok_or("num")?;
                self.number_literal(bits)
            }
            ("str", [bytes]) => {
                let bytes = bytes.atom().and_then(crate::model::unhex).ok_or("str")?;
                Ok(self.string_literal(&bytes))
            }
            ("var", [n]) => Self::name(n),
            ("paren", [e]) => Ok(format!("({})", self.render(e)?)),
            ("un", [op, e]) => {
                let op = match op.atom() {
                    Some("neg") => "-",
                    Some("not") => "not ",
                    Some("len") => "#",
                    _ => return Err("unop"),
                };
                Ok(format!("{}{}", op, self.operand(e)?))
            }
            ("bin", [op, l, r]) => {
                let op = match op.atom().ok_or("binop")? {
                    "and" => "and", "or" => "or", "eq" => "==", "ne" => "~=", "lt" => "<", "le" => "<=", "gt" => ">",
                    "ge" => ">=", "add" => "+", "sub" => "-", "mul" => "*", "div" => "/", "idiv" => "//", "mod" => "%",
                    "pow" => "^", "concat" => "..",
                    _ => return Err("binop"),
                };
                Ok(format!("{} {} {}", self.operand(l)?, op, self.operand(r)?))
            }
            ("call", [f, method, kind, args @ ..]) => {
                if kind.atom() != Some("t") {
                    return Err("call-with-string-or-table-argument-syntax");
                }
                let mut out = self.prefix(f)?;
                if method.atom() != Some("-") {
                    out.push(':');
                    out.push_str(&Self::name(method)?);
                }
                let args = args.iter().map(|a| self.render(a)).collect::<Result<Vec<_>, _>>()?;
                Ok(format!("{}({})", out, args.join(", ")))
            }
            ("field", [e, n]) => Ok(format!("{}.{}", self.prefix(e)?, Self::name(n)?)),
            ("index", [e, k]) => Ok(format!("{}[ {} ]", self.prefix(e)?, self.render(k)?)),
            ("fn", _) => {
                if s.to_string() == self.empty_fn {
                    Ok("function() end".into())
                } else {
                    Err("function-with-a-body")
                }
            }
            ("table", entries) => {
                let mut parts = Vec::new();
                for entry in entries {
                    let l = entry.list().ok_or("entry")?;
                    parts.push(match (entry.head(), &l[1..]) {
                        (Some("pos"), [v]) => self.render(v)?,
                        (Some("named"), [k, v]) => format!("{} = {}", Self::name(k)?, self.render(v)?),
                        (Some("keyed"), [k, v]) => format!("[ {} ] = {}", self.render(k)?, self.render(v)?),
                        _ => return Err("entry"),
                    });
                }
                Ok(format!("{{ {} }}", parts.join(", ")))
            }
            ("ifx", [c, t, elifs, e]) => {
                let mut out = format!("if {} then {}", self.render(c)?, self.render(t)?);
                for branch in elifs.list().ok_or("elifs")? {
                    match branch.list().ok_or("elif")? {
                        [c, t] => out.push_str(&format!(" elseif {} then {}", self.render(c)?, self.render(t)?)),
                        _ => return Err("elif"),
                    }
                }
                Ok(format!("{} else {}", out, self.render(e)?))
            }
            ("interp", segments) => {
                let mut out = String::from("`");
                // adjacent string segments are one run of text in source
                let merged = match normal_form(&Sexp::List(
                    std::iter::once(Sexp::Atom("interp".into())).chain(segments.iter().map(|g| match g.head() {
                        // keep value segments opaque for the merge (their parentheses must stay)
                        Some("v") => Sexp::List(vec![Sexp::Atom("v".into()), Sexp::Atom(format!("@{}", g.list().unwrap()[1]))]),
                        _ => g.clone(),
                    })).collect(),
                )) {
                    Sexp::List(l) => l,
                    _ => return Err("interp"),
                };
                let restored: Vec<Sexp> = merged[1..]
                    .iter()
                    .map(|g| match (g.head(), g.list().and_then(|l| l.get(1)).and_then(|a| a.atom())) {
                        (Some("v"), Some(a)) if a.starts_with('@') => {
                            Sexp::List(vec![Sexp::Atom("v".into()), Sexp::parse(&a[1..]).unwrap_or(Sexp::Atom("nil".into()))])
                        }
                        _ => g.clone(),
                    })
                    .collect();
                for segment in &restored {
                    let l = segment.list().ok_or("segment")?;
                    match (segment.head(), &l[1..]) {
                        (Some("s"), [bytes]) => {
                            let bytes = bytes.atom().and_then(crate::model::unhex).ok_or("seg")?;
                            let saved = self.string_style;
                            if self.string_style == 6 || self.string_style == 7 {
                                self.string_style = 0;
                            }
                            let body = self.string_body(&bytes, b'`');
                            self.string_style = saved;
                            self.literals.push(("seg", body.clone(), crate::model::hex(&bytes)));
                            out.push_str(&body);
                        }
                        (Some("v"), [e]) => {
                            out.push('{');
                            out.push_str(&self.operand(e)?);
                            out.push('}');
                        }
                        _ => return Err("segment"),
                    }
                }
                out.push('`');
                Ok(out)
            }
            ("cast", [e, ty]) => {
                if ty.to_string() != self.ty_wire {
                    return Err("type-other-than-number");
                }
                Ok(format!("{} :: number", self.operand(e)?))
            }
            ("inst", [e, types @ ..]) => {
                if types.len() != 1 || types[0].to_string() != self.ty_wire {
                    return Err("type-other-than-number");
                }
                Ok(format!("{}<<number>>", self.prefix(e)?))
            }
            _ => Err("node"),
        }
    }
}

/// the tree without parentheses, with adjacent string segments of an interpolation merged and empty
/// ones dropped (what a parser necessarily does): intended and parsed trees are compared in this form
fn normal_form(s: &Sexp) -> Sexp {
    match s {
        Sexp::Atom(_) => s.clone(),
        Sexp::List(items) => {
            let head = items.first().and_then(|h| h.atom()).unwrap_or("");
            if head == "paren" && items.len() == 2 {
                return normal_form(&items[1]);
            }
            if matches!(head, "ty" | "fn" | "num" | "str" | "var") {
                return s.clone();
            }
            let kids: Vec<Sexp> = items.iter().map(normal_form).collect();
            if head == "interp" {
                let mut out: Vec<Sexp> = vec![kids[0].clone()];
                let mut pending: Vec<u8> = Vec::new();
                let flush = |pending: &mut Vec<u8>, out: &mut Vec<Sexp>| {
                    if !pending.is_empty() {
                        out.push(Sexp::List(vec![Sexp::Atom("s".into()), Sexp::Atom(crate::model::hex(pending))]));
                        pending.clear();
                    }
                };
                for seg in &kids[1..] {
                    if seg.head() == Some("s") {
                        if let Some(bytes) = seg.list().and_then(|l| l.get(1)).and_then(|a| a.atom()).and_then(crate::model::unhex) {
                            pending.extend(bytes);
                            continue;
                        }
                    }
                    flush(&mut pending, &mut out);
                    out.push(seg.clone());
                }
                flush(&mut pending, &mut out);
                return Sexp::List(out);
            }
            Sexp::List(kids)
        }
    }
}

/// The source-text leg of one case. `real_value` are the real Evaluator's answers on the by-value tree.
fn source_leg(model: &mut Model, ctx: &Ctx, r: &mut Report, wire: &str, real_value: &Answers, label: &str, salt: usize) {
    let tree = match Sexp::parse(wire) {
        Ok(t) => t,
        Err(_) => return,
    };
    let random = label == "random";
    let mut renderer = Renderer {
        rng: Rng::new(r.seed.wrapping_mul(0x9E37).wrapping_add(salt as u64).wrapping_add(77)),
        string_style: if random { STRING_STYLES } else { salt % STRING_STYLES },
        number_style: if random { NUMBER_STYLES } else { (salt / STRING_STYLES) % NUMBER_STYLES },
        ty_wire: &ctx.ty_wire,
        empty_fn: &ctx.empty_fn,
        literals: Vec::new(),
    };
    let text = match renderer.render(&tree) {
        Ok(t) => t,
        Err(why) => {
            r.hist("skipped", &format!("source-leg:not-renderable({})", why));
            return;
        }
    };
    let source = format!("return {}", text);
    // (0) an independent reader confirms what the renderer wrote (C13's reference decoder, Lean)
    for (kind, literal, intended) in &renderer.literals {
        let key = format!("{}:{}", kind, literal);
        if ctx.checked_literals.lock().unwrap().contains(&key) {
            continue;
        }
        let answer = match *kind {
            "str" => model.ask(&format!("c13.decode luau {}", crate::model::hex(literal.as_bytes()))),
            "seg" => model.ask(&format!("c13.dseg {}", crate::model::hex(format!("{}`", literal).as_bytes()))),
            _ => model.ask(&format!("c13.nval {}", crate::model::hex(literal.as_bytes()))),
        };
        let ok = match *kind {
            "str" => answer == format!("some {}", intended),
            "seg" => answer == format!("some {} {}", intended, crate::model::hex(b"`")),
            _ => answer.trim_start_matches("some ").trim_start_matches("some:") == intended,
        };
        if !ok {
            r.hist("skipped", "source-leg:renderer-vs-reference-reader");
            r.violation(Violation {
                kind: "correspondence".into(),
                check: "harness:source-renderer".into(),
                what: format!("the harness spelled a {} literal that the reference reader (C13 Spec) does not read back as the intended value: {}", kind, answer),
                input: json!({"literal": literal, "intended": intended, "source": source}),
                failing_input_found: false,
            });
            return;
        }
        let mut seen = ctx.checked_literals.lock().unwrap();
        if seen.len() < 200_000 {
            seen.insert(key);
        }
    }
    r.hist("source_leg", "rendered");
    judge_source(model, ctx, r, wire, &tree, real_value, &source);
}

/// `source` is Luau text denoting the value-level tree `wire`: parse it with darklua's parser and judge the
/// real Evaluator on the parsed expression.
fn judge_source(model: &mut Model, ctx: &Ctx, r: &mut Report, wire: &str, tree: &Sexp, real_value: &Answers, source: &str) {
    // (1) darklua's own parser reads the text
    let parsed = std::panic::catch_unwind(|| exec::parse(source));
    let block = match parsed {
        Ok(Ok(b)) => b,
        Ok(Err(why)) => {
            r.hist("skipped", "source-leg:parse-error");
            r.violation(Violation {
                kind: "correspondence".into(),
                check: "source:parse-error".into(),
                what: format!("darklua's parser refuses Luau source written by the harness: {}", why.chars().take(160).collect::<String>()),
                input: json!({"source": source, "expr": wire}),
                failing_input_found: false,
            });
            return;
        }
        Err(_) => {
            r.hist("skipped", "source-leg:parser-panic");
            r.violation(Violation {
                kind: "correspondence".into(),
                check: "source:parser-panic".into(),
                what: "darklua's parser panics on Luau source written by the harness".into(),
                input: json!({"source": source, "expr": wire}),
                failing_input_found: false,
            });
            return;
        }
    };
    let parsed_expr = match block.get_last_statement() {
        Some(LastStatement::Return(ret)) => match ret.iter_expressions().next() {
            Some(e) => e.clone(),
            None => return,
        },
        _ => return,
    };
    let parsed_wire = astsexp::expr_to_sexp(&parsed_expr);
    let same_tree = Sexp::parse(&parsed_wire).map(|p| normal_form(&p) == normal_form(tree)).unwrap_or(false);
    let real_source = real_answers(&parsed_expr);
    let same_answers = real_source.as_ref() == Some(real_value);
    if same_tree && same_answers {
        r.hist("source_leg", "agrees");
        return;
    }
    r.hist("source_leg", if same_tree { "answers-differ" } else { "tree-differs" });
    // the evaluator is now judged on the SOURCE expression: its answers against execution of the
    // expression the text denotes (the intended value-level tree, on the reference semantics)
    let failure = match &real_source {
        Some(answers) => oracle(model, ctx, answers, wire, true, 0, r).map(|f| (answers.text(), f)),
        None => None,
    };
    match failure {
        Some((answers, (env, why, outcome))) => r.violation(Violation {
            kind: "oracle".into(),
            check: "source:evaluator-vs-execution".into(),
            what: format!("on the expression PARSED FROM SOURCE the real evaluator disagrees with execution: {} (environment {})", why, env),
            input: json!({"source": source, "denotes": wire, "parsed_tree": parsed_wire, "real_on_source": answers, "real_on_value_tree": real_value.text(), "outcome": outcome}),
            failing_input_found: true,
        }),
        None => r.violation(Violation {
            kind: "correspondence".into(),
            check: "source:value-tree".into(),
            what: if real_source.is_none() {
                "the real evaluator panics on the expression parsed from source".to_owned()
            } else if same_tree {
                "the real evaluator answers differently on the parsed source than on the same tree built by value".to_owned()
            } else {
                "darklua's parser reads the source as another tree than the one it denotes (literal decoding)".to_owned()
            },
            input: json!({"source": source, "denotes": wire, "parsed_tree": parsed_wire, "real_on_source": real_source.map(|a| a.text()), "real_on_value_tree": real_value.text()}),
            failing_input_found: false,
        }),
    }
}

/// one case: correspondence + oracle. Returns true when the case was evaluated.
fn check_case(model: &mut Model, ctx: &Ctx, r: &mut Report, wire: &str, source: &str, all_envs: bool, salt: usize) {
    let expr = match astsexp::sexp_to_expr(wire) {
        Ok(e) => e,
        Err(why) => {
            // the generators only emit buildable trees: a refusal is a break of the codec tie, not a case to drop
            r.hist("skipped", "not-buildable");
            r.violation(Violation {
                kind: "correspondence".into(),
                check: "harness:not-buildable".into(),
                what: format!("the wire expression cannot be rebuilt as a darklua Expression ({}): the case would be dropped", why),
                input: json!({"expr": wire, "source": source}),
                failing_input_found: false,
            });
            return;
        }
    };
    // the tree the real evaluator sees, re-encoded: model and semantics get exactly this text
    let wire = astsexp::expr_to_sexp(&expr);
    let real = match real_answers(&expr) {
        Some(a) => a,
        None => {
            // The real Evaluator took the process down where the model answers: never excused
            // (the hex-exponent overflow C08-P1 = C12-F10, once the only panic, is fixed).
            r.count("evaluator_panics", 1);
            r.hist("skipped", "evaluator-panic:UNEXPECTED");
            let model_text = model.ask(&format!("c08.eval {}", wire));
            // smallest panicking sub-expression
            let mut smallest = wire.clone();
            for sub in subexpressions(&wire) {
                if let Ok(e) = astsexp::sexp_to_expr(&sub) {
                    if real_answers(&e).is_none() {
                        smallest = sub;
                        break;
                    }
                }
            }
            let small_model = model.ask(&format!("c08.eval {}", smallest));
            r.violation(Violation {
                kind: "correspondence".into(),
                check: "evaluator-panic".into(),
                what: "the real Evaluator PANICS on an expression for which the Lean model returns an answer: the evaluator assigns nothing and takes the process down (the expression is a failing input of crash freedom, property C12)".into(),
                input: json!({"expr": smallest, "within": wire, "real": "panic", "model": small_model, "model_within": model_text}),
                failing_input_found: false,
            });
            return;
        }
    };
    let model_text = model.ask(&format!("c08.eval {}", wire));
    let modelled = parse_model_answers(&model_text);
    let agrees = modelled.as_ref() == Some(&real);
    let bucket = if real.definite() { "definite" } else { "unknown" };
    r.hist("real_value", bucket);
    r.hist("real_flags", &format!("se={} multi={}", real.se, real.multi));
    r.hist("source", source);
    let nontrivial = real.definite() || !real.se || !real.multi;
    r.case(if nontrivial && wire.starts_with('(') { Some(&wire) } else { None });
    if r.samples.len() < 2 && real.definite() && wire.len() > 60 {
        r.sample(json!({"expr": wire, "real": real.text(), "model": model_text}));
    }

    let failure = oracle(model, ctx, &real, &wire, all_envs || !agrees, salt, r);
    source_leg(model, ctx, r, &wire, &real, source, salt);

    if !agrees {
        // search: this input, then its sub-expressions, for an input on which the REAL evaluator breaks the property
        let mut found = failure.clone().map(|f| (wire.clone(), real.clone(), f));
        if found.is_none() {
            for sub in subexpressions(&wire) {
                if let Ok(e) = astsexp::sexp_to_expr(&sub) {
                    if let Some(a) = real_answers(&e) {
                        if let Some(f) = oracle(model, ctx, &a, &sub, true, 0, r) {
                            found = Some((sub, a, f));
                            break;
                        }
                    }
                }
            }
        }
        // smallest disagreeing sub-expression, for the report
        let mut smallest = wire.clone();
        let mut smallest_answers = (real.text(), model_text.clone());
        for sub in subexpressions(&wire) {
            if let Ok(e) = astsexp::sexp_to_expr(&sub) {
                if let Some(a) = real_answers(&e) {
                    let m = model.ask(&format!("c08.eval {}", astsexp::expr_to_sexp(&e)));
                    if parse_model_answers(&m).as_ref() != Some(&a) {
                        smallest = sub;
                        smallest_answers = (a.text(), m);
                        break;
                    }
                }
            }
        }
        match found {
            Some((input, answers, (env, why, outcome))) => {
                // is it one of the listed defects? then the disagreement is elsewhere; still a violation of the tie
                r.violation(Violation {
                    kind: "oracle".into(),
                    check: "evaluator-vs-execution".into(),
                    what: format!("the real evaluator disagrees with execution ({}; environment {}) — found while chasing a model/code disagreement", why, env),
                    input: json!({"expr": input, "real": answers.text(), "environment": env, "outcome": outcome, "disagreeing_expr": smallest}),
                    failing_input_found: true,
                });
            }
            None => {
                r.violation(Violation {
                    kind: "correspondence".into(),
                    check: "model-vs-evaluator".into(),
                    what: "the Lean evaluator model and the real Evaluator give different answers; the theorems about the model no longer speak about this code".into(),
                    input: json!({"expr": smallest, "within": wire, "real": smallest_answers.0, "model": smallest_answers.1}),
                    failing_input_found: false,
                });
            }
        }
        return;
    }

    if let Some((env, why, outcome)) = failure {
        // inside the proved region?
        let h = model.ask(&format!("c08.h {}", wire));
        let tags: Vec<String> = Sexp::parse(&h)
            .ok()
            .and_then(|s| s.list().map(|l| l.iter().filter_map(|x| x.atom().map(|a| a.to_owned())).collect()))
            .unwrap_or_default();
        let inside = tags.first().map(|t| t == "true").unwrap_or(false);
        let finding = if inside { None } else { finding_for_tags(&tags[1..], &why) };
        match finding {
            Some(id) => {
                r.hist("outside_H8_failures", id);
            }
            None => {
                r.violation(Violation {
                    kind: "oracle".into(),
                    check: "evaluator-vs-execution".into(),
                    what: format!("the real evaluator disagrees with execution on the reference semantics: {} (environment {}; H8 = {})", why, env, h),
                    input: json!({"expr": wire, "real": real.text(), "environment": env, "outcome": outcome}),
                    failing_input_found: true,
                });
            }
        }
    }
}

/// End to end through the real `compute_expression` rule: the program `<prelude> return <e>` before and
/// after the rule must behave the same on the reference semantics when the original run is error-free.
/// Differences outside H8 are the listed findings; a different NUMBER of returned values is finding F5
/// (C01: `true and ...` folded to `...`), attributed, not raised here.
fn end_to_end(model: &mut Model, ctx: &Ctx, r: &mut Report, wire: &str, rule: &dyn darklua_core::rules::Rule) {
    let (env_name, env_block) = &ctx.envs[1];
    let program = env_block.replace(HOLE, wire);
    let block0 = match astsexp::sexp_to_block(&program) {
        Ok(b) => b,
        Err(why) => {
            r.hist("skipped", "e2e:program-not-buildable");
            r.violation(Violation {
                kind: "correspondence".into(),
                check: "harness:e2e-not-buildable".into(),
                what: format!("the end-to-end program cannot be rebuilt as a darklua Block ({})", why),
                input: json!({"expr": wire}),
                failing_input_found: false,
            });
            return;
        }
    };
    let mut block1 = block0.clone();
    let resources = darklua_core::Resources::from_memory();
    let applied = std::panic::catch_unwind(std::panic::AssertUnwindSafe(|| {
        let context = darklua_core::rules::ContextBuilder::new("src/test.lua", &resources, "").build();
        rule.process(&mut block1, &context)
    }));
    match applied {
        Ok(Ok(())) => {}
        Ok(Err(why)) => {
            // compute_expression has no failing path: an error is unexpected
            r.hist("skipped", "e2e:rule-error");
            r.violation(Violation {
                kind: "correspondence".into(),
                check: "e2e:rule-error".into(),
                what: format!("the real compute_expression rule returned an error: {}", why),
                input: json!({"expr": wire}),
                failing_input_found: false,
            });
            return;
        }
        Err(_) => {
            r.count("e2e_rule_panics", 1);
            {
                r.hist("skipped", "e2e:rule-panic:UNEXPECTED");
                r.violation(Violation {
                    kind: "correspondence".into(),
                    check: "e2e:rule-panic".into(),
                    what: "the real compute_expression rule PANICS on `return <e>` (through the Evaluator) where the Lean model returns an answer".into(),
                    input: json!({"expr": wire, "model": model.ask(&format!("c08.eval {}", wire))}),
                    failing_input_found: false,
                });
            }
            return;
        }
    }
    let text1 = astsexp::block_to_sexp(&block1);
    if text1 == astsexp::block_to_sexp(&block0) {
        r.hist("e2e", "unchanged");
        return;
    }
    let o0 = model.ask(&format!("sem.run 12 {} {}", extern_list(), astsexp::block_to_sexp(&block0)));
    if !o0.starts_with("(ok ") {
        r.hist("e2e", "original-not-error-free");
        return;
    }
    let o1 = model.ask(&format!("sem.run 12 {} {}", extern_list(), text1));
    let canon = |o: &str| -> String {
        // all NaNs are one value
        let mut out = String::new();
        for tok in o.split_inclusive(|c: char| c == ' ' || c == '(' || c == ')') {
            let (body, sep) = tok.split_at(tok.len() - tok.chars().last().map(|c| if c == ' ' || c == '(' || c == ')' { c.len_utf8() } else { 0 }).unwrap_or(0));
            if body.len() == 17 && body.starts_with('f') {
                out.push_str(&canon_num_atom(body));
            } else {
                out.push_str(body);
            }
            out.push_str(sep);
        }
        out
    };
    if canon(&o0) == canon(&o1) {
        r.hist("e2e", "folded-same-behaviour");
        return;
    }
    let count = |o: &str| parse_outcome_values(o);
    if count(&o0) != count(&o1) {
        r.hist("e2e", "value-count-differs(F5,C01)");
        if r.counters.get("e2e_f5_samples").copied().unwrap_or(0) < 2 {
            r.count("e2e_f5_samples", 1);
            r.notes.push(format!("F5 (C01) seen end-to-end: return {} -> {} / {}", wire, o0, o1));
        }
        return;
    }
    if has_f5_shape(wire) {
        // `a and f()` / `a or ...` folded to the multi-valued right operand in a multi-value position
        // (last table entry, last argument): C01's finding F5 again
        r.hist("e2e", "differs-with-F5-shape(C01)");
        return;
    }
    r.violation(Violation {
        kind: "oracle".into(),
        check: "e2e:compute_expression".into(),
        what: format!("`return <e>` behaves differently after the real compute_expression rule (environment {})", env_name),
        input: json!({"expr": wire, "original_outcome": o0, "transformed_outcome": o1, "transformed": text1}),
        failing_input_found: true,
    });
}

/// an `and`/`or` whose right operand can yield several values (finding F5 of C01 may apply)
fn has_f5_shape(wire: &str) -> bool {
    fn walk(s: &Sexp) -> bool {
        if let Some(items) = s.list() {
            if items.len() == 4 && items[0].atom() == Some("bin") && matches!(items[1].atom(), Some("and" | "or")) {
                let right = &items[3];
                if right.atom() == Some("vararg") || right.head() == Some("call") {
                    return true;
                }
            }
            items.iter().any(walk)
        } else {
            false
        }
    }
    Sexp::parse(wire).map(|s| walk(&s)).unwrap_or(false)
}

fn parse_outcome_values(o: &str) -> Option<usize> {
    match parse_outcome(o) {
        Outcome::Ok { values, .. } => Some(values.len()),
        _ => None,
    }
}

fn replay_known_findings(model: &mut Model, ctx: &Ctx, r: &mut Report) {
    for entry in report::known_findings("C08") {
        if entry["status"].as_str() != Some("known") {
            continue; // a fixed entry suppresses nothing and is not replayed as a finding (its witness is in the corpus)
        }
        let id = entry["id"].as_str().unwrap_or("?").to_owned();
        let wire = match entry["witness"]["expr"].as_str() {
            Some(w) => w.to_owned(),
            None => continue,
        };
        let expr = match astsexp::sexp_to_expr(&wire) {
            Ok(e) => e,
            Err(_) => continue,
        };
        let wire = astsexp::expr_to_sexp(&expr);
        let real = match real_answers(&expr) {
            Some(a) => {
                if entry["witness"]["panics"].as_bool() == Some(true) {
                    continue; // no longer panics: say nothing
                }
                a
            }
            None => {
                if entry["witness"]["panics"].as_bool() == Some(true) {
                    r.known_finding(&id, &format!("{} — the real Evaluator panics; the model answers {}", entry["source"].as_str().unwrap_or(""), model.ask(&format!("c08.eval {}", wire))));
                }
                continue;
            }
        };
        if let Some((env, why, _)) = oracle(model, ctx, &real, &wire, true, 0, r) {
            let h = model.ask(&format!("c08.h {}", wire));
            if h.starts_with("(true") {
                r.violation(Violation {
                    kind: "finding-changed".into(),
                    check: format!("known-finding:{}", id),
                    what: format!("witness of {} fails but lies inside H8 ({})", id, h),
                    input: json!({"expr": wire}),
                    failing_input_found: true,
                });
            } else {
                r.known_finding(&id, &format!("{} — {} (environment {}); {}", entry["source"].as_str().unwrap_or(""), why, env, real.text()));
            }
        }
    }
}

pub fn run(report: &mut Report, replay: Option<&str>) {
    let alpha = alphabet();
    let ctx = Ctx {
        envs: environments(),
        ty_wire: alpha.ty.clone(),
        empty_fn: alpha.empty_fn.clone(),
        checked_literals: std::sync::Mutex::new(std::collections::HashSet::new()),
    };
    report.rule = "expressions as wire trees: EXHAUSTIVE depth ≤ 1 (3 unary, 16 binary, parenthesis, cast, instantiation, interpolation, \
        table constructor, if-expression with and without elseif) over 57 literals (nil, booleans, ±0, tiny/huge/non-terminating numbers, \
        ±inf/NaN as division trees, 32 strings incl. numeric-looking, spaced, signed, hex, underscore, non-UTF-8, Unicode space; table \
        constructors, a function) and 5 opaque leaves (identifier, field, index, call, ...); EXHAUSTIVE depth 2 over a reduced alphabet \
        (6 leaves × and or == < + .. / not - #; quick tier: a seeded slice); random trees to depth 6 over everything incl. random doubles \
        and numeric-looking strings. Each case: the real Evaluator's three answers vs the Lean model (bit-exact), and vs execution of \
        `return <e>` on the reference semantics in environments with effectful metamethods / number / nil / string bindings. \
        Non-trivial = a compound expression for which the evaluator claims something (a definite value, no side effects, or single-valued); distinct by tree."
        .to_owned();

    if let Some(path) = replay {
        let text = std::fs::read_to_string(path).expect("replay file");
        let v: serde_json::Value = serde_json::from_str(&text).expect("replay json");
        let mut model = Model::spawn();
        if let (Some(src), Some(denotes)) = (v["input"]["source"].as_str(), v["input"]["denotes"].as_str()) {
            if let (Ok(tree), Ok(expr)) = (Sexp::parse(denotes), astsexp::sexp_to_expr(denotes)) {
                if let Some(real) = real_answers(&expr) {
                    judge_source(&mut model, &ctx, report, denotes, &tree, &real, src);
                }
            }
        }
        for key in ["expr", "within", "disagreeing_expr", "denotes"] {
            if let Some(w) = v["input"][key].as_str().or_else(|| v[key].as_str()) {
                check_case(&mut model, &ctx, report, w, "replay", true, 0);
            }
        }
        return;
    }

    {
        let mut model = Model::spawn();
        replay_known_findings(&mut model, &ctx, report);
        // corpus: minimised past disagreements and finding witnesses
        let dir = concat!(env!("CARGO_MANIFEST_DIR"), "/../corpus/C08");
        if let Ok(entries) = std::fs::read_dir(dir) {
            let mut paths: Vec<_> = entries.filter_map(|e| e.ok()).map(|e| e.path()).collect();
            paths.sort();
            for p in paths {
                if let Ok(text) = std::fs::read_to_string(&p) {
                    for line in text.lines() {
                        let line = line.trim();
                        if line.is_empty() || line.starts_with('#') {
                            continue;
                        }
                        // known findings listed in the corpus are attributed, not raised
                        check_case(&mut model, &ctx, report, line, "corpus", true, 0);
                    }
                }
            }
        }
    }

    for reason in SKIP_REASONS {
        report.histograms.entry("skipped".into()).or_default().entry((*reason).into()).or_insert(0);
    }
    let d1 = depth1(&alpha);
    let rd1 = reduced_depth1(&alpha);
    let d2_total = depth2_count(&rd1);
    let thorough = report.is_thorough();
    let d2_take = if thorough { d2_total } else { 120_000 };
    let random_total: usize = if thorough { 2_000_000 } else { 100_000 };
    let threads = 14;
    let seed = report.seed;
    report.exhaustive.insert("depth<=1 over the full alphabets".into(), true);
    report.exhaustive.insert("depth 2 over the reduced alphabet".into(), thorough);
    report.count("depth1_cases", d1.len() as u64);
    report.count("depth2_cases", d2_take as u64);
    report.count("depth2_total", d2_total as u64);
    report.count("random_cases", random_total as u64);

    let directed = directed_source_cases();
    report.count("directed_source_cases", directed.len() as u64);
    let directed = &directed;
    let d1 = &d1;
    let rd1 = &rd1;
    let alpha = &alpha;
    let ctx = &ctx;
    report.parallel(threads, |tid, r| {
        let mut model = Model::spawn();
        let rule = exec::rule_from_json("'compute_expression'").expect("compute_expression rule");
        for (i, (w, salt)) in directed.iter().enumerate() {
            if i % threads == tid {
                check_case(&mut model, ctx, r, w, "directed-source", true, *salt);
            }
        }
        for (i, w) in d1.iter().enumerate() {
            if i % threads == tid {
                check_case(&mut model, ctx, r, w, "depth1", true, i);
                if let Ok(e) = astsexp::sexp_to_expr(w) {
                    end_to_end(&mut model, ctx, r, &astsexp::expr_to_sexp(&e), rule.as_ref());
                }
            }
        }
        // depth 2: all (thorough) or a seeded slice (quick): a stride walk from a seeded offset
        let mut rng = Rng::new(seed.wrapping_mul(7919).wrapping_add(17));
        let offset = rng.below(d2_total);
        // a stride coprime with the total visits every index once
        let mut stride = 100_003 % d2_total;
        while gcd(stride, d2_total) != 1 {
            stride += 1;
        }
        for j in 0..d2_take {
            if j % threads == tid {
                let index = (offset + j * stride) % d2_total;
                let w = depth2_at(rd1, index);
                check_case(&mut model, ctx, r, &w, "depth2", false, index);
            }
        }
        let mut rng = Rng::new(seed.wrapping_mul(1000).wrapping_add(tid as u64 + 1));
        for j in 0..random_total / threads {
            let depth = 2 + rng.below(5) as u32;
            let w = random_expr(&mut rng, alpha, depth);
            if w.len() > 6000 {
                r.hist("skipped", "random-tree-over-6000-bytes(regenerated)");
                continue;
            }
            check_case(&mut model, ctx, r, &w, "random", false, j);
            if j % 4 == 0 {
                if let Ok(e) = astsexp::sexp_to_expr(&w) {
                    end_to_end(&mut model, ctx, r, &astsexp::expr_to_sexp(&e), rule.as_ref());
                }
            }
        }
    });
}

fn gcd(a: usize, b: usize) -> usize {
    if b == 0 {
        a
    } else {
        gcd(b, a % b)
    }
}
