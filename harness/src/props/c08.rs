//! Property C08: static evaluation never disagrees with real execution.
//!
//! Every case is one expression, as wire text (BUILDING-AST.md). For each case:
//!  (1) CORRESPONDENCE — the three answers of the REAL `darklua_core::process::Evaluator`
//!      (`evaluate`, `has_side_effects` with and without `assume_pure_metamethods`,
//!      `can_return_multiple_values`) are compared bit-exactly with the Lean model
//!      (`Rules/Evaluator.lean` over `Float`, op `c08.eval`), the defs the theorems are about;
//!  (2) ORACLE, independent of the model — `return <e>` is executed on the Lean reference
//!      semantics (`sem.run`) in several environments binding the opaque leaves (`x`, `t`, `f`,
//!      `...`) to tables with effectful metamethods / numbers / strings / nil; when the run is
//!      error-free the returned value must be the REAL evaluator's definite answer, when the
//!      evaluator says "no side effects" the trace must be empty (also on error runs), when it
//!      says "single value" exactly one value must come back.
//! A failing oracle outside the proved region `H8` (op `c08.h`) is attributed to the listed
//! finding; inside `H8` it is a VIOLATION.
use crate::astsexp::{self, Sexp};
use crate::exec;
use crate::model::Model;
use crate::report::{self, Report, Violation};
use crate::rng::Rng;
use darklua_core::nodes::{Expression, LastStatement};
use darklua_core::process::{Evaluator, LuaValue};
use serde_json::json;

const NAN_WIRE: &str = "f7ff8000000000000";

fn num_wire(v: f64) -> String {
    if v.is_nan() {
        NAN_WIRE.to_owned()
    } else {
        format!("f{:016x}", v.to_bits())
    }
}

fn canon_num_atom(atom: &str) -> String {
    match crate::model::wire_f64(atom) {
        Some(v) => num_wire(v),
        None => atom.to_owned(),
    }
}

/// the evaluator's answers in the driver's format `(<value> <se> <se-pure> <multi>)`
#[derive(Clone, Debug, PartialEq)]
struct Answers {
    value: String,
    se: bool,
    se_pure: bool,
    multi: bool,
}

impl Answers {
    fn text(&self) -> String {
        format!("({} {} {} {})", self.value, self.se, self.se_pure, self.multi)
    }
    fn definite(&self) -> bool {
        self.value != "unknown"
    }
}

fn value_text(v: &LuaValue) -> String {
    match v {
        LuaValue::Nil => "nil".into(),
        LuaValue::True => "true".into(),
        LuaValue::False => "false".into(),
        LuaValue::Number(n) => format!("(num {})", num_wire(*n)),
        LuaValue::String(s) => format!("(str {})", crate::model::hex(s)),
        LuaValue::Table => "table".into(),
        LuaValue::Function => "function".into(),
        LuaValue::Unknown => "unknown".into(),
    }
}

fn real_answers(expr: &Expression) -> Option<Answers> {
    std::panic::catch_unwind(std::panic::AssertUnwindSafe(|| {
        let ev = Evaluator::default();
        let pure = Evaluator::default().assume_pure_metamethods();
        Answers {
            value: value_text(&ev.evaluate(expr)),
            se: ev.has_side_effects(expr),
            se_pure: pure.has_side_effects(expr),
            multi: ev.can_return_multiple_values(expr),
        }
    }))
    .ok()
}

fn parse_model_answers(text: &str) -> Option<Answers> {
    let s = Sexp::parse(text).ok()?;
    let items = s.list()?;
    if items.len() != 4 {
        return None;
    }
    let value = match &items[0] {
        Sexp::Atom(a) => a.clone(),
        Sexp::List(l) if l.len() == 2 => {
            let head = l[0].atom()?;
            let arg = l[1].atom()?;
            if head == "num" {
                format!("(num {})", canon_num_atom(arg))
            } else {
                format!("({} {})", head, arg)
            }
        }
        _ => return None,
    };
    let b = |s: &Sexp| s.atom().map(|a| a == "true");
    Some(Answers { value, se: b(&items[1])?, se_pure: b(&items[2])?, multi: b(&items[3])? })
}

// ---------------------------------------------------------------------------------------------
// alphabets
// ---------------------------------------------------------------------------------------------

fn lua_expr_wire(code: &str) -> String {
    let block = exec::parse(&format!("return {}", code)).unwrap_or_else(|e| panic!("prelude expr {}: {}", code, e));
    match block.get_last_statement() {
        Some(LastStatement::Return(r)) => astsexp::expr_to_sexp(r.iter_expressions().next().unwrap()),
        _ => panic!("no return"),
    }
}

fn num(v: f64) -> String {
    format!("(num f{:016x})", v.to_bits())
}
fn string(bytes: &[u8]) -> String {
    format!("(str {})", crate::model::hex(bytes))
}
fn var(name: &str) -> String {
    format!("(var {})", crate::model::hex(name.as_bytes()))
}

struct Alphabet {
    literals: Vec<String>,
    opaque: Vec<String>,
    reduced: Vec<String>,
    ty: String,
    empty_fn: String,
}

const BINOPS: [&str; 16] =
    ["and", "or", "eq", "ne", "lt", "le", "gt", "ge", "add", "sub", "mul", "div", "idiv", "mod", "pow", "concat"];
const UNOPS: [&str; 3] = ["neg", "not", "len"];
const BINOPS_REDUCED: [&str; 6] = ["and", "or", "eq", "lt", "add", "concat"];

fn alphabet() -> Alphabet {
    let empty_fn = lua_expr_wire("function() end");
    let mut literals: Vec<String> = vec!["nil".into(), "true".into(), "false".into()];
    for v in [
        0.0,
        -0.0,
        1.0,
        -1.0,
        0.1,
        0.1 + 0.2,
        1e308,
        5e-324,
        9007199254740993.0,
        123456789012345.0,
        1e15,
        1e100,
        1e-7,
        1e-20,
        2e-20,
        255.0,
        16.0,
        2.5,
    ] {
        literals.push(num(v));
    }
    // infinities and NaN as the division trees darklua builds
    literals.push(lua_expr_wire("1/0"));
    literals.push(lua_expr_wire("-1/0"));
    literals.push(lua_expr_wire("0/0"));
    for s in [
        &b""[..],
        b"1",
        b" 0x10 ",
        b"1e2",
        b"-5",
        b"abc",
        b"\xff\xfe",
        b" 1 ",
        b"+1",
        b"0x",
        b"1_0",
        b"inf",
        b"nan",
        b"0b11",
        b"\xc2\xa01",
        b"- 1",
        b"--5",
        b"0x1p4",
        b"10",
        b"1.5",
        b"0",
        b"-0",
        b"\xe2\x82\xac",
        b"1e",
        b".5",
        b"5.",
        b"0x_1",
        b"1\x0b",
        b"1e400",
        b"-0x10",
        b"ABC",
        b"ab",
    ] {
        literals.push(string(s));
    }
    literals.push("(table)".into());
    literals.push(lua_expr_wire("{ f() }"));
    literals.push(lua_expr_wire("{ 1, a = true }"));
    literals.push(empty_fn.clone());
    let opaque = vec![
        var("x"),
        lua_expr_wire("t.a"),
        lua_expr_wire("t[1]"),
        lua_expr_wire("f()"),
        "vararg".to_owned(),
    ];
    let reduced = vec!["nil".into(), "true".into(), num(0.0), num(1.0), string(b"1"), var("x")];
    let ty = {
        let w = lua_expr_wire("x :: number");
        // (cast (var x78) <ty>)
        let s = Sexp::parse(&w).unwrap();
        s.list().unwrap()[2].to_string()
    };
    Alphabet { literals, opaque, reduced, ty, empty_fn }
}

fn un(op: &str, e: &str) -> String {
    format!("(un {} {})", op, e)
}
fn bin(op: &str, l: &str, r: &str) -> String {
    format!("(bin {} {} {})", op, l, r)
}

/// every node kind at depth ≤ 1 over the full alphabets
fn depth1(a: &Alphabet) -> Vec<String> {
    let mut leaves: Vec<String> = a.literals.clone();
    leaves.extend(a.opaque.iter().cloned());
    let small: Vec<String> = {
        let mut s = a.reduced.clone();
        s.push("false".into());
        s.push(string(b"abc"));
        s.push("(table)".into());
        s.push(lua_expr_wire("f()"));
        s
    };
    let mut out = leaves.clone();
    for op in UNOPS {
        for e in &leaves {
            out.push(un(op, e));
        }
    }
    for op in BINOPS {
        for l in &leaves {
            for r in &leaves {
                out.push(bin(op, l, r));
            }
        }
    }
    for e in &leaves {
        out.push(format!("(paren {})", e));
        out.push(format!("(cast {} {})", e, a.ty));
        out.push(format!("(interp (v {}))", e));
        out.push(format!("(interp (s x61) (v {}) (s x62))", e));
        out.push(format!("(table (pos {}))", e));
        out.push(format!("(table (keyed {} true))", e));
        out.push(format!("(table (named x6b {}) (pos (num f3ff0000000000000)))", e));
        // instantiation: the target must be a prefix
        out.push(format!("(inst (paren {}) {})", e, a.ty));
        out.push(format!("(inst (inst (paren {}) {}) {})", e, a.ty, a.ty));
    }
    for e in &a.opaque {
        if e != "vararg" {
            out.push(format!("(inst {} {})", e, a.ty));
            out.push(format!("(field {} x6b)", e));
            out.push(format!("(index {} (num f3ff0000000000000))", e));
            out.push(format!("(call {} - t)", e));
        }
    }
    for l in &leaves {
        for r in &small {
            out.push(format!("(interp (v {}) (v {}))", l, r));
            out.push(format!("(index (paren {}) {})", r, l));
        }
    }
    // if-expressions: condition over everything, results over the small alphabet; one elseif
    for c in &leaves {
        for t in &small {
            for e in &small {
                out.push(format!("(ifx {} {} () {})", c, t, e));
            }
        }
        for c2 in &small {
            for t2 in &small {
                out.push(format!("(ifx {} (num f4000000000000000) (({} {})) (num f4008000000000000))", c, c2, t2));
                out.push(format!("(ifx {} (num f4000000000000000) (({} {})) (num f4008000000000000))", c2, c, t2));
            }
        }
    }
    out
}

/// depth ≤ 1 over the reduced alphabet and operator-class representatives
fn reduced_depth1(a: &Alphabet) -> Vec<String> {
    let mut out = a.reduced.clone();
    for op in UNOPS {
        for e in &a.reduced {
            out.push(un(op, e));
        }
    }
    for op in BINOPS_REDUCED {
        for l in &a.reduced {
            for r in &a.reduced {
                out.push(bin(op, l, r));
            }
        }
    }
    out
}

/// the `index`-th depth-2 expression over the reduced alphabet
fn depth2_at(d1: &[String], index: usize) -> String {
    let n = d1.len();
    let binaries = BINOPS_REDUCED.len() * n * n;
    if index < binaries {
        let op = BINOPS_REDUCED[index / (n * n)];
        let rest = index % (n * n);
        bin(op, &d1[rest / n], &d1[rest % n])
    } else {
        let i = index - binaries;
        un(UNOPS[i / n], &d1[i % n])
    }
}

fn depth2_count(d1: &[String]) -> usize {
    BINOPS_REDUCED.len() * d1.len() * d1.len() + UNOPS.len() * d1.len()
}

fn random_string(rng: &mut Rng) -> Vec<u8> {
    const PIECES: [&[u8]; 24] = [
        b"0", b"1", b"9", b"x", b"X", b"e", b"E", b"p", b".", b"-", b"+", b" ", b"_", b"b", b"a", b"f", b"\t", b"inf", b"nan",
        b"\xc2\xa0", b"\xff", b"0x", b"10", b"\n",
    ];
    let n = rng.below(6);
    let mut out = Vec::new();
    for _ in 0..n {
        out.extend_from_slice(PIECES[rng.below(PIECES.len())]);
    }
    // keep clear of `0x…p<k>` literals whose value overflows u64 (compute_value panics in debug builds)
    out
}

fn random_number(rng: &mut Rng) -> f64 {
    match rng.below(6) {
        0 => rng.range(-3, 20) as f64,
        1 => (rng.range(-30, 30) as f64) / 8.0,
        2 => f64::from_bits(rng.next_u64()),
        3 => *rng.pick(&[1e15, 1e16, 1e21, 1e-5, 1e-4, 0.1, 0.2, 0.3, 1e-20, 2e-20, 1e300, 4.5e15, 2.220446049250313e-16]),
        4 => (rng.range(0, 1 << 20) as f64) * 1e-3,
        _ => (rng.next_u64() >> 11) as f64,
    }
}

fn random_expr(rng: &mut Rng, a: &Alphabet, depth: u32) -> String {
    if depth == 0 || rng.chance(1, 6) {
        return match rng.below(10) {
            0..=2 => rng.pick(&a.literals).clone(),
            3..=4 => rng.pick(&a.opaque).clone(),
            5 => num(random_number(rng)),
            6 => string(&random_string(rng)),
            7 => rng.pick(&a.reduced).clone(),
            8 => num(rng.range(0, 3) as f64),
            _ => { let c: [&[u8]; 5] = [b"a", b"b", b"", b"1", b"2"]; string(c[rng.below(5)]) }
        };
    }
    let d = depth - 1;
    match rng.below(20) {
        0..=7 => {
            let op = BINOPS[rng.below(16)];
            bin(op, &random_expr(rng, a, d), &random_expr(rng, a, d))
        }
        8..=10 => un(UNOPS[rng.below(3)], &random_expr(rng, a, d)),
        11 => format!("(paren {})", random_expr(rng, a, d)),
        12 => format!("(cast {} {})", random_expr(rng, a, d), a.ty),
        13..=14 => {
            let n = rng.below(3);
            let mut elifs = String::new();
            for i in 0..n {
                if i > 0 {
                    elifs.push(' ');
                }
                elifs.push_str(&format!("({} {})", random_expr(rng, a, d), random_expr(rng, a, d)));
            }
            format!("(ifx {} {} ({}) {})", random_expr(rng, a, d), random_expr(rng, a, d), elifs, random_expr(rng, a, d))
        }
        15..=16 => {
            let n = rng.below(4);
            let mut segs = Vec::new();
            for _ in 0..n {
                if rng.chance(1, 2) {
                    { let c: [&[u8]; 4] = [b"a", b"", b" ", b"1"]; segs.push(format!("(s {})", crate::model::hex(c[rng.below(4)]))); }
                } else {
                    segs.push(format!("(v {})", random_expr(rng, a, d)));
                }
            }
            format!("(interp{}{})", if segs.is_empty() { "" } else { " " }, segs.join(" "))
        }
        17 => {
            let n = rng.below(3);
            let mut entries = Vec::new();
            for _ in 0..n {
                entries.push(match rng.below(3) {
                    0 => format!("(pos {})", random_expr(rng, a, d)),
                    1 => format!("(named x6b {})", random_expr(rng, a, d)),
                    _ => format!("(keyed {} {})", random_expr(rng, a, d), random_expr(rng, a, d)),
                });
            }
            format!("(table{}{})", if entries.is_empty() { "" } else { " " }, entries.join(" "))
        }
        18 => format!("(inst (paren {}) {})", random_expr(rng, a, d), a.ty),
        _ => match rng.below(4) {
            0 => format!("(field (paren {}) x6b)", random_expr(rng, a, d)),
            1 => format!("(index (paren {}) {})", random_expr(rng, a, d), random_expr(rng, a, d)),
            2 => format!("(call (var x66) - t {})", random_expr(rng, a, d)),
            _ => a.empty_fn.clone(),
        },
    }
}

// ---------------------------------------------------------------------------------------------
// oracle: execution on the reference semantics
// ---------------------------------------------------------------------------------------------

/// every way a case (or a part of its checks) can be left out; all are counted in the evidence
/// (histogram `skipped`), and all but the listed-known ones raise a violation
const SKIP_REASONS: &[&str] = &[
    "not-buildable",
    "evaluator-panic:UNEXPECTED",
    "oracle-run-timeout",
    "oracle-run-protocol-error",
    "e2e:program-not-buildable",
    "e2e:rule-error",
    "e2e:rule-panic:UNEXPECTED",
    "random-tree-over-6000-bytes(regenerated)",
];

const HOLE: &str = "(var x5f5f484f4c45)"; // __HOLE

/// Lua preludes binding the opaque leaves; `__HOLE` is replaced by the expression
fn environments() -> Vec<(&'static str, String)> {
    let meta = r#"
local function mk(tag)
  local m = {}
  m.__index = function(t, k) emit(tag, "index") return 7 end
  m.__add = function(a, b) emit(tag, "add") return 1 end
  m.__sub = function(a, b) emit(tag, "sub") return 1 end
  m.__mul = function(a, b) emit(tag, "mul") return 1 end
  m.__div = function(a, b) emit(tag, "div") return 1 end
  m.__mod = function(a, b) emit(tag, "mod") return 1 end
  m.__pow = function(a, b) emit(tag, "pow") return 1 end
  m.__idiv = function(a, b) emit(tag, "idiv") return 1 end
  m.__unm = function(a) emit(tag, "unm") return 1 end
  m.__concat = function(a, b) emit(tag, "concat") return "c" end
  m.__len = function(a) emit(tag, "len") return 3 end
  m.__eq = function(a, b) emit(tag, "eq") return true end
  m.__lt = function(a, b) emit(tag, "lt") return true end
  m.__le = function(a, b) emit(tag, "le") return false end
  m.__call = function(self, ...) emit(tag, "call") return 1, 2 end
  m.__tostring = function(a) emit(tag, "tostring") return "obj" end
  return setmetatable({}, m)
end
"#;
    let body = "return (function(...) return __HOLE end)";
    let mut envs = Vec::new();
    envs.push((
        "meta",
        format!("{}local x = mk('x') local t = mk('t') local f = mk('f')\n{}(x, 2)", meta, body),
    ));
    envs.push((
        "number",
        format!("local x = 5 local t = {{ a = 1, 2, k = 'v' }} local function f(...) emit('f') return 1, 2 end\n{}()", body),
    ));
    envs.push((
        "nil",
        format!("local x = nil local t = {{}} local function f(...) emit('f') end\n{}(nil, false, 3)", body),
    ));
    envs.push((
        "string",
        format!("local x = '10' local t = {{ a = false }} local function f(...) emit('f') return f end\n{}('7')", body),
    ));
    envs.into_iter()
        .map(|(name, code)| {
            let block = exec::parse(&code).unwrap_or_else(|e| panic!("prelude {}: {}", name, e));
            let text = astsexp::block_to_sexp(&block);
            assert!(text.matches(HOLE).count() == 1, "prelude {} has no unique hole", name);
            (name, text)
        })
        .collect()
}

fn extern_list() -> String {
    let names: Vec<String> = crate::progen::EXTERNS.iter().map(|n| crate::model::hex(n.as_bytes())).collect();
    format!("({})", names.join(" "))
}

fn run_request(env_block: &str, expr: &str) -> String {
    format!("sem.run 12 {} {}", extern_list(), env_block.replace(HOLE, expr))
}

enum Outcome {
    Ok { values: Vec<Sexp>, events: usize },
    Err { events: usize },
    Other,
}

fn parse_outcome(text: &str) -> Outcome {
    let s = match Sexp::parse(text) {
        Ok(s) => s,
        Err(_) => return Outcome::Other,
    };
    let items = match s.list() {
        Some(l) => l,
        None => return Outcome::Other,
    };
    match (items.first().and_then(|h| h.atom()), items.len()) {
        (Some("ok"), 3) => match (items[1].list(), items[2].list()) {
            (Some(v), Some(e)) => Outcome::Ok { values: v.to_vec(), events: e.len() },
            _ => Outcome::Other,
        },
        (Some("err"), 3) => match items[2].list() {
            Some(e) => Outcome::Err { events: e.len() },
            None => Outcome::Other,
        },
        _ => Outcome::Other,
    }
}

/// does the executed value equal the evaluator's definite answer?
fn value_matches(expected: &str, got: &Sexp) -> bool {
    match expected {
        "nil" | "true" | "false" => got.atom() == Some(expected),
        "table" => got.head() == Some("tbl"),
        "function" => got.atom() == Some("fn"),
        _ => {
            let e = match Sexp::parse(expected) {
                Ok(e) => e,
                Err(_) => return false,
            };
            let l = e.list().unwrap();
            let arg = l[1].atom().unwrap();
            match l[0].atom() {
                // numbers: same double (all NaNs are one value; -0 and +0 are told apart)
                Some("num") => got.atom().map(canon_num_atom).as_deref() == Some(arg),
                Some("str") => got.atom() == Some(arg),
                _ => false,
            }
        }
    }
}

/// what the property demands of one run; `None` = satisfied
fn judge(real: &Answers, outcome: &Outcome) -> Option<String> {
    match outcome {
        Outcome::Other => None,
        Outcome::Err { events } => {
            if !real.se && *events > 0 {
                Some(format!("declared side-effect free but the (failing) run performed {} external call(s)", events))
            } else {
                None
            }
        }
        Outcome::Ok { values, events } => {
            if !real.se && *events > 0 {
                return Some(format!("declared side-effect free but the run performed {} external call(s)", events));
            }
            if !real.multi && values.len() != 1 {
                return Some(format!("declared single-valued but the run returned {} values", values.len()));
            }
            if real.definite() {
                if values.len() != 1 {
                    return Some(format!("evaluates to {} but the run returned {} values", real.value, values.len()));
                }
                if !value_matches(&real.value, &values[0]) {
                    return Some(format!("evaluates to {} but the run returned {}", real.value, values[0]));
                }
            }
            None
        }
    }
}

struct Ctx {
    envs: Vec<(&'static str, String)>,
}

fn has_opaque(expr: &str) -> bool {
    expr.contains("(var ") || expr.contains("vararg") || expr.contains("(call ") || expr.contains("(field ") || expr.contains("(index ")
}

/// run the oracle on the real answers; returns the first failure (environment, reason, outcome text)
fn oracle(model: &mut Model, ctx: &Ctx, real: &Answers, expr: &str, all_envs: bool, salt: usize, r: &mut Report) -> Option<(String, String, String)> {
    let picks: Vec<usize> = if !has_opaque(expr) {
        vec![1]
    } else if all_envs {
        (0..ctx.envs.len()).collect()
    } else {
        vec![0, 1 + salt % (ctx.envs.len() - 1)]
    };
    for i in picks {
        let (name, block) = &ctx.envs[i];
        let answer = model.ask(&run_request(block, expr));
        let outcome = parse_outcome(&answer);
        match &outcome {
            Outcome::Ok { .. } => r.hist("oracle_run", "ok"),
            Outcome::Err { .. } => r.hist("oracle_run", "error"),
            Outcome::Other => {
                if answer == "timeout" {
                    r.hist("oracle_run", "timeout");
                    r.hist("skipped", "oracle-run-timeout");
                } else {
                    r.hist("oracle_run", "protocol");
                    r.hist("skipped", "oracle-run-protocol-error");
                    r.violation(Violation {
                        kind: "correspondence".into(),
                        check: "harness:sem.run".into(),
                        what: format!("the reference semantics driver did not answer with an outcome: {}", answer.chars().take(120).collect::<String>()),
                        input: json!({"expr": expr, "environment": name}),
                        failing_input_found: false,
                    });
                }
            }
        }
        if let Some(why) = judge(real, &outcome) {
            return Some(((*name).to_owned(), why, answer));
        }
    }
    None
}

/// Which listed finding explains an oracle failure outside H8? None any more: F1–F4 are fixed, and the
/// remaining condition of H8 (`refeq`) never makes the execution oracle fail.
fn finding_for_tags(_tags: &[String], _why: &str) -> Option<&'static str> {
    None
}

fn subexpressions(expr: &str) -> Vec<String> {
    fn walk(s: &Sexp, out: &mut Vec<String>) {
        if let Some(items) = s.list() {
            let head = items.first().and_then(|h| h.atom()).unwrap_or("");
            if matches!(head, "bin" | "un" | "paren" | "ifx" | "interp" | "cast" | "inst" | "table" | "num" | "str" | "var" | "call" | "field" | "index") {
                out.push(s.to_string());
            }
            if !matches!(head, "fn" | "ty" | "num" | "str" | "var") {
                for i in items.iter().skip(1) {
                    walk(i, out);
                }
            }
        } else if matches!(s.atom(), Some("nil" | "true" | "false" | "vararg")) {
            out.push(s.to_string());
        }
    }
    let mut out = Vec::new();
    if let Ok(s) = Sexp::parse(expr) {
        walk(&s, &mut out);
    }
    out.sort_by_key(|s| s.len());
    out.dedup();
    out
}

/// one case: correspondence + oracle. Returns true when the case was evaluated.
fn check_case(model: &mut Model, ctx: &Ctx, r: &mut Report, wire: &str, source: &str, all_envs: bool, salt: usize) {
    let expr = match astsexp::sexp_to_expr(wire) {
        Ok(e) => e,
        Err(why) => {
            // the generators only emit buildable trees: a refusal is a break of the codec tie, not a case to drop
            r.hist("skipped", "not-buildable");
            r.violation(Violation {
                kind: "correspondence".into(),
                check: "harness:not-buildable".into(),
                what: format!("the wire expression cannot be rebuilt as a darklua Expression ({}): the case would be dropped", why),
                input: json!({"expr": wire, "source": source}),
                failing_input_found: false,
            });
            return;
        }
    };
    // the tree the real evaluator sees, re-encoded: model and semantics get exactly this text
    let wire = astsexp::expr_to_sexp(&expr);
    let real = match real_answers(&expr) {
        Some(a) => a,
        None => {
            // The real Evaluator took the process down where the model answers: never excused
            // (the hex-exponent overflow C08-P1 = C12-F10, once the only panic, is fixed).
            r.count("evaluator_panics", 1);
            r.hist("skipped", "evaluator-panic:UNEXPECTED");
            let model_text = model.ask(&format!("c08.eval {}", wire));
            // smallest panicking sub-expression
            let mut smallest = wire.clone();
            for sub in subexpressions(&wire) {
                if let Ok(e) = astsexp::sexp_to_expr(&sub) {
                    if real_answers(&e).is_none() {
                        smallest = sub;
                        break;
                    }
                }
            }
            let small_model = model.ask(&format!("c08.eval {}", smallest));
            r.violation(Violation {
                kind: "correspondence".into(),
                check: "evaluator-panic".into(),
                what: "the real Evaluator PANICS on an expression for which the Lean model returns an answer: the evaluator assigns nothing and takes the process down (the expression is a failing input of crash freedom, property C12)".into(),
                input: json!({"expr": smallest, "within": wire, "real": "panic", "model": small_model, "model_within": model_text}),
                failing_input_found: false,
            });
            return;
        }
    };
    let model_text = model.ask(&format!("c08.eval {}", wire));
    let modelled = parse_model_answers(&model_text);
    let agrees = modelled.as_ref() == Some(&real);
    let bucket = if real.definite() { "definite" } else { "unknown" };
    r.hist("real_value", bucket);
    r.hist("real_flags", &format!("se={} multi={}", real.se, real.multi));
    r.hist("source", source);
    let nontrivial = real.definite() || !real.se || !real.multi;
    r.case(if nontrivial && wire.starts_with('(') { Some(&wire) } else { None });
    if r.samples.len() < 2 && real.definite() && wire.len() > 60 {
        r.sample(json!({"expr": wire, "real": real.text(), "model": model_text}));
    }

    let failure = oracle(model, ctx, &real, &wire, all_envs || !agrees, salt, r);

    if !agrees {
        // search: this input, then its sub-expressions, for an input on which the REAL evaluator breaks the property
        let mut found = failure.clone().map(|f| (wire.clone(), real.clone(), f));
        if found.is_none() {
            for sub in subexpressions(&wire) {
                if let Ok(e) = astsexp::sexp_to_expr(&sub) {
                    if let Some(a) = real_answers(&e) {
                        if let Some(f) = oracle(model, ctx, &a, &sub, true, 0, r) {
                            found = Some((sub, a, f));
                            break;
                        }
                    }
                }
            }
        }
        // smallest disagreeing sub-expression, for the report
        let mut smallest = wire.clone();
        let mut smallest_answers = (real.text(), model_text.clone());
        for sub in subexpressions(&wire) {
            if let Ok(e) = astsexp::sexp_to_expr(&sub) {
                if let Some(a) = real_answers(&e) {
                    let m = model.ask(&format!("c08.eval {}", astsexp::expr_to_sexp(&e)));
                    if parse_model_answers(&m).as_ref() != Some(&a) {
                        smallest = sub;
                        smallest_answers = (a.text(), m);
                        break;
                    }
                }
            }
        }
        match found {
            Some((input, answers, (env, why, outcome))) => {
                // is it one of the listed defects? then the disagreement is elsewhere; still a violation of the tie
                r.violation(Violation {
                    kind: "oracle".into(),
                    check: "evaluator-vs-execution".into(),
                    what: format!("the real evaluator disagrees with execution ({}; environment {}) — found while chasing a model/code disagreement", why, env),
                    input: json!({"expr": input, "real": answers.text(), "environment": env, "outcome": outcome, "disagreeing_expr": smallest}),
                    failing_input_found: true,
                });
            }
            None => {
                r.violation(Violation {
                    kind: "correspondence".into(),
                    check: "model-vs-evaluator".into(),
                    what: "the Lean evaluator model and the real Evaluator give different answers; the theorems about the model no longer speak about this code".into(),
                    input: json!({"expr": smallest, "within": wire, "real": smallest_answers.0, "model": smallest_answers.1}),
                    failing_input_found: false,
                });
            }
        }
        return;
    }

    if let Some((env, why, outcome)) = failure {
        // inside the proved region?
        let h = model.ask(&format!("c08.h {}", wire));
        let tags: Vec<String> = Sexp::parse(&h)
            .ok()
            .and_then(|s| s.list().map(|l| l.iter().filter_map(|x| x.atom().map(|a| a.to_owned())).collect()))
            .unwrap_or_default();
        let inside = tags.first().map(|t| t == "true").unwrap_or(false);
        let finding = if inside { None } else { finding_for_tags(&tags[1..], &why) };
        match finding {
            Some(id) => {
                r.hist("outside_H8_failures", id);
            }
            None => {
                r.violation(Violation {
                    kind: "oracle".into(),
                    check: "evaluator-vs-execution".into(),
                    what: format!("the real evaluator disagrees with execution on the reference semantics: {} (environment {}; H8 = {})", why, env, h),
                    input: json!({"expr": wire, "real": real.text(), "environment": env, "outcome": outcome}),
                    failing_input_found: true,
                });
            }
        }
    }
}

/// End to end through the real `compute_expression` rule: the program `<prelude> return <e>` before and
/// after the rule must behave the same on the reference semantics when the original run is error-free.
/// Differences outside H8 are the listed findings; a different NUMBER of returned values is finding F5
/// (C01: `true and ...` folded to `...`), attributed, not raised here.
fn end_to_end(model: &mut Model, ctx: &Ctx, r: &mut Report, wire: &str, rule: &dyn darklua_core::rules::Rule) {
    let (env_name, env_block) = &ctx.envs[1];
    let program = env_block.replace(HOLE, wire);
    let block0 = match astsexp::sexp_to_block(&program) {
        Ok(b) => b,
        Err(why) => {
            r.hist("skipped", "e2e:program-not-buildable");
            r.violation(Violation {
                kind: "correspondence".into(),
                check: "harness:e2e-not-buildable".into(),
                what: format!("the end-to-end program cannot be rebuilt as a darklua Block ({})", why),
                input: json!({"expr": wire}),
                failing_input_found: false,
            });
            return;
        }
    };
    let mut block1 = block0.clone();
    let resources = darklua_core::Resources::from_memory();
    let applied = std::panic::catch_unwind(std::panic::AssertUnwindSafe(|| {
        let context = darklua_core::rules::ContextBuilder::new("src/test.lua", &resources, "").build();
        rule.process(&mut block1, &context)
    }));
    match applied {
        Ok(Ok(())) => {}
        Ok(Err(why)) => {
            // compute_expression has no failing path: an error is unexpected
            r.hist("skipped", "e2e:rule-error");
            r.violation(Violation {
                kind: "correspondence".into(),
                check: "e2e:rule-error".into(),
                what: format!("the real compute_expression rule returned an error: {}", why),
                input: json!({"expr": wire}),
                failing_input_found: false,
            });
            return;
        }
        Err(_) => {
            r.count("e2e_rule_panics", 1);
            {
                r.hist("skipped", "e2e:rule-panic:UNEXPECTED");
                r.violation(Violation {
                    kind: "correspondence".into(),
                    check: "e2e:rule-panic".into(),
                    what: "the real compute_expression rule PANICS on `return <e>` (through the Evaluator) where the Lean model returns an answer".into(),
                    input: json!({"expr": wire, "model": model.ask(&format!("c08.eval {}", wire))}),
                    failing_input_found: false,
                });
            }
            return;
        }
    }
    let text1 = astsexp::block_to_sexp(&block1);
    if text1 == astsexp::block_to_sexp(&block0) {
        r.hist("e2e", "unchanged");
        return;
    }
    let o0 = model.ask(&format!("sem.run 12 {} {}", extern_list(), astsexp::block_to_sexp(&block0)));
    if !o0.starts_with("(ok ") {
        r.hist("e2e", "original-not-error-free");
        return;
    }
    let o1 = model.ask(&format!("sem.run 12 {} {}", extern_list(), text1));
    let canon = |o: &str| -> String {
        // all NaNs are one value
        let mut out = String::new();
        for tok in o.split_inclusive(|c: char| c == ' ' || c == '(' || c == ')') {
            let (body, sep) = tok.split_at(tok.len() - tok.chars().last().map(|c| if c == ' ' || c == '(' || c == ')' { c.len_utf8() } else { 0 }).unwrap_or(0));
            if body.len() == 17 && body.starts_with('f') {
                out.push_str(&canon_num_atom(body));
            } else {
                out.push_str(body);
            }
            out.push_str(sep);
        }
        out
    };
    if canon(&o0) == canon(&o1) {
        r.hist("e2e", "folded-same-behaviour");
        return;
    }
    let count = |o: &str| parse_outcome_values(o);
    if count(&o0) != count(&o1) {
        r.hist("e2e", "value-count-differs(F5,C01)");
        if r.counters.get("e2e_f5_samples").copied().unwrap_or(0) < 2 {
            r.count("e2e_f5_samples", 1);
            r.notes.push(format!("F5 (C01) seen end-to-end: return {} -> {} / {}", wire, o0, o1));
        }
        return;
    }
    if has_f5_shape(wire) {
        // `a and f()` / `a or ...` folded to the multi-valued right operand in a multi-value position
        // (last table entry, last argument): C01's finding F5 again
        r.hist("e2e", "differs-with-F5-shape(C01)");
        return;
    }
    r.violation(Violation {
        kind: "oracle".into(),
        check: "e2e:compute_expression".into(),
        what: format!("`return <e>` behaves differently after the real compute_expression rule (environment {})", env_name),
        input: json!({"expr": wire, "original_outcome": o0, "transformed_outcome": o1, "transformed": text1}),
        failing_input_found: true,
    });
}

/// an `and`/`or` whose right operand can yield several values (finding F5 of C01 may apply)
fn has_f5_shape(wire: &str) -> bool {
    fn walk(s: &Sexp) -> bool {
        if let Some(items) = s.list() {
            if items.len() == 4 && items[0].atom() == Some("bin") && matches!(items[1].atom(), Some("and" | "or")) {
                let right = &items[3];
                if right.atom() == Some("vararg") || right.head() == Some("call") {
                    return true;
                }
            }
            items.iter().any(walk)
        } else {
            false
        }
    }
    Sexp::parse(wire).map(|s| walk(&s)).unwrap_or(false)
}

fn parse_outcome_values(o: &str) -> Option<usize> {
    match parse_outcome(o) {
        Outcome::Ok { values, .. } => Some(values.len()),
        _ => None,
    }
}

fn replay_known_findings(model: &mut Model, ctx: &Ctx, r: &mut Report) {
    for entry in report::known_findings("C08") {
        if entry["status"].as_str() != Some("known") {
            continue; // a fixed entry suppresses nothing and is not replayed as a finding (its witness is in the corpus)
        }
        let id = entry["id"].as_str().unwrap_or("?").to_owned();
        let wire = match entry["witness"]["expr"].as_str() {
            Some(w) => w.to_owned(),
            None => continue,
        };
        let expr = match astsexp::sexp_to_expr(&wire) {
            Ok(e) => e,
            Err(_) => continue,
        };
        let wire = astsexp::expr_to_sexp(&expr);
        let real = match real_answers(&expr) {
            Some(a) => {
                if entry["witness"]["panics"].as_bool() == Some(true) {
                    continue; // no longer panics: say nothing
                }
                a
            }
            None => {
                if entry["witness"]["panics"].as_bool() == Some(true) {
                    r.known_finding(&id, &format!("{} — the real Evaluator panics; the model answers {}", entry["source"].as_str().unwrap_or(""), model.ask(&format!("c08.eval {}", wire))));
                }
                continue;
            }
        };
        if let Some((env, why, _)) = oracle(model, ctx, &real, &wire, true, 0, r) {
            let h = model.ask(&format!("c08.h {}", wire));
            if h.starts_with("(true") {
                r.violation(Violation {
                    kind: "finding-changed".into(),
                    check: format!("known-finding:{}", id),
                    what: format!("witness of {} fails but lies inside H8 ({})", id, h),
                    input: json!({"expr": wire}),
                    failing_input_found: true,
                });
            } else {
                r.known_finding(&id, &format!("{} — {} (environment {}); {}", entry["source"].as_str().unwrap_or(""), why, env, real.text()));
            }
        }
    }
}

pub fn run(report: &mut Report, replay: Option<&str>) {
    let alpha = alphabet();
    let ctx = Ctx { envs: environments() };
    report.rule = "expressions as wire trees: EXHAUSTIVE depth ≤ 1 (3 unary, 16 binary, parenthesis, cast, instantiation, interpolation, \
        table constructor, if-expression with and without elseif) over 57 literals (nil, booleans, ±0, tiny/huge/non-terminating numbers, \
        ±inf/NaN as division trees, 32 strings incl. numeric-looking, spaced, signed, hex, underscore, non-UTF-8, Unicode space; table \
        constructors, a function) and 5 opaque leaves (identifier, field, index, call, ...); EXHAUSTIVE depth 2 over a reduced alphabet \
        (6 leaves × and or == < + .. / not - #; quick tier: a seeded slice); random trees to depth 6 over everything incl. random doubles \
        and numeric-looking strings. Each case: the real Evaluator's three answers vs the Lean model (bit-exact), and vs execution of \
        `return <e>` on the reference semantics in environments with effectful metamethods / number / nil / string bindings. \
        Non-trivial = a compound expression for which the evaluator claims something (a definite value, no side effects, or single-valued); distinct by tree."
        .to_owned();

    if let Some(path) = replay {
        let text = std::fs::read_to_string(path).expect("replay file");
        let v: serde_json::Value = serde_json::from_str(&text).expect("replay json");
        let mut model = Model::spawn();
        for key in ["expr", "within", "disagreeing_expr"] {
            if let Some(w) = v["input"][key].as_str().or_else(|| v[key].as_str()) {
                check_case(&mut model, &ctx, report, w, "replay", true, 0);
            }
        }
        return;
    }

    {
        let mut model = Model::spawn();
        replay_known_findings(&mut model, &ctx, report);
        // corpus: minimised past disagreements and finding witnesses
        let dir = concat!(env!("CARGO_MANIFEST_DIR"), "/../corpus/C08");
        if let Ok(entries) = std::fs::read_dir(dir) {
            let mut paths: Vec<_> = entries.filter_map(|e| e.ok()).map(|e| e.path()).collect();
            paths.sort();
            for p in paths {
                if let Ok(text) = std::fs::read_to_string(&p) {
                    for line in text.lines() {
                        let line = line.trim();
                        if line.is_empty() || line.starts_with('#') {
                            continue;
                        }
                        // known findings listed in the corpus are attributed, not raised
                        check_case(&mut model, &ctx, report, line, "corpus", true, 0);
                    }
                }
            }
        }
    }

    for reason in SKIP_REASONS {
        report.histograms.entry("skipped".into()).or_default().entry((*reason).into()).or_insert(0);
    }
    let d1 = depth1(&alpha);
    let rd1 = reduced_depth1(&alpha);
    let d2_total = depth2_count(&rd1);
    let thorough = report.is_thorough();
    let d2_take = if thorough { d2_total } else { 120_000 };
    let random_total: usize = if thorough { 2_000_000 } else { 100_000 };
    let threads = 14;
    let seed = report.seed;
    report.exhaustive.insert("depth<=1 over the full alphabets".into(), true);
    report.exhaustive.insert("depth 2 over the reduced alphabet".into(), thorough);
    report.count("depth1_cases", d1.len() as u64);
    report.count("depth2_cases", d2_take as u64);
    report.count("depth2_total", d2_total as u64);
    report.count("random_cases", random_total as u64);

    let d1 = &d1;
    let rd1 = &rd1;
    let alpha = &alpha;
    let ctx = &ctx;
    report.parallel(threads, |tid, r| {
        let mut model = Model::spawn();
        let rule = exec::rule_from_json("'compute_expression'").expect("compute_expression rule");
        for (i, w) in d1.iter().enumerate() {
            if i % threads == tid {
                check_case(&mut model, ctx, r, w, "depth1", true, i);
                if let Ok(e) = astsexp::sexp_to_expr(w) {
                    end_to_end(&mut model, ctx, r, &astsexp::expr_to_sexp(&e), rule.as_ref());
                }
            }
        }
        // depth 2: all (thorough) or a seeded slice (quick): a stride walk from a seeded offset
        let mut rng = Rng::new(seed.wrapping_mul(7919).wrapping_add(17));
        let offset = rng.below(d2_total);
        // a stride coprime with the total visits every index once
        let mut stride = 100_003 % d2_total;
        while gcd(stride, d2_total) != 1 {
            stride += 1;
        }
        for j in 0..d2_take {
            if j % threads == tid {
                let index = (offset + j * stride) % d2_total;
                let w = depth2_at(rd1, index);
                check_case(&mut model, ctx, r, &w, "depth2", false, index);
            }
        }
        let mut rng = Rng::new(seed.wrapping_mul(1000).wrapping_add(tid as u64 + 1));
        for j in 0..random_total / threads {
            let depth = 2 + rng.below(5) as u32;
            let w = random_expr(&mut rng, alpha, depth);
            if w.len() > 6000 {
                r.hist("skipped", "random-tree-over-6000-bytes(regenerated)");
                continue;
            }
            check_case(&mut model, ctx, r, &w, "random", false, j);
            if j % 4 == 0 {
                if let Ok(e) = astsexp::sexp_to_expr(&w) {
                    end_to_end(&mut model, ctx, r, &astsexp::expr_to_sexp(&e), rule.as_ref());
                }
            }
        }
    });
}

fn gcd(a: usize, b: usize) -> usize {
    if b == 0 {
        a
    } else {
        gcd(b, a % b)
    }
}
