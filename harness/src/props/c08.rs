//! Property C08: correspondence and oracle (stub: nothing built yet).
use crate::report::Report;

pub fn run(report: &mut Report, _replay: Option<&str>) {
    report.notes.push("C08: no harness yet".to_owned());
}
