//! Property C09: "Renaming variables never changes which binding a name refers to".
//!
//! Three artefacts are compared on every case (program text + rule configuration):
//!  * the REAL rule (`darklua_core::rules::RenameVariables`) applied to the parsed block;
//!  * the Lean MODEL (`c09.rename`, `c09.globals`, `c09.resolve`, `c09.hself`) fed with the event
//!    stream a recording `NodeProcessor + Scope` extracts from the public `ScopeVisitor`
//!    before / after the real rule ran (correspondence, names included);
//!  * an ORACLE that uses neither the model nor `ScopeVisitor`: an independent resolver over the
//!    public AST following the Lua 5.1 manual §2.6 (and the Luau parser for annotations) that
//!    computes the binding graph of input and output.
#![allow(clippy::all)]
use crate::model::Model;
use crate::report::{self, hash_of, Report, Violation};
use crate::rng::Rng;
use darklua_core::generator::{DenseLuaGenerator, LuaGenerator};
use darklua_core::nodes::*;
use darklua_core::process::processors::CollectGlobalsProcessor;
use darklua_core::process::{NodeProcessor, NodeVisitor, Scope, ScopeVisitor};
use darklua_core::rules::{ContextBuilder, RenameVariables, Rule};
use darklua_core::{Parser, Resources};
use serde_json::{json, Value};
use std::collections::{BTreeMap, BTreeSet, HashMap, HashSet};
use std::panic::{catch_unwind, AssertUnwindSafe};
use std::time::Instant;

/// Lua 5.1 reserved words (reference manual §2.1) — an independent copy, not darklua's table.
const LUA_KEYWORDS: [&str; 21] = [
    "and", "break", "do", "else", "elseif", "end", "false", "for", "function", "if", "in", "local",
    "nil", "not", "or", "repeat", "return", "then", "true", "until", "while",
];

const THREADS: usize = 16;
type Item = (Src, std::sync::Arc<Vec<Cfg>>);
static TEXT_PATH_OK: std::sync::OnceLock<bool> = std::sync::OnceLock::new();
static ROBLOX_COPY_OK: std::sync::OnceLock<bool> = std::sync::OnceLock::new();

// ------------------------------------------------------------------------------------------
// configuration of the rule
// ------------------------------------------------------------------------------------------

#[derive(Clone, Debug, PartialEq, Eq, Hash)]
struct Cfg {
    incl: bool,
    detect: bool,
    globals: Vec<String>,
    /// build the rule from json5 configuration text (the deserialiser starts from
    /// `RenameVariables::default()`, so the configured list is APPENDED to `$default`)
    via_text: bool,
}

/// copy of src/rules/rename_variables/globals.rs DEFAULT; verified against the real rule at run
/// time by `default_globals_copy_is_current` (the config-text path is skipped if it is stale)
const DEFAULT_GLOBALS: [&str; 40] = [
    "arg", "assert", "collectgarbage", "coroutine", "debug", "dofile", "error", "gcinfo", "getfenv", "getmetatable",
    "io", "ipairs", "load", "loadfile", "loadstring", "math", "module", "newproxy", "next", "os", "package", "pairs",
    "pcall", "print", "rawequal", "rawget", "rawset", "require", "select", "setfenv", "setmetatable", "string", "table",
    "tonumber", "tostring", "type", "unpack", "xpcall", "_G", "_VERSION",
];

/// copy of src/rules/rename_variables/globals.rs ROBLOX (the `$roblox` group); verified at run
/// time by `roblox_globals_copy_is_current` (the group token is not generated if it is stale)
const ROBLOX_GLOBALS: [&str; 58] = [
    "Axes", "bit32", "BrickColor", "CatalogSearchParams", "CellId", "ColorSequence", "ColorSequenceKeypoint", "Color3",
    "CFrame", "DateTime", "DebuggerManager", "delay", "DockWidgetPluginGuiInfo", "elapsedTime", "Enum", "Faces", "Instance",
    "LoadLibrary", "game", "NumberRange", "NumberSequence", "NumberSequenceKeypoint", "OverlapParams", "PathWaypoint",
    "PhysicalProperties", "plugin", "PluginDrag", "PluginManager", "printidentity", "Random", "Ray", "RaycastParams", "Rect",
    "Region3", "Region3int16", "script", "settings", "shared", "stats", "spawn", "task", "tick", "time", "TweenInfo", "typeof",
    "UDim", "UDim2", "UserSettings", "utf8", "Vector2", "Vector2int16", "Vector3", "Vector3int16", "version", "wait", "warn",
    "workspace", "ypcall",
];

const GROUP_DEFAULT: &str = "$default";
const GROUP_ROBLOX: &str = "$roblox";

fn is_group_token(name: &str) -> bool {
    name == GROUP_DEFAULT || name == GROUP_ROBLOX
}

/// `RenameVariables::new(copy)` serialises as `globals: ["$roblox"]` exactly when the copy equals
/// the crate's ROBLOX list as a set (normalize_globals folds a complete group into its token).
fn roblox_globals_copy_is_current() -> bool {
    let globals_of = |names: &[&str]| -> Value {
        let rule: Box<dyn Rule> = Box::new(RenameVariables::new(names.iter().map(|s| (*s).to_owned())));
        serde_json::to_value(&rule).ok().and_then(|v| v.get("globals").cloned()).unwrap_or(Value::Null)
    };
    globals_of(&ROBLOX_GLOBALS) == json!([GROUP_ROBLOX]) && globals_of(&ROBLOX_GLOBALS[1..]) != json!([GROUP_ROBLOX])
}

/// `RenameVariables::new(copy)` serialises without a `globals` property exactly when the copy
/// equals the crate's DEFAULT list as a set (normalize_globals folds it into `$default`).
fn default_globals_copy_is_current() -> bool {
    let with_copy: Box<dyn Rule> = Box::new(RenameVariables::new(DEFAULT_GLOBALS.iter().map(|s| (*s).to_owned())));
    let one_less: Box<dyn Rule> = Box::new(RenameVariables::new(DEFAULT_GLOBALS[1..].iter().map(|s| (*s).to_owned())));
    let a = serde_json::to_value(&with_copy).unwrap_or(Value::Null);
    let b = serde_json::to_value(&one_less).unwrap_or(Value::Null);
    let folded = |v: &Value| v.is_string() || (v.is_object() && v.get("globals").is_none());
    folded(&a) && !folded(&b)
}

impl Cfg {
    fn new(incl: bool, detect: bool, globals: &[&str]) -> Cfg {
        Cfg { incl, detect, globals: globals.iter().map(|s| (*s).to_owned()).collect(), via_text: false }
    }
    fn to_json(&self) -> Value {
        json!({"incl": self.incl, "detect": self.detect, "globals": self.globals, "via_config_text": self.via_text})
    }
    /// the list RenameProcessor really receives from the rule
    fn effective_globals(&self) -> Vec<String> {
        let mut list: Vec<String> = Vec::new();
        if self.via_text {
            list.extend(DEFAULT_GLOBALS.iter().map(|s| (*s).to_owned()));
        }
        // configuration text may list the group tokens anywhere among the names: the documented
        // meaning is the union of the groups and of every plain name, whatever the positions
        for g in &self.globals {
            match g.as_str() {
                GROUP_DEFAULT if self.via_text => list.extend(DEFAULT_GLOBALS.iter().map(|s| (*s).to_owned())),
                GROUP_ROBLOX if self.via_text => list.extend(ROBLOX_GLOBALS.iter().map(|s| (*s).to_owned())),
                _ => list.push(g.clone()),
            }
        }
        list
    }
    fn plain_globals(&self) -> Vec<String> {
        self.globals.iter().filter(|g| !is_group_token(g)).cloned().collect()
    }
    fn from_json(v: &Value) -> Cfg {
        Cfg {
            incl: v["incl"].as_bool().unwrap_or(false),
            detect: v["detect"].as_bool().unwrap_or(true),
            globals: v["globals"]
                .as_array()
                .map(|a| a.iter().filter_map(|x| x.as_str().map(str::to_owned)).collect())
                .unwrap_or_default(),
            via_text: v["via_config_text"].as_bool().unwrap_or(false),
        }
    }
    fn wire(&self) -> String {
        let globals = self.effective_globals();
        format!(
            "{} {} {}",
            self.incl as u8,
            self.detect as u8,
            if globals.is_empty() { "-".to_owned() } else { globals.join(",") }
        )
    }
    fn label(&self) -> String {
        format!("incl={} detect={} globals={}", self.incl as u8, self.detect as u8, self.globals.len())
    }
    /// the real rule, built either through the Rust API or through the json5 configuration text
    fn rule(&self) -> Result<Box<dyn Rule>, String> {
        if self.via_text {
            let list: Vec<String> = self.globals.iter().map(|g| format!("'{}'", g)).collect();
            let text = format!(
                "{{ rule: 'rename_variables', globals: [{}], include_functions: {}, detect_globals: {} }}",
                list.join(", "),
                self.incl,
                self.detect
            );
            json5::from_str::<Box<dyn Rule>>(&text).map_err(|e| format!("config rejected: {}", e))
        } else {
            let mut rule = RenameVariables::new(self.globals.iter().cloned());
            if self.incl {
                rule = rule.with_function_names();
            }
            if !self.detect {
                rule = rule.disable_global_detection();
            }
            Ok(Box::new(rule))
        }
    }
}

fn apply_rule(block: &mut Block, cfg: &Cfg) -> Result<(), String> {
    let rule = cfg.rule()?;
    let resources = Resources::from_memory();
    let context = ContextBuilder::new("verif.lua", &resources, "").build();
    match catch_unwind(AssertUnwindSafe(|| rule.process(block, &context))) {
        Ok(Ok(())) => Ok(()),
        Ok(Err(e)) => Err(format!("rule returned an error: {}", e)),
        Err(_) => Err("rule panicked".to_owned()),
    }
}

// ------------------------------------------------------------------------------------------
// event streams: what RenameProcessor reacts to, recorded through the public ScopeVisitor
// ------------------------------------------------------------------------------------------

#[derive(Default)]
struct Recorder {
    out: String,
    n: usize,
}

impl Recorder {
    fn ev(&mut self, tag: &str, name: Option<&str>) {
        if self.n > 0 {
            self.out.push(';');
        }
        self.n += 1;
        self.out.push_str(tag);
        if let Some(name) = name {
            self.out.push(':');
            self.out.push_str(name);
        }
    }
}

impl Scope for Recorder {
    fn push(&mut self) {
        self.ev("+", None)
    }
    fn pop(&mut self) {
        self.ev("-", None)
    }
    fn insert(&mut self, identifier: &mut String) {
        self.ev("i", Some(identifier))
    }
    fn insert_self(&mut self) {
        self.ev("S", None)
    }
    fn insert_local(&mut self, identifier: &mut String, _value: Option<&mut Expression>) {
        self.ev("l", Some(identifier))
    }
    fn insert_local_function(&mut self, function: &mut FunctionAssignment) {
        let name = function.get_name().to_owned();
        self.ev("f", Some(&name))
    }
}

impl NodeProcessor for Recorder {
    fn process_variable_expression(&mut self, variable: &mut Identifier) {
        let name = variable.get_name().clone();
        self.ev("u", Some(&name))
    }
    fn process_type_field(&mut self, type_field: &mut TypeField) {
        let name = type_field.get_namespace().get_name().clone();
        self.ev("t", Some(&name))
    }
}

/// the event stream of a block in wire encoding (`.` when empty)
fn record_events(block: &mut Block) -> Result<String, String> {
    let mut recorder = Recorder::default();
    catch_unwind(AssertUnwindSafe(|| ScopeVisitor::visit_block(block, &mut recorder)))
        .map_err(|_| "ScopeVisitor panicked under the recorder".to_owned())?;
    Ok(if recorder.n == 0 { ".".to_owned() } else { recorder.out })
}

fn wire_names_ok(events: &str) -> bool {
    events.bytes().all(|b| b.is_ascii_alphanumeric() || matches!(b, b'_' | b';' | b':' | b'+' | b'-' | b'.'))
}

fn real_globals(block: &mut Block) -> Result<String, String> {
    let mut processor = CollectGlobalsProcessor::default();
    catch_unwind(AssertUnwindSafe(|| ScopeVisitor::visit_block(block, &mut processor)))
        .map_err(|_| "CollectGlobalsProcessor panicked".to_owned())?;
    let set: BTreeSet<String> = processor.into_globals().collect();
    Ok(if set.is_empty() { "-".to_owned() } else { set.into_iter().collect::<Vec<_>>().join(",") })
}

// ------------------------------------------------------------------------------------------
// ORACLE: an independent resolver (own scoping, own traversal; no ScopeVisitor, no model)
// ------------------------------------------------------------------------------------------

#[derive(Clone, Copy, PartialEq, Eq, Debug, Hash)]
enum DK {
    Local,
    LocalFn,
    Param,
    ForVar,
    ImplicitSelf,
    TypeFnParam,
}

/// `Luau`: annotations of binders are resolved in the scope enclosing the binder (what the Luau
/// parser does: it parses the whole binding list / signature before pushing the locals).
/// `Visitor`: the three places where darklua's ScopeVisitor is known to differ (generic-for
/// annotations after the loop variables, local-function name before its signature types,
/// type-function parameters not declared). Only used to CLASSIFY programs (hypothesis Hannot).
#[derive(Clone, Copy, PartialEq, Eq, Debug)]
enum Mode {
    Luau,
    Visitor,
}

const GLOBAL: u32 = u32::MAX;
const ERASED: &str = "_";

#[derive(Clone, Copy)]
struct Decl {
    name: u32,
    kind: DK,
    fdepth: u32,
    /// the declaration this one shadows (restored when the scope closes), or GLOBAL
    shadowed: u32,
}

#[derive(Clone, Copy)]
struct Occ {
    name: u32,
    target: u32,
}

#[derive(Default, Clone, Debug)]
struct Shape {
    stmt_kinds: BTreeSet<&'static str>,
    scope_kinds: BTreeSet<&'static str>,
    has_types: bool,
    has_type_fn_params: bool,
}

struct Resolver {
    mode: Mode,
    erase: bool,
    interner: HashMap<std::sync::Arc<str>, u32>,
    names: Vec<std::sync::Arc<str>>,
    /// per name: the innermost live declaration, or GLOBAL
    head: Vec<u32>,
    ever: Vec<bool>,
    scopes: Vec<Vec<u32>>,
    decls: Vec<Decl>,
    occs: Vec<Occ>,
    fdepth: u32,
    live: usize,
    max_live: usize,
    shadows: u64,
    captures: u64,
    reuses: u64,
    shape: Shape,
}

impl Resolver {
    fn new(mode: Mode, erase: bool) -> Resolver {
        Resolver {
            mode,
            erase,
            interner: HashMap::new(),
            names: Vec::new(),
            head: Vec::new(),
            ever: Vec::new(),
            scopes: Vec::new(),
            decls: Vec::new(),
            occs: Vec::new(),
            fdepth: 0,
            live: 0,
            max_live: 0,
            shadows: 0,
            captures: 0,
            reuses: 0,
            shape: Shape::default(),
        }
    }

    fn run(mode: Mode, erase: bool, block: &mut Block) -> Resolver {
        let mut r = Resolver::new(mode, erase);
        r.block(block);
        r
    }

    fn intern(&mut self, name: &str) -> u32 {
        if let Some(id) = self.interner.get(name) {
            return *id;
        }
        let id = self.names.len() as u32;
        let shared: std::sync::Arc<str> = std::sync::Arc::from(name);
        self.interner.insert(shared.clone(), id);
        self.names.push(shared);
        self.head.push(GLOBAL);
        self.ever.push(false);
        id
    }

    fn name_of(&self, id: u32) -> &str {
        &self.names[id as usize]
    }
    fn decl_name(&self, i: usize) -> &str {
        self.name_of(self.decls[i].name)
    }
    fn occ_name(&self, i: usize) -> &str {
        self.name_of(self.occs[i].name)
    }

    fn push(&mut self) {
        self.scopes.push(Vec::new());
    }

    fn pop(&mut self) {
        if let Some(names) = self.scopes.pop() {
            self.live -= names.len();
            for id in names.into_iter().rev() {
                let innermost = self.head[id as usize];
                self.head[id as usize] = self.decls[innermost as usize].shadowed;
            }
        }
    }

    fn bind(&mut self, id: u32, kind: DK, bound: bool) {
        let ordinal = self.decls.len() as u32;
        let shadowed = if bound { self.head[id as usize] } else { GLOBAL };
        self.decls.push(Decl { name: id, kind, fdepth: self.fdepth, shadowed });
        if !bound {
            return;
        }
        if shadowed != GLOBAL {
            self.shadows += 1;
        } else if self.ever[id as usize] {
            self.reuses += 1;
        }
        self.ever[id as usize] = true;
        self.head[id as usize] = ordinal;
        if self.scopes.is_empty() {
            self.scopes.push(Vec::new());
        }
        self.scopes.last_mut().unwrap().push(id);
        self.live += 1;
        if self.live > self.max_live {
            self.max_live = self.live;
        }
    }

    fn declare(&mut self, identifier: &mut Identifier, kind: DK) {
        let id = self.intern(identifier.get_name());
        self.bind(id, kind, true);
        if self.erase {
            identifier.set_name(ERASED);
        }
    }

    fn declare_self(&mut self) {
        let id = self.intern("self");
        self.bind(id, DK::ImplicitSelf, true);
    }

    fn occurrence(&mut self, identifier: &mut Identifier) {
        let id = self.intern(identifier.get_name());
        let target = self.head[id as usize];
        if target != GLOBAL && self.decls[target as usize].fdepth < self.fdepth {
            self.captures += 1;
        }
        self.occs.push(Occ { name: id, target });
        if self.erase {
            identifier.set_name(ERASED);
        }
    }

    // ---- blocks and statements

    fn block(&mut self, block: &mut Block) {
        self.push();
        self.block_no_scope(block);
        self.pop();
    }

    fn block_no_scope(&mut self, block: &mut Block) {
        for statement in block.iter_mut_statements() {
            self.statement(statement);
        }
        if let Some(last) = block.mutate_last_statement() {
            match last {
                LastStatement::Return(ret) => {
                    self.shape.stmt_kinds.insert("return");
                    for e in ret.iter_mut_expressions() {
                        self.expr(e);
                    }
                }
                LastStatement::Break(_) => {
                    self.shape.stmt_kinds.insert("break");
                }
                LastStatement::Continue(_) => {
                    self.shape.stmt_kinds.insert("continue");
                }
            }
        }
    }

    fn statement(&mut self, statement: &mut Statement) {
        match statement {
            Statement::Assign(assign) => {
                self.shape.stmt_kinds.insert("assign");
                for variable in assign.iter_mut_variables() {
                    self.variable(variable);
                }
                for value in assign.iter_mut_values() {
                    self.expr(value);
                }
            }
            Statement::Do(s) => {
                self.shape.stmt_kinds.insert("do");
                self.shape.scope_kinds.insert("do");
                self.block(s.mutate_block());
            }
            Statement::Call(call) => {
                self.shape.stmt_kinds.insert("call");
                self.call(call);
            }
            Statement::CompoundAssign(s) => {
                self.shape.stmt_kinds.insert("compound_assign");
                self.variable(s.mutate_variable());
                self.expr(s.mutate_value());
            }
            Statement::Function(f) => {
                self.shape.stmt_kinds.insert(if f.get_name().has_method() {
                    "function_method"
                } else if f.get_name().get_field_names().is_empty() {
                    "function_global"
                } else {
                    "function_field"
                });
                // `function a.b.c()` / `function a.b:c()` : the root `a` is an ordinary variable use
                self.occurrence(f.mutate_function_name().mutate_identifier());
                for p in f.iter_mut_parameters() {
                    if let Some(t) = p.mutate_type() {
                        self.ty(t);
                    }
                }
                if let Some(v) = f.mutate_variadic_type() {
                    self.fn_variadic_ty(v);
                }
                if let Some(r) = f.mutate_return_type() {
                    self.ret_ty(r);
                }
                self.push();
                self.fdepth += 1;
                if f.get_name().has_method() {
                    self.shape.scope_kinds.insert("method(self)");
                    self.declare_self();
                } else {
                    self.shape.scope_kinds.insert("function");
                }
                if f.is_variadic() {
                    self.shape.scope_kinds.insert("vararg-function");
                }
                for p in f.mutate_parameters().iter_mut() {
                    self.declare(p, DK::Param);
                }
                self.block(f.mutate_block());
                self.fdepth -= 1;
                self.pop();
            }
            Statement::GenericFor(s) => {
                self.shape.stmt_kinds.insert("generic_for");
                self.shape.scope_kinds.insert("generic_for");
                // explist evaluated once, in the enclosing scope (manual §2.4.5)
                for e in s.iter_mut_expressions() {
                    self.expr(e);
                }
                if self.mode == Mode::Luau {
                    for id in s.iter_mut_identifiers() {
                        if let Some(t) = id.mutate_type() {
                            self.ty(t);
                        }
                    }
                }
                self.push();
                for id in s.iter_mut_identifiers() {
                    self.declare(id, DK::ForVar);
                }
                if self.mode == Mode::Visitor {
                    for id in s.iter_mut_identifiers() {
                        if let Some(t) = id.mutate_type() {
                            self.ty(t);
                        }
                    }
                }
                self.block(s.mutate_block());
                self.pop();
            }
            Statement::If(s) => {
                self.shape.stmt_kinds.insert("if");
                self.shape.scope_kinds.insert("if-branch");
                if s.branch_count() > 1 {
                    self.shape.scope_kinds.insert("elseif-branch");
                }
                for branch in s.mutate_branches().iter_mut() {
                    self.expr(branch.mutate_condition());
                    self.block(branch.mutate_block());
                }
                if let Some(block) = s.mutate_else_block() {
                    self.shape.scope_kinds.insert("else-branch");
                    self.block(block);
                }
            }
            Statement::LocalAssign(s) => {
                self.shape.stmt_kinds.insert(if s.variables_len() > 1 { "local_multi" } else { "local" });
                // manual §2.4.7 / §2.6: the scope of the names begins AFTER the statement
                for value in s.iter_mut_values() {
                    self.expr(value);
                }
                for v in s.iter_mut_variables() {
                    if let Some(t) = v.mutate_type() {
                        self.ty(t);
                    }
                }
                for v in s.iter_mut_variables() {
                    self.declare(v, DK::Local);
                }
            }
            Statement::LocalFunction(f) => {
                self.shape.stmt_kinds.insert("local_function");
                self.shape.scope_kinds.insert("local-function");
                if self.mode == Mode::Visitor {
                    self.declare(f.mutate_identifier(), DK::LocalFn);
                }
                for p in f.iter_mut_parameters() {
                    if let Some(t) = p.mutate_type() {
                        self.ty(t);
                    }
                }
                if let Some(v) = f.mutate_variadic_type() {
                    self.fn_variadic_ty(v);
                }
                if let Some(r) = f.mutate_return_type() {
                    self.ret_ty(r);
                }
                if self.mode == Mode::Luau {
                    // `local function f` = `local f; f = function … end`: f visible in its body
                    self.declare(f.mutate_identifier(), DK::LocalFn);
                }
                self.push();
                self.fdepth += 1;
                if f.is_variadic() {
                    self.shape.scope_kinds.insert("vararg-function");
                }
                for p in f.mutate_parameters().iter_mut() {
                    self.declare(p, DK::Param);
                }
                self.block(f.mutate_block());
                self.fdepth -= 1;
                self.pop();
            }
            Statement::NumericFor(s) => {
                self.shape.stmt_kinds.insert("numeric_for");
                self.shape.scope_kinds.insert("numeric_for");
                self.expr(s.mutate_start());
                self.expr(s.mutate_end());
                if let Some(step) = s.mutate_step() {
                    self.expr(step);
                }
                if let Some(t) = s.mutate_identifier().mutate_type() {
                    self.ty(t);
                }
                self.push();
                self.declare(s.mutate_identifier(), DK::ForVar);
                self.block(s.mutate_block());
                self.pop();
            }
            Statement::Repeat(s) => {
                self.shape.stmt_kinds.insert("repeat");
                self.shape.scope_kinds.insert("repeat(+until)");
                // manual §2.4.4: the condition can refer to locals declared inside the loop block
                self.push();
                self.block_no_scope(s.mutate_block());
                self.expr(s.mutate_condition());
                self.pop();
            }
            Statement::While(s) => {
                self.shape.stmt_kinds.insert("while");
                self.shape.scope_kinds.insert("while");
                self.expr(s.mutate_condition());
                self.block(s.mutate_block());
            }
            Statement::TypeDeclaration(s) => {
                self.shape.stmt_kinds.insert("type_declaration");
                self.shape.has_types = true;
                if let Some(generics) = s.mutate_generic_parameters() {
                    for parameter in generics.iter_mut() {
                        match parameter {
                            GenericParameterMutRef::TypeVariable(_) => {}
                            GenericParameterMutRef::TypeVariableWithDefault(v) => {
                                self.ty(v.mutate_default_type());
                            }
                            GenericParameterMutRef::GenericTypePack(_) => {}
                            GenericParameterMutRef::GenericTypePackWithDefault(p) => {
                                match p.mutate_default_type() {
                                    GenericTypePackDefault::TypePack(pack) => self.type_pack(pack),
                                    GenericTypePackDefault::VariadicTypePack(v) => self.ty(v.mutate_type()),
                                    GenericTypePackDefault::GenericTypePack(_) => {}
                                }
                            }
                        }
                    }
                }
                self.ty(s.mutate_type());
            }
            Statement::TypeFunction(f) => {
                self.shape.stmt_kinds.insert("type_function");
                self.shape.has_types = true;
                self.push();
                self.fdepth += 1;
                let luau = self.mode == Mode::Luau;
                for p in f.mutate_parameters().iter_mut() {
                    self.shape.has_type_fn_params = true;
                    if luau {
                        self.declare(p, DK::TypeFnParam);
                    } else {
                        // keep the declaration numbering identical in both modes
                        let id = self.intern(p.get_name());
                        self.bind(id, DK::TypeFnParam, false);
                    }
                }
                self.block(f.mutate_block());
                self.fdepth -= 1;
                self.pop();
                for p in f.iter_mut_parameters() {
                    if let Some(t) = p.mutate_type() {
                        self.ty(t);
                    }
                }
                if let Some(v) = f.mutate_variadic_type() {
                    self.fn_variadic_ty(v);
                }
                if let Some(r) = f.mutate_return_type() {
                    self.ret_ty(r);
                }
            }
        }
    }

    fn variable(&mut self, variable: &mut Variable) {
        match variable {
            Variable::Identifier(identifier) => self.occurrence(identifier),
            Variable::Field(field) => self.prefix(field.mutate_prefix()),
            Variable::Index(index) => {
                self.prefix(index.mutate_prefix());
                self.expr(index.mutate_index());
            }
        }
    }

    // ---- expressions

    fn expr(&mut self, expression: &mut Expression) {
        match expression {
            Expression::Binary(b) => {
                self.expr(b.mutate_left());
                self.expr(b.mutate_right());
            }
            Expression::Call(call) => self.call(call),
            Expression::Field(field) => self.prefix(field.mutate_prefix()),
            Expression::Function(f) => {
                for p in f.iter_mut_parameters() {
                    if let Some(t) = p.mutate_type() {
                        self.ty(t);
                    }
                }
                if let Some(v) = f.mutate_variadic_type() {
                    self.fn_variadic_ty(v);
                }
                if let Some(r) = f.mutate_return_type() {
                    self.ret_ty(r);
                }
                self.shape.scope_kinds.insert("closure");
                if f.is_variadic() {
                    self.shape.scope_kinds.insert("vararg-function");
                }
                self.push();
                self.fdepth += 1;
                for p in f.mutate_parameters().iter_mut() {
                    self.declare(p, DK::Param);
                }
                self.block(f.mutate_block());
                self.fdepth -= 1;
                self.pop();
            }
            Expression::Identifier(identifier) => self.occurrence(identifier),
            Expression::If(e) => {
                self.expr(e.mutate_condition());
                self.expr(e.mutate_result());
                for branch in e.iter_mut_branches() {
                    self.expr(branch.mutate_condition());
                    self.expr(branch.mutate_result());
                }
                self.expr(e.mutate_else_result());
            }
            Expression::Index(index) => {
                self.prefix(index.mutate_prefix());
                self.expr(index.mutate_index());
            }
            Expression::Parenthese(p) => self.expr(p.mutate_inner_expression()),
            Expression::InterpolatedString(s) => {
                for segment in s.iter_mut_segments() {
                    if let InterpolationSegment::Value(value) = segment {
                        self.expr(value.mutate_expression());
                    }
                }
            }
            Expression::Table(table) => self.table(table),
            Expression::Unary(u) => self.expr(u.mutate_expression()),
            Expression::TypeCast(cast) => {
                self.shape.has_types = true;
                self.expr(cast.mutate_expression());
                self.ty(cast.mutate_type());
            }
            Expression::TypeInstantiation(inst) => {
                self.shape.has_types = true;
                self.prefix(inst.mutate_prefix());
                for t in inst.iter_mut_types() {
                    self.ty(t);
                }
            }
            Expression::False(_)
            | Expression::True(_)
            | Expression::Nil(_)
            | Expression::Number(_)
            | Expression::String(_)
            | Expression::VariableArguments(_) => {}
        }
    }

    fn prefix(&mut self, prefix: &mut Prefix) {
        match prefix {
            Prefix::Call(call) => self.call(call),
            Prefix::Field(field) => self.prefix(field.mutate_prefix()),
            Prefix::Identifier(identifier) => self.occurrence(identifier),
            Prefix::Index(index) => {
                self.prefix(index.mutate_prefix());
                self.expr(index.mutate_index());
            }
            Prefix::Parenthese(p) => self.expr(p.mutate_inner_expression()),
            Prefix::TypeInstantiation(inst) => {
                self.shape.has_types = true;
                self.prefix(inst.mutate_prefix());
                for t in inst.iter_mut_types() {
                    self.ty(t);
                }
            }
        }
    }

    fn call(&mut self, call: &mut FunctionCall) {
        // the method name of `a:m()` and field names are not variables
        self.prefix(call.mutate_prefix());
        match call.mutate_arguments() {
            Arguments::Tuple(tuple) => {
                for value in tuple.iter_mut_values() {
                    self.expr(value);
                }
            }
            Arguments::String(_) => {}
            Arguments::Table(table) => self.table(table),
        }
    }

    fn table(&mut self, table: &mut TableExpression) {
        for entry in table.iter_mut_entries() {
            match entry {
                // `{ k = v }`: k is a string key, not a variable
                TableEntry::Field(field) => self.expr(field.mutate_value()),
                TableEntry::Index(index) => {
                    self.expr(index.mutate_key());
                    self.expr(index.mutate_value());
                }
                TableEntry::Value(value) => self.expr(value),
            }
        }
    }

    // ---- Luau types: variables occur in `typeof(e)` and as the namespace of `M.T`

    fn ty(&mut self, t: &mut Type) {
        self.shape.has_types = true;
        match t {
            Type::Name(name) => self.type_name(name),
            Type::Field(field) => {
                self.occurrence(field.mutate_namespace());
                self.type_name(field.mutate_type_name());
            }
            Type::Array(array) => self.ty(array.mutate_element_type()),
            Type::Table(table) => {
                for entry in table.iter_mut_entries() {
                    match entry {
                        TableEntryType::Property(p) => self.ty(p.mutate_type()),
                        TableEntryType::Literal(p) => self.ty(p.mutate_type()),
                        TableEntryType::Indexer(i) => {
                            self.ty(i.mutate_key_type());
                            self.ty(i.mutate_value_type());
                        }
                    }
                }
            }
            Type::TypeOf(e) => self.expr(e.mutate_expression()),
            Type::Parenthese(p) => self.ty(p.mutate_inner_type()),
            Type::Function(f) => {
                for argument in f.iter_mut_arguments() {
                    self.ty(argument.mutate_type());
                }
                if let Some(v) = f.mutate_variadic_argument_type() {
                    self.variadic_arg_ty(v);
                }
                self.ret_ty(f.mutate_return_type());
            }
            Type::Optional(o) => self.ty(o.mutate_inner_type()),
            Type::Intersection(i) => {
                for t in i.iter_mut_types() {
                    self.ty(t);
                }
            }
            Type::Union(u) => {
                for t in u.iter_mut_types() {
                    self.ty(t);
                }
            }
            Type::String(_) | Type::True(_) | Type::False(_) | Type::Nil(_) => {}
        }
    }

    fn type_name(&mut self, name: &mut TypeName) {
        if let Some(parameters) = name.mutate_type_parameters() {
            for parameter in parameters.iter_mut() {
                match parameter {
                    TypeParameter::Type(t) => self.ty(t),
                    TypeParameter::TypePack(pack) => self.type_pack(pack),
                    TypeParameter::VariadicTypePack(v) => self.ty(v.mutate_type()),
                    TypeParameter::GenericTypePack(_) => {}
                }
            }
        }
    }

    fn type_pack(&mut self, pack: &mut TypePack) {
        for t in pack.iter_mut() {
            self.ty(t);
        }
        if let Some(v) = pack.mutate_variadic_type() {
            self.variadic_arg_ty(v);
        }
    }

    fn variadic_arg_ty(&mut self, v: &mut VariadicArgumentType) {
        match v {
            VariadicArgumentType::VariadicTypePack(pack) => self.ty(pack.mutate_type()),
            VariadicArgumentType::GenericTypePack(_) => {}
        }
    }

    fn fn_variadic_ty(&mut self, v: &mut FunctionVariadicType) {
        match v {
            FunctionVariadicType::Type(t) => self.ty(t),
            FunctionVariadicType::GenericTypePack(_) => {}
        }
    }

    fn ret_ty(&mut self, r: &mut FunctionReturnType) {
        match r {
            FunctionReturnType::Type(t) => self.ty(t),
            FunctionReturnType::TypePack(pack) => self.type_pack(pack),
            FunctionReturnType::VariadicTypePack(v) => self.ty(v.mutate_type()),
            FunctionReturnType::GenericTypePack(_) => {}
        }
    }

    // ---- views

    fn targets_equal(&self, other: &Resolver) -> bool {
        self.occs.len() == other.occs.len()
            && self.decls.len() == other.decls.len()
            && self.occs.iter().zip(&other.occs).all(|(a, b)| a.target == b.target)
            && self.decls.iter().zip(&other.decls).all(|(a, b)| a.kind == b.kind)
    }

    fn globals_used(&self) -> BTreeSet<String> {
        self.occs
            .iter()
            .filter(|o| o.target == GLOBAL)
            .map(|o| self.name_of(o.name).to_owned())
            .collect()
    }

    /// `c09.resolve` rendering: one item per occurrence, `g` or the declaration ordinal
    fn resolve_wire(&self) -> String {
        if self.occs.is_empty() {
            return ".".to_owned();
        }
        let mut out = String::with_capacity(self.occs.len() * 3);
        for (i, o) in self.occs.iter().enumerate() {
            if i > 0 {
                out.push(',');
            }
            if o.target == GLOBAL {
                out.push('g');
            } else {
                out.push_str(&o.target.to_string());
            }
        }
        out
    }
}

fn describe_target(r: &Resolver, target: u32) -> String {
    if target == GLOBAL {
        "global".to_owned()
    } else {
        let d = &r.decls[target as usize];
        format!("declaration #{} ({:?} `{}`)", target, d.kind, r.name_of(d.name))
    }
}

fn generate_text(block: &Block) -> String {
    let mut generator = DenseLuaGenerator::default();
    generator.write_block(block);
    generator.into_string()
}

/// What the oracle knows about the input program (computed once per program).
struct InputFacts {
    luau: Resolver,
    erased: Block,
    /// Hannot: the Luau-faithful graph equals the graph under ScopeVisitor's three deviations
    hannot: bool,
    globals_used: BTreeSet<String>,
}

fn input_facts(block_in: &Block) -> InputFacts {
    let mut erased = block_in.clone();
    let luau = Resolver::run(Mode::Luau, true, &mut erased);
    // F09b / F09c are fixed: ScopeVisitor resolves binder annotations and type-function
    // parameters the way Luau does; nothing is excused any more (Hannot is always true)
    let hannot = true;
    let globals_used = luau.globals_used();
    InputFacts { luau, erased, hannot, globals_used }
}

/// the region in which the property is claimed for a configuration
fn claimed(facts: &InputFacts, cfg: &Cfg) -> bool {
    let globals = cfg.effective_globals();
    cfg.detect || facts.globals_used.iter().all(|g| globals.contains(g))
}

struct OracleOutcome {
    failure: Option<(String, String)>, // (check, what)
    renamed_any: bool,
    reuses_out: u64,
}

/// The property judged on the real output. `block_out` is consumed (erased in place).
fn oracle(facts: &InputFacts, mut block_out: Block, cfg: &Cfg, reparse: bool) -> OracleOutcome {
    let text = if reparse { Some(generate_text(&block_out)) } else { None };
    let rout = Resolver::run(Mode::Luau, true, &mut block_out);
    oracle_core(&facts.luau, rout, Some((&facts.erased, &block_out)), &facts.globals_used, cfg, text)
}

/// demands (a) (b) (d) on two graphs, (c) on the erased trees when given, (e) on the text when given
fn oracle_core(
    rin: &Resolver,
    rout: Resolver,
    erased: Option<(&Block, &Block)>,
    globals_used: &BTreeSet<String>,
    cfg: &Cfg,
    text: Option<String>,
) -> OracleOutcome {
    let mut renamed_any = false;
    let fail = |check: &str, what: String, renamed_any: bool, reuses_out: u64| OracleOutcome {
        failure: Some((check.to_owned(), what)),
        renamed_any,
        reuses_out,
    };
    // (a) same binding graph
    if rin.occs.len() != rout.occs.len() || rin.decls.len() != rout.decls.len() {
        return fail(
            "graph-shape",
            format!(
                "occurrences {} -> {}, declarations {} -> {}",
                rin.occs.len(),
                rout.occs.len(),
                rin.decls.len(),
                rout.decls.len()
            ),
            false,
            rout.reuses,
        );
    }
    for i in 0..rin.decls.len() {
        if rin.decls[i].kind != rout.decls[i].kind {
            return fail("graph-shape", format!("declaration #{} changed its kind", i), false, rout.reuses);
        }
        if rin.decl_name(i) != rout.decl_name(i) {
            renamed_any = true;
        }
    }
    for i in 0..rin.occs.len() {
        if rin.occs[i].target != rout.occs[i].target {
            return fail(
                "binding-changed",
                format!(
                    "occurrence #{} `{}` (now `{}`) referred to {} and now refers to {}",
                    i,
                    rin.occ_name(i),
                    rout.occ_name(i),
                    describe_target(rin, rin.occs[i].target),
                    describe_target(&rout, rout.occs[i].target)
                ),
                renamed_any,
                rout.reuses,
            );
        }
    }
    // (b) globals, implicit self and (include_functions = false) local function names keep their name
    for i in 0..rin.occs.len() {
        let target = rin.occs[i].target;
        if target == GLOBAL {
            if rin.occ_name(i) != rout.occ_name(i) {
                return fail(
                    "global-renamed",
                    format!("global occurrence #{} `{}` became `{}`", i, rin.occ_name(i), rout.occ_name(i)),
                    renamed_any,
                    rout.reuses,
                );
            }
        } else if rin.decls[target as usize].kind == DK::ImplicitSelf && rout.occ_name(i) != "self" {
            return fail(
                "self-renamed",
                format!("occurrence #{} of the implicit self became `{}`", i, rout.occ_name(i)),
                renamed_any,
                rout.reuses,
            );
        }
    }
    if !cfg.incl {
        for i in 0..rin.decls.len() {
            if rin.decls[i].kind == DK::LocalFn && rin.decl_name(i) != rout.decl_name(i) {
                return fail(
                    "function-name-renamed",
                    format!(
                        "include_functions=false but local function `{}` became `{}`",
                        rin.decl_name(i),
                        rout.decl_name(i)
                    ),
                    renamed_any,
                    rout.reuses,
                );
            }
        }
    }
    // (c) everything that is not a variable name is untouched
    if erased.map(|(a, b)| a != b).unwrap_or(false) {
        return fail(
            "non-variable-part-changed",
            "after erasing every declaration and occurrence name the trees differ (field, method, key, string or structure changed)".to_owned(),
            renamed_any,
            rout.reuses,
        );
    }
    // (d) generated names are not reserved, not configured globals, not globals of the file
    let configured = cfg.effective_globals();
    for i in 0..rout.decls.len() {
        let kind = rout.decls[i].kind;
        let generated = match kind {
            DK::ImplicitSelf | DK::TypeFnParam => false,
            DK::LocalFn => cfg.incl,
            _ => true,
        };
        if !generated {
            continue;
        }
        let name = rout.decl_name(i);
        let why = if LUA_KEYWORDS.contains(&name) {
            Some("a Lua keyword")
        } else if configured.iter().any(|g| g == name) {
            Some("in the configured globals list")
        } else if globals_used.contains(name) {
            Some("a global the file uses")
        } else if name.is_empty()
            || name.as_bytes()[0].is_ascii_digit()
            || !name.bytes().all(|b| b.is_ascii_alphanumeric() || b == b'_')
        {
            Some("not an identifier")
        } else {
            None
        };
        if let Some(why) = why {
            return fail(
                "bad-generated-name",
                format!("declaration #{} `{}` was renamed to `{}` which is {}", i, rin.decl_name(i), name, why),
                renamed_any,
                rout.reuses,
            );
        }
    }
    // (e) the generated text parses back to the same graph
    if let Some(text) = text {
        match Parser::default().parse(&text) {
            Err(e) => {
                return fail("output-does-not-parse", format!("{:?} on `{}`", e.to_string(), clip(&text, 300)), renamed_any, rout.reuses)
            }
            Ok(mut reparsed) => {
                let again = Resolver::run(Mode::Luau, false, &mut reparsed);
                let same = again.targets_equal(&rout)
                    && (0..again.occs.len()).all(|i| again.occ_name(i) == rout.occ_name(i))
                    && (0..again.decls.len()).all(|i| again.decl_name(i) == rout.decl_name(i));
                if !same {
                    return fail(
                        "output-text-graph",
                        format!("the generated text `{}` has a different binding graph than the output tree", clip(&text, 300)),
                        renamed_any,
                        rout.reuses,
                    );
                }
            }
        }
    }
    OracleOutcome { failure: None, renamed_any, reuses_out: rout.reuses }
}

fn clip(text: &str, n: usize) -> String {
    if text.len() <= n {
        text.to_owned()
    } else {
        let mut end = n;
        while !text.is_char_boundary(end) {
            end -= 1;
        }
        format!("{}…[{} bytes]", &text[..end], text.len())
    }
}

// ------------------------------------------------------------------------------------------
// program sources: text, or programmatic stress generators (self-contained descriptors)
// ------------------------------------------------------------------------------------------

#[derive(Clone, Debug, PartialEq, Eq, Hash)]
enum Src {
    Text(String),
    /// `local x` × n (same name, same scope) then `return x`
    SameName(usize),
    /// `function t:m() local x, x, … (n names, 1000 per statement) return self end` — the `self` capture witness
    SelfCapture(usize),
}

impl Src {
    fn to_json(&self) -> Value {
        match self {
            Src::Text(t) => json!({"program": t}),
            Src::SameName(n) => json!({"gen": {"kind": "same_name", "locals": n}}),
            Src::SelfCapture(n) => json!({"gen": {"kind": "self_capture", "locals": n}}),
        }
    }
    fn from_json(v: &Value) -> Option<Src> {
        if let Some(p) = v["program"].as_str() {
            return Some(Src::Text(p.to_owned()));
        }
        let g = if v["gen"].is_object() { &v["gen"] } else { v };
        let n = g["locals"].as_u64()? as usize;
        match g["kind"].as_str()? {
            "same_name" => Some(Src::SameName(n)),
            "self_capture" => Some(Src::SelfCapture(n)),
            _ => None,
        }
    }
    fn materialize(&self) -> Result<Block, String> {
        match self {
            Src::Text(text) => match catch_unwind(AssertUnwindSafe(|| Parser::default().parse(text))) {
                Ok(Ok(block)) => Ok(block),
                Ok(Err(e)) => Err(e.to_string()),
                Err(_) => Err("parser panicked".to_owned()),
            },
            Src::SameName(n) => {
                let statements: Vec<Statement> =
                    (0..*n).map(|_| VariableAssignment::new(vec![TypedIdentifier::new("x")], Vec::new()).into()).collect();
                Ok(Block::new(statements, Some(ReturnStatement::one(Expression::identifier("x")).into())))
            }
            Src::SelfCapture(n) => {
                // `local x, x, … , x` 1000 names per statement (a Statement node alone is ~0.8 kB)
                let mut statements: Vec<Statement> = Vec::with_capacity(n / 1000 + 1);
                let mut left = *n;
                while left > 0 {
                    let k = left.min(1000);
                    let names: Vec<TypedIdentifier> = (0..k).map(|_| TypedIdentifier::new("x")).collect();
                    statements.push(VariableAssignment::new(names, Vec::new()).into());
                    left -= k;
                }
                let body = Block::new(statements, Some(ReturnStatement::one(Expression::identifier("self")).into()));
                let name = FunctionName::from_name("t").with_method("m");
                let function = FunctionStatement::new(name, body, Vec::new(), false);
                Ok(Block::new(vec![function.into()], None))
            }
        }
    }
    fn is_small(&self) -> bool {
        match self {
            Src::Text(t) => t.len() < 200_000,
            _ => false,
        }
    }
}

fn case_input(src: &Src, cfg: &Cfg) -> Value {
    let mut v = src.to_json();
    let c = cfg.to_json();
    for (k, x) in c.as_object().unwrap() {
        v[k] = x.clone();
    }
    v
}

// ------------------------------------------------------------------------------------------
// per-thread accumulators and the cached model connection
// ------------------------------------------------------------------------------------------

#[derive(Default)]
struct Stats {
    evaluations: u64,
    nontrivial: HashSet<u64>,
    hist: BTreeMap<(String, String), u64>,
    counters: BTreeMap<String, u64>,
    samples: Vec<Value>,
    violations: Vec<Violation>,
    notes: Vec<String>,
}

impl Stats {
    fn hist(&mut self, name: &str, bucket: &str) {
        *self.hist.entry((name.to_owned(), bucket.to_owned())).or_default() += 1;
    }
    fn count(&mut self, name: &str, n: u64) {
        *self.counters.entry(name.to_owned()).or_default() += n;
    }
    fn violation(&mut self, kind: &str, check: &str, what: String, input: Value, found: bool) {
        if self.violations.iter().filter(|v| v.kind == kind && v.check == check).count() >= 3 {
            self.count("violations_suppressed_in_thread", 1);
            return;
        }
        self.violations.push(Violation {
            kind: kind.to_owned(),
            check: check.to_owned(),
            what,
            input,
            failing_input_found: found,
        });
    }
    fn merge_into(self, report: &mut Report) {
        let trivial = self.evaluations.saturating_sub(self.nontrivial.len() as u64);
        report.evaluations += trivial;
        for key in self.nontrivial {
            report.case(Some(key));
        }
        for ((name, bucket), n) in self.hist {
            *report.histograms.entry(name).or_default().entry(bucket).or_default() += n;
        }
        for (name, n) in self.counters {
            report.count(&name, n);
        }
        for s in self.samples {
            report.sample(s);
        }
        for v in self.violations {
            report.violation(v);
        }
        report.notes.extend(self.notes);
    }
}

struct CachedModel {
    model: Model,
    cache: HashMap<String, String>,
    hits: u64,
}

impl CachedModel {
    fn spawn() -> CachedModel {
        CachedModel { model: Model::spawn(), cache: HashMap::new(), hits: 0 }
    }
    fn ask(&mut self, line: &str) -> String {
        if let Some(a) = self.cache.get(line) {
            self.hits += 1;
            return a.clone();
        }
        let answer = self.model.ask(line);
        if line.len() < 4096 {
            self.remember(line.to_owned(), answer.clone());
        }
        answer
    }
    fn remember(&mut self, line: String, answer: String) {
        if self.cache.len() > 300_000 {
            self.cache.clear();
        }
        self.cache.insert(line, answer);
    }
    /// answers for all lines (cached ones are not sent again)
    fn ask_all(&mut self, lines: &[String]) -> Vec<String> {
        let mut missing: Vec<String> = Vec::new();
        let mut seen: HashSet<&str> = HashSet::new();
        for line in lines {
            if !self.cache.contains_key(line.as_str()) && seen.insert(line.as_str()) {
                missing.push(line.clone());
            }
        }
        self.hits += (lines.len() - missing.len()) as u64;
        let answers = self.model.ask_batch(&missing);
        let mut fresh: HashMap<String, String> = HashMap::new();
        for (line, answer) in missing.into_iter().zip(answers) {
            fresh.insert(line, answer);
        }
        let result = lines
            .iter()
            .map(|line| self.cache.get(line).or_else(|| fresh.get(line)).cloned().unwrap_or_default())
            .collect();
        for (line, answer) in fresh {
            if line.len() < 4096 {
                self.remember(line, answer);
            }
        }
        result
    }
}

// ------------------------------------------------------------------------------------------
// one program under several configurations: real code, oracle, then the model
// ------------------------------------------------------------------------------------------

fn bucket(n: usize) -> &'static str {
    match n {
        0 => "0",
        1..=4 => "1-4",
        5..=16 => "5-16",
        17..=64 => "17-64",
        65..=512 => "65-512",
        513..=4096 => "513-4096",
        _ => ">4096",
    }
}

struct CfgRun {
    cfg: Cfg,
    /// Err = the real rule failed (message)
    events_out: Result<String, String>,
    claimed: bool,
    oracle: Option<OracleOutcome>,
}

struct Prepared {
    src: Src,
    events_in: String,
    globals_real: Result<String, String>,
    resolve_indep: Option<String>,
    hannot: bool,
    shadows: u64,
    captures: u64,
    runs: Vec<CfgRun>,
}

/// everything that does not need the model
fn prepare(src: &Src, cfgs: &[Cfg], family: &str, st: &mut Stats, reparse: bool, text_path: bool) -> Option<Prepared> {
    let mut block_in = match src.materialize() {
        Ok(b) => b,
        Err(e) => {
            if std::env::var("C09_DEBUG_PARSE").is_ok() && st.counters.get("dbg").copied().unwrap_or(0) < 3 {
                st.count("dbg", 1);
                eprintln!("--- parse failure: {}\n{}", clip(&e, 200), src.to_json()["program"].as_str().unwrap_or(""));
            }
            st.hist("outcome", "input-does-not-parse(skipped)");
            st.hist(&format!("parse-skips:{}", family), "n");
            return None;
        }
    };
    let events_in = match record_events(&mut block_in) {
        Ok(e) => e,
        Err(what) => {
            st.violation("correspondence", "recorder", what, src.to_json(), false);
            return None;
        }
    };
    if !wire_names_ok(&events_in) {
        st.hist("outcome", "non-wire-name(skipped)");
        return None;
    }
    let globals_real = real_globals(&mut block_in.clone());
    let facts = input_facts(&block_in);
    // per-program distribution
    st.hist("family", family);
    st.hist("max_live_locals", bucket(facts.luau.max_live));
    st.hist("declarations", bucket(facts.luau.decls.len()));
    st.hist("occurrences", bucket(facts.luau.occs.len()));
    for k in &facts.luau.shape.stmt_kinds {
        st.hist("statement_kind(programs containing)", k);
    }
    for k in &facts.luau.shape.scope_kinds {
        st.hist("scope_kind(programs containing)", k);
    }
    if facts.luau.shape.has_types {
        st.hist("feature(programs containing)", "luau-type-annotation");
    }
    if facts.luau.shadows > 0 {
        st.hist("feature(programs containing)", "shadowing");
    }
    if facts.luau.captures > 0 {
        st.hist("feature(programs containing)", "upvalue-capture");
    }
    if facts.luau.reuses > 0 {
        st.hist("feature(programs containing)", "name-redeclared-after-scope-exit");
    }
    if facts.luau.decls.iter().any(|d| d.kind == DK::ImplicitSelf) {
        st.hist("feature(programs containing)", "implicit-self");
    }
    if !facts.globals_used.is_empty() {
        st.hist("feature(programs containing)", "global-use");
    }
    if !facts.hannot {
        st.hist("feature(programs containing)", "outside-Hannot");
    }
    let resolve_indep = if facts.hannot && !facts.luau.shape.has_type_fn_params {
        Some(facts.luau.resolve_wire())
    } else {
        None
    };
    let mut runs = Vec::with_capacity(cfgs.len());
    for (i, cfg) in cfgs.iter().enumerate() {
        st.evaluations += 1;
        st.hist("config", &format!("incl={} detect={}", cfg.incl as u8, cfg.detect as u8));
        let mut block_out = block_in.clone();
        // a third of the generated cases go through the json5 configuration text
        let mut cfg = cfg.clone();
        if text_path && !cfg.via_text && (hash_of(&events_in).wrapping_add(i as u64)) % 3 == 0 {
            cfg.via_text = true;
            // three quarters of the text configurations carry `$default` / `$roblox` at
            // arbitrary positions among the names (before, between, after)
            let h = hash_of(&(&events_in, i, "group tokens"));
            let mut insert = |token: &str, salt: u64| {
                let at = (h.rotate_left(salt as u32) % (cfg.globals.len() as u64 + 1)) as usize;
                cfg.globals.insert(at, token.to_owned());
            };
            let roblox_ok = *ROBLOX_COPY_OK.get_or_init(roblox_globals_copy_is_current);
            match h % 4 {
                1 => insert(GROUP_DEFAULT, 7),
                2 if roblox_ok => insert(GROUP_ROBLOX, 13),
                3 => {
                    insert(GROUP_DEFAULT, 7);
                    if roblox_ok {
                        insert(GROUP_ROBLOX, 13);
                    }
                }
                _ => {}
            }
        }
        let cfg = &cfg;
        st.hist(
            "rule_built_from",
            if !cfg.via_text {
                "RenameVariables::new(list)"
            } else if cfg.globals.iter().any(|g| is_group_token(g)) {
                "json5 config text ($default + list with $default/$roblox tokens interleaved)"
            } else {
                "json5 config text ($default + list)"
            },
        );
        let is_claimed = claimed(&facts, cfg);
        let events_out = apply_rule(&mut block_out, cfg).and_then(|_| record_events(&mut block_out));
        let mut outcome = None;
        if events_out.is_ok() {
            if is_claimed {
                st.hist("oracle", if facts.hannot { "judged" } else { "judged(outside Hannot)" });
                outcome = Some(oracle(&facts, block_out, cfg, reparse && src.is_small()));
            } else {
                st.hist("oracle", "not-claimed(detect off, globals not covered)");
            }
        }
        runs.push(CfgRun { cfg: cfg.clone(), events_out, claimed: is_claimed, oracle: outcome });
    }
    Some(Prepared {
        src: src.clone(),
        events_in,
        globals_real,
        resolve_indep,
        hannot: facts.hannot,
        shadows: facts.luau.shadows,
        captures: facts.luau.captures,
        runs,
    })
}

/// model questions for prepared programs, comparison, violation reporting
fn judge(prepared: Vec<Prepared>, model: &mut CachedModel, st: &mut Stats, search: &mut Rng) {
    let mut lines: Vec<String> = Vec::new();
    for p in &prepared {
        lines.push(format!("c09.globals {}", p.events_in));
        lines.push(format!("c09.resolve {}", p.events_in));
        for run in &p.runs {
            lines.push(format!("c09.rename {} {}", run.cfg.wire(), p.events_in));
        }
    }
    let answers = model.ask_all(&lines);
    let mut k = 0;
    for p in &prepared {
        let globals_model = &answers[k];
        let resolve_model = &answers[k + 1];
        k += 2;
        let any_cfg = p.runs.first().map(|r| r.cfg.clone()).unwrap_or_else(|| Cfg::new(false, true, &[]));
        match &p.globals_real {
            Ok(real) if real == globals_model => {}
            Ok(real) => correspondence_break(
                st,
                model,
                search,
                &p.src,
                &any_cfg,
                "collect-globals",
                format!("CollectGlobalsProcessor = {} ; model c09.globals = {}", clip(real, 200), clip(globals_model, 200)),
            ),
            Err(what) => correspondence_break(st, model, search, &p.src, &any_cfg, "collect-globals", what.clone()),
        }
        if let Some(indep) = &p.resolve_indep {
            if indep != resolve_model {
                correspondence_break(
                    st,
                    model,
                    search,
                    &p.src,
                    &any_cfg,
                    "resolve-vs-independent-resolver",
                    format!(
                        "Lean reference resolver = {} ; independent Lua-manual resolver on the AST = {}",
                        clip(resolve_model, 200),
                        clip(indep, 200)
                    ),
                );
            }
        }
        for run in &p.runs {
            let rename_model = &answers[k];
            k += 1;
            let mut nontrivial = false;
            match &run.events_out {
                Ok(real) if real == rename_model => {
                    st.count("rename_streams_equal", 1);
                }
                Ok(real) => correspondence_break(
                    st,
                    model,
                    search,
                    &p.src,
                    &run.cfg,
                    "rename-event-stream",
                    format!("first difference: {}", first_difference(real, rename_model)),
                ),
                Err(what) => {
                    correspondence_break(st, model, search, &p.src, &run.cfg, "real-rule-failed", what.clone())
                }
            }
            if let Some(outcome) = &run.oracle {
                if let Some((check, what)) = &outcome.failure {
                    // F09a is fixed: nothing is excused for `self` any more (the model proves
                    // `c09.hself` = true on every run)
                    if !p.hannot {
                        st.hist("oracle", "failed-outside-Hannot(known defect region, silent)");
                    } else {
                        st.violation("oracle", check, what.clone(), case_input(&p.src, &run.cfg), true);
                    }
                } else {
                    nontrivial = outcome.renamed_any && (p.shadows + p.captures + outcome.reuses_out) > 0;
                    if outcome.reuses_out > 0 {
                        st.hist("oracle", "passed, output reuses a generated name after scope exit");
                    }
                }
            } else if run.events_out.is_ok() {
                nontrivial = p.shadows + p.captures > 0 && run.events_out.as_ref().ok() != Some(&p.events_in);
            }
            if nontrivial {
                st.nontrivial.insert(hash_of(&(&p.events_in, &run.cfg)));
            }
            if st.samples.len() < 2 && nontrivial && p.src.is_small() && p.events_in.len() > 60 {
                st.samples.push(json!({
                    "input": case_input(&p.src, &run.cfg),
                    "events_in": clip(&p.events_in, 400),
                    "events_out": clip(run.events_out.as_ref().map(|s| s.as_str()).unwrap_or(""), 400),
                    "claimed": run.claimed,
                }));
            }
        }
    }
}

fn first_difference(real: &str, model: &str) -> String {
    let a: Vec<&str> = real.split(';').collect();
    let b: Vec<&str> = model.split(';').collect();
    for i in 0..a.len().max(b.len()) {
        let x = a.get(i).copied().unwrap_or("<end>");
        let y = b.get(i).copied().unwrap_or("<end>");
        if x != y {
            return format!("event #{}: real `{}` model `{}` (real stream {} events, model answer {})", i, x, y, a.len(), clip(model, 120));
        }
    }
    "none".to_owned()
}

/// only the oracle, on one input; Some(check, what) when the property fails inside the claimed,
/// proved region (Hannot holds)
fn oracle_only(src: &Src, cfg: &Cfg, model: &mut CachedModel) -> Option<(String, String)> {
    let mut block_in = src.materialize().ok()?;
    let facts = input_facts(&block_in);
    if !facts.hannot || !claimed(&facts, cfg) {
        return None;
    }
    let mut block_out = block_in.clone();
    apply_rule(&mut block_out, cfg).ok()?;
    let outcome = oracle(&facts, block_out, cfg, true);
    let failure = outcome.failure?;
    let events_in = record_events(&mut block_in).ok()?;
    let _ = (&events_in, &model);
    Some(failure)
}

/// BUILDING.md protocol: before reporting a model/code difference look for an input on which the
/// property itself fails (the input, other configurations, one-step mutations, random neighbours).
fn correspondence_break(
    st: &mut Stats,
    model: &mut CachedModel,
    search: &mut Rng,
    src: &Src,
    cfg: &Cfg,
    check: &str,
    what: String,
) {
    if st.violations.iter().filter(|v| v.check == check || v.check.starts_with(check)).count() >= 3 {
        st.count("violations_suppressed_in_thread", 1);
        return;
    }
    // a systematic break makes every case differ: investigate only the first few per worker
    // (each investigation runs ~220 further programs), the rest are counted
    if st.counters.get("correspondence_breaks_investigated").copied().unwrap_or(0) >= 4 {
        st.count("correspondence_breaks_counted_only", 1);
        return;
    }
    st.count("correspondence_breaks_investigated", 1);
    let mut candidates: Vec<(Src, Cfg)> = Vec::new();
    let mut cfgs = vec![cfg.clone()];
    for incl in [false, true] {
        for globals in [Vec::new(), cfg.globals.clone(), strs(&["a", "b", "c", "print"])] {
            let globals = globals.into_iter().filter(|g| !is_group_token(g)).collect();
            cfgs.push(Cfg { incl, detect: true, globals, via_text: false });
        }
    }
    for c in &cfgs {
        candidates.push((src.clone(), c.clone()));
    }
    if let Src::Text(text) = src {
        if text.len() < 4000 {
            for mutant in mutations(text, search, 60) {
                candidates.push((Src::Text(mutant), cfgs[search.below(cfgs.len())].clone()));
            }
        }
        for _ in 0..150 {
            let program = random_program(&mut search.fork(), 5, true);
            candidates.push((Src::Text(program), cfgs[search.below(cfgs.len())].clone()));
        }
    }
    for (s, c) in candidates {
        if let Some((ocheck, owhat)) = oracle_only(&s, &c, model) {
            st.violation(
                "oracle",
                &ocheck,
                format!("{} (found while investigating a correspondence break in `{}`: {})", owhat, check, clip(&what, 300)),
                case_input(&s, &c),
                true,
            );
            return;
        }
    }
    st.violation("correspondence", check, what, case_input(src, cfg), false);
}

fn strs(names: &[&str]) -> Vec<String> {
    names.iter().map(|s| (*s).to_owned()).collect()
}

/// one-step mutations of a program text: drop a line, swap one identifier token for another
fn mutations(text: &str, rng: &mut Rng, budget: usize) -> Vec<String> {
    let mut out = Vec::new();
    let lines: Vec<&str> = text.split('\n').collect();
    if lines.len() > 1 {
        for _ in 0..budget / 3 {
            let skip = rng.below(lines.len());
            let kept: Vec<&str> = lines.iter().enumerate().filter(|(i, _)| *i != skip).map(|(_, l)| *l).collect();
            out.push(kept.join("\n"));
        }
    }
    let bytes = text.as_bytes();
    let mut tokens: Vec<(usize, usize)> = Vec::new();
    let mut i = 0;
    while i < bytes.len() {
        if bytes[i].is_ascii_alphabetic() || bytes[i] == b'_' {
            let start = i;
            while i < bytes.len() && (bytes[i].is_ascii_alphanumeric() || bytes[i] == b'_') {
                i += 1;
            }
            if !LUA_KEYWORDS.contains(&&text[start..i]) {
                tokens.push((start, i));
            }
        } else {
            i += 1;
        }
    }
    if !tokens.is_empty() {
        for _ in 0..(budget - out.len().min(budget)) {
            let (s, e) = tokens[rng.below(tokens.len())];
            let (s2, e2) = tokens[rng.below(tokens.len())];
            let replacement = if rng.chance(1, 3) { "a" } else { &text[s2..e2] };
            out.push(format!("{}{}{}", &text[..s], replacement, &text[e..]));
        }
    }
    out
}

/// run a list of (program, configurations) on the calling thread
fn run_items(items: &[Item], family: &str, model: &mut CachedModel, st: &mut Stats, search: &mut Rng, reparse: bool) {
    // corpus / replay inputs say themselves how the rule is built; generated ones are spread
    let text_path = family != "corpus" && family != "replay" && *TEXT_PATH_OK.get_or_init(default_globals_copy_is_current);
    for chunk in items.chunks(48) {
        let mut prepared = Vec::with_capacity(chunk.len());
        for (src, cfgs) in chunk {
            if let Some(p) = prepare(src, cfgs, family, st, reparse, text_path) {
                prepared.push(p);
            }
        }
        judge(prepared, model, st, search);
    }
}

/// spread the items over THREADS workers (one model process each)
fn run_parallel(report: &mut Report, family: &str, items: Vec<Item>, reparse: bool) {
    if items.is_empty() {
        return;
    }
    let started = Instant::now();
    let n = items.len();
    let threads = THREADS.min(n.max(1));
    let per = (n + threads - 1) / threads;
    let seed = report.seed;
    let results: Vec<Stats> = std::thread::scope(|scope| {
        let handles: Vec<_> = items
            .chunks(per)
            .enumerate()
            .map(|(t, slice)| {
                // deeply nested inputs recurse in the parser, the rule and the resolver: a stack
                // overflow cannot be caught, so the workers get a large (virtual) stack
                std::thread::Builder::new().stack_size(1 << 30).spawn_scoped(scope, move || {
                    let mut st = Stats::default();
                    let mut model = CachedModel::spawn();
                    let mut search = Rng::new(seed ^ hash_of(&(family, t)));
                    run_items(slice, family, &mut model, &mut st, &mut search, reparse);
                    st.count("model_requests", model.model.requests);
                    st.count("model_cache_hits", model.hits);
                    st
                })
                .expect("cannot spawn a worker thread")
            })
            .collect();
        handles
            .into_iter()
            .map(|h| match h.join() {
                Ok(st) => st,
                Err(payload) => {
                    let message = payload
                        .downcast_ref::<String>()
                        .cloned()
                        .or_else(|| payload.downcast_ref::<&str>().map(|s| (*s).to_owned()))
                        .unwrap_or_default();
                    let mut st = Stats::default();
                    st.violation(
                        "correspondence",
                        "harness-thread-died",
                        format!("a worker thread panicked (model driver died?): {}", clip(&message, 500)),
                        json!({}),
                        false,
                    );
                    st
                }
            })
            .collect()
    });
    for st in results {
        st.merge_into(report);
    }
    report.notes.push(format!("{}: {} programs in {:.1}s", family, n, started.elapsed().as_secs_f64()));
}

// ------------------------------------------------------------------------------------------
// configurations
// ------------------------------------------------------------------------------------------

/// the 12 configurations every enumerated program is crossed with:
/// include_functions × detect_globals × {[], names the generator collides with, names the
/// programs use as locals / self / table roots}
fn all_configs() -> Vec<Cfg> {
    let lists: [&[&str]; 3] = [&[], &["a", "b", "c", "print"], &["x", "a", "self", "t", "print", "b", "M"]];
    let mut out = Vec::new();
    for incl in [false, true] {
        for detect in [true, false] {
            for list in lists {
                out.push(Cfg::new(incl, detect, list));
            }
        }
    }
    out
}

/// quick tier: 4 of the 12 configurations per program, rotating with the program index so that
/// every configuration is exercised over the enumeration and each program sees both values of
/// every switch
fn config_slice(all: &[Cfg], index: usize, thorough: bool) -> Vec<Cfg> {
    if thorough {
        return all.to_vec();
    }
    // all: incl(2) × detect(2) × lists(3), index = incl*6 + detect*3 + list
    let r = index % 3;
    vec![
        all[r].clone(),                 // incl=0 detect=1
        all[3 + (r + 1) % 3].clone(),   // incl=0 detect=0
        all[6 + (r + 2) % 3].clone(),   // incl=1 detect=1
        all[9 + r].clone(),             // incl=1 detect=0
    ]
}

fn random_config(rng: &mut Rng, program: &str) -> Cfg {
    let incl = rng.chance(1, 2);
    let detect = rng.chance(2, 3);
    let globals = match rng.below(5) {
        0 => Vec::new(),
        1 => strs(&["a", "b", "c", "print"]),
        2 => strs(&["x", "y", "self", "print", "t", "M", "a"]),
        3 => {
            // names the program itself uses (locals and globals alike)
            let mut names: Vec<String> = Vec::new();
            for token in program.split(|c: char| !(c.is_ascii_alphanumeric() || c == '_')) {
                if !token.is_empty()
                    && !token.as_bytes()[0].is_ascii_digit()
                    && !LUA_KEYWORDS.contains(&token)
                    && !names.iter().any(|n| n == token)
                    && rng.chance(1, 2)
                {
                    names.push(token.to_owned());
                }
                if names.len() >= 12 {
                    break;
                }
            }
            names
        }
        _ => strs(&["a", "b", "c", "d", "e", "f", "g", "h", "i", "j", "k", "l", "m", "n", "aa", "ab", "_", "A"]),
    };
    Cfg { incl, detect, globals, via_text: false }
}

// ------------------------------------------------------------------------------------------
// (i) exhaustive enumeration of small programs
// ------------------------------------------------------------------------------------------

fn join2(a: &str, b: &str) -> String {
    match (a.is_empty(), b.is_empty()) {
        (true, _) => b.to_owned(),
        (_, true) => a.to_owned(),
        _ => format!("{}\n{}", a, b),
    }
}

/// leaf statements: every `local n = e` over n ∈ {x,a}, e ∈ {x,a,1}, and a use of x / a / self
fn leaf_statements() -> Vec<String> {
    let mut out = Vec::new();
    for n in ["x", "a"] {
        for e in ["x", "a", "1"] {
            out.push(format!("local {} = {}", n, e));
        }
    }
    for n in ["x", "a", "self"] {
        out.push(format!("{}()", n));
    }
    out
}

fn returns() -> Vec<&'static str> {
    vec!["", "return x", "return a", "return self"]
}

/// bodies with at most one leaf statement and an optional return (40)
fn small_bodies() -> Vec<String> {
    let mut out = Vec::new();
    let mut leafs = vec![String::new()];
    leafs.extend(leaf_statements());
    for s in &leafs {
        for r in returns() {
            out.push(join2(s, r));
        }
    }
    out
}

/// block-carrying statement templates (prefix, suffix); the body goes in between
fn templates(full: bool) -> Vec<(String, String)> {
    let mut t: Vec<(String, String)> = Vec::new();
    let mut add = |p: &str, s: &str| t.push((p.to_owned(), s.to_owned()));
    if full {
        add("do", "end");
        for n in ["x", "a"] {
            add(&format!("while {} do", n), "end");
            add("repeat", &format!("until {}", n));
            add(&format!("if {} then", n), "end");
        }
        add("for x = 1, a do", "end");
        add("for a = 1, x do", "end");
        add("for x = x, 1 do", "end");
        add("for x, a in x do", "end");
        add("for a, x in a do", "end");
        add("for x, x in a do", "end");
        for n in ["x", "a"] {
            for p in ["", "x", "a"] {
                add(&format!("local function {}({})", n, p), "end");
                add(&format!("local {} = function({})", n, p), "end");
            }
            for p in ["", "x", "a"] {
                let name = if n == "x" { "x".to_owned() } else { "a.b".to_owned() };
                add(&format!("function {}({})", name, p), "end");
            }
            for p in ["", "x", "self"] {
                add(&format!("function {}:m({})", n, p), "end");
            }
        }
        add("x = function(...)", "end");
    } else {
        add("do", "end");
        add("while x do", "end");
        add("repeat", "until a");
        add("for x = 1, a do", "end");
        add("for a, x in x do", "end");
        add("if a then", "end");
        add("local function a(x)", "end");
        add("function x:m()", "end");
        add("function a.b(self)", "end");
        add("local x = function(a)", "end");
        add("function x(...)", "end");
    }
    t
}

fn wrap(t: &(String, String), body: &str) -> String {
    if body.is_empty() {
        format!("{} {}", t.0, t.1)
    } else {
        format!("{}\n{}\n{}", t.0, body, t.1)
    }
}

/// E1: [pre] T(B) [post] [return]; quick: at most one of pre/post
fn enum_e1(thorough: bool) -> Vec<String> {
    let mut pres = vec![String::new()];
    pres.extend(leaf_statements());
    let bodies = small_bodies();
    let ts = templates(true);
    let mut out = Vec::new();
    for t in &ts {
        for b in &bodies {
            let s = wrap(t, b);
            for pre in &pres {
                for post in &pres {
                    if !thorough && !pre.is_empty() && !post.is_empty() {
                        continue;
                    }
                    for r in returns() {
                        out.push(join2(&join2(pre, &s), &join2(post, r)));
                    }
                }
            }
        }
    }
    out
}

/// E2: T(T(B)) with the 11 reduced templates; thorough: also a leaf statement in front
fn enum_e2(thorough: bool) -> Vec<String> {
    let ts = templates(false);
    let bodies = small_bodies();
    let mut pres = vec![String::new()];
    if thorough {
        pres.extend(leaf_statements());
    }
    let mut out = Vec::new();
    for t1 in &ts {
        for t2 in &ts {
            for b in &bodies {
                let s = wrap(t1, &wrap(t2, b));
                for pre in &pres {
                    for r in returns() {
                        out.push(join2(&join2(pre, &s), r));
                    }
                }
            }
        }
    }
    out
}

/// E3: two sibling scopes T(s1) ; T(s2) ; return — the reuse pool after a scope closes
fn enum_e3() -> Vec<String> {
    let ts = templates(false);
    let mut leafs = vec![String::new()];
    leafs.extend(leaf_statements());
    let mut out = Vec::new();
    for t1 in &ts {
        for s1 in &leafs {
            for t2 in &ts {
                for s2 in &leafs {
                    for r in returns() {
                        out.push(join2(&join2(&wrap(t1, s1), &wrap(t2, s2)), r));
                    }
                }
            }
        }
    }
    out
}

/// E4: if / elseif / else with every triple of leaf bodies, after `local x = 1`
fn enum_e4() -> Vec<String> {
    let mut leafs = vec![String::new()];
    leafs.extend(leaf_statements());
    let mut out = Vec::new();
    for b1 in &leafs {
        for b2 in &leafs {
            for b3 in &leafs {
                for r in returns() {
                    let s = format!("local x = 1\nif x then\n{}\nelseif a then\n{}\nelse\n{}\nend", b1, b2, b3);
                    out.push(join2(&s, r));
                }
            }
        }
    }
    out
}

fn paren_if_compound(e: &str) -> String {
    let atom = e.bytes().all(|b| b.is_ascii_alphanumeric() || b == b'_' || b == b'.');
    if atom && e != "..." {
        e.to_owned()
    } else if e == "..." {
        e.to_owned()
    } else {
        format!("({})", e)
    }
}

/// E5: every expression form to depth 2 over x, a, self, 1, `...` in 5 statement positions × 4 preludes
fn enum_e5() -> Vec<String> {
    let atoms = ["x", "a", "self", "1", "..."];
    let names = ["x", "a", "self"];
    let mut d1: Vec<String> = atoms.iter().map(|s| (*s).to_owned()).collect();
    for s in atoms {
        d1.push(format!("t[{}]", s));
        d1.push(format!("{{x = {}}}", s));
        d1.push(format!("{{{}}}", s));
        d1.push(format!("({})", s));
        d1.push(format!("not {}", s));
        d1.push(format!("({} :: a.T)", s));
        d1.push(format!("`x{{{}}}a`", s));
        for p in ["", "x", "a", "..."] {
            if s != "..." || p == "..." {
                d1.push(format!("function({}) return {} end", p, s));
            }
        }
        for s2 in atoms {
            d1.push(format!("{{[{}] = {}}}", s, s2));
            d1.push(format!("{} + {}", s, s2));
            d1.push(format!("if {} then {} else 1", s, s2));
        }
    }
    for n in names {
        d1.push(format!("{}.x", n));
        for s2 in atoms {
            d1.push(format!("{}:a({})", n, s2));
            d1.push(format!("{}({})", n, s2));
        }
        for n2 in names {
            d1.push(format!("(1 :: typeof({}.{}))", n, n2));
        }
    }
    let mut exprs = d1.clone();
    for e in &d1[atoms.len()..] {
        let p = paren_if_compound(e);
        exprs.push(format!("t[{}]", e));
        exprs.push(format!("{{x = {}}}", e));
        exprs.push(format!("{{{}, a = x}}", e));
        exprs.push(format!("{{[{}] = a}}", e));
        exprs.push(format!("not {}", p));
        exprs.push(format!("{} + x", p));
        exprs.push(format!("a .. {}", p));
        exprs.push(format!("x({})", e));
        exprs.push(format!("x:self({})", e));
        exprs.push(format!("{}.a", p));
        for q in ["", "x", "a", "..."] {
            if !e.contains("...") || q == "..." {
                exprs.push(format!("function({}) return {} end", q, e));
            }
        }
    }
    let preludes = ["", "local x = 1", "local a, self = 1, 2", "local function a() end"];
    let mut out = Vec::new();
    for prelude in preludes {
        for e in &exprs {
            out.push(join2(prelude, &format!("local x = {}", e)));
            out.push(join2(prelude, &format!("local a, x = {}, x", e)));
            out.push(join2(prelude, &format!("return {}", e)));
            out.push(join2(prelude, &format!("x = {}", e)));
            out.push(join2(prelude, &format!("x[{}], a.x = a", e)));
        }
    }
    out
}

/// E6: `local n1, n2 = e1, e2` over 3 names and 3 values, 4 preludes, 4 returns
fn enum_e6() -> Vec<String> {
    let mut out = Vec::new();
    for prelude in ["", "local x = 1", "local a, self = 1, 2", "function x:m() end"] {
        for n1 in ["x", "a", "self"] {
            for n2 in ["x", "a", "self"] {
                for e1 in ["x", "a", "1"] {
                    for e2 in ["x", "self", "1"] {
                        for r in returns() {
                            out.push(join2(prelude, &join2(&format!("local {}, {} = {}, {}", n1, n2, e1, e2), r)));
                        }
                    }
                }
            }
        }
    }
    out
}


/// the names `RenameProcessor` hands out with an empty avoid list, in order (own enumeration:
/// strings over the 63-character set by length then order, without digit-leading strings and
/// keywords), up to `limit` names
fn generated_sequence(limit: usize) -> Vec<String> {
    const SET: &[u8] = b"abcdefghijklmnopqrstuvwxyzABCDEFGHIJKLMNOPQRSTUVWXYZ_0123456789";
    let mut out = Vec::with_capacity(limit);
    let mut length = 1;
    while out.len() < limit {
        let mut idx = vec![0usize; length];
        'len: loop {
            let name: String = idx.iter().map(|i| SET[*i] as char).collect();
            if !name.as_bytes()[0].is_ascii_digit() && !LUA_KEYWORDS.contains(&name.as_str()) {
                out.push(name);
                if out.len() >= limit {
                    break 'len;
                }
            }
            let mut k = length;
            loop {
                if k == 0 {
                    break 'len;
                }
                k -= 1;
                idx[k] += 1;
                if idx[k] < SET.len() {
                    break;
                }
                idx[k] = 0;
            }
        }
        length += 1;
    }
    out
}

/// E7 (directed): a source-level name S that coincides with a *generated* name, declared or used
/// inside the scope of N simultaneously live locals, N swept across the ordinal of S in the
/// generated sequence (and hence across every length boundary reached), with references to the
/// last four of the N locals inside the scope of S. Also generic-for loops whose variables are
/// named like identifiers of their own iterator expressions.
fn enum_e7(thorough: bool) -> Vec<String> {
    let sequence = generated_sequence(3600);
    let ordinal = |s: &str| sequence.iter().position(|n| n == s).map(|i| i + 1);
    let mut out = Vec::new();
    // (a) shadowing inside the iterator expressions of a generic for
    for outer in ["", "local x = t", "local x, a = t, u", "local function x() end"] {
        for (vars, exprs) in [("x", "x"), ("x", "x, a"), ("a, x", "x"), ("x, a", "a:f(x)"), ("a", "x(a)"), ("x", "pairs(x)"), ("k, x", "next, x, a")] {
            for body in ["", "use(x)", "use(a, x)", "local x = a"] {
                for tail in ["", "return x", "return a, x"] {
                    out.push(join2(outer, &join2(&format!("for {} in {} do {} end", vars, exprs, body), tail)));
                }
            }
        }
    }
    // (b) source names equal to generated names × N live locals around their ordinal
    let small: &[&str] = &["_", "a", "b", "z", "A", "Z", "aa", "ab", "a_", "aZ"];
    let large: &[&str] = &["ba", "zz", "_a", "__", "Za", "a0"];
    let mut sources: Vec<(&str, bool)> = small.iter().map(|s| (*s, false)).collect();
    if thorough {
        sources.extend(large.iter().map(|s| (*s, true)));
    }
    for (source, big) in sources {
        let Some(k0) = ordinal(source) else { continue };
        let window: Vec<usize> = if big { vec![k0.saturating_sub(1), k0, k0 + 1] } else { (k0.saturating_sub(4)..=k0 + 3).collect() };
        for n in window {
            if n == 0 {
                continue;
            }
            let mut prelude = String::new();
            for i in 1..=n {
                prelude.push_str(&format!("local v{} = {}\n", i, i));
            }
            let refs: Vec<String> = (n.saturating_sub(3).max(1)..=n).map(|i| format!("v{}", i)).collect();
            let r = refs.join(", ");
            let s = source;
            let mut templates = vec![
                format!("for {s}, item in pairs(list) do use({r}, item, {s}) end"),
                format!("return function({s}, value) return {r}, value, {s} end"),
                format!("local {s}, err = pcall(run) return {r}, err, {s}"),
            ];
            if !big {
                templates.extend([
                    format!("local function {s}(p) return {r}, p end return {s}({r})"),
                    format!("function t:m({s}) return {r}, {s}, self end"),
                    format!("return {s}, {r}"),
                    format!("repeat local {s} = {r} until {s}"),
                    format!("for {s} = 1, 2 do use({r}, {s}) end return {s}"),
                    format!("do local {s} = 1 use({s}, {r}) end local w = 1 return w, {r}"),
                ]);
            }
            for t in templates {
                out.push(format!("{}{}", prelude, t));
            }
            if !big {
                // S declared outside, the N locals inside
                out.push(format!("local {s} = 0\n{}return {s}, {r}", prelude));
                out.push(format!("local function f({s})\n{}return {s}, {r}\nend", prelude));
            }
        }
    }
    out
}


/// E8 (every configuration): [pre] T(body) [post] [return] for EVERY scope-opening construct —
/// do, while, repeat-until (the condition reading a body local), numeric / generic for (incl.
/// step, duplicated loop variables), if / else / elseif branches, local function, function
/// statement (plain, field, method), function expression as a local value, an assigned field
/// and a call argument, with plain, repeated and `self` parameters — over bodies that declare
/// generated-looking names (a, b) once, twice in the same scope (`local a, a`, `local a` twice,
/// repeated parameters / loop variables), as kept local functions, followed after the scope
/// closes by a live local and by global uses of those names. Each program runs under all 12
/// configurations (include_functions × detect_globals × 3 globals lists) in both tiers.
fn enum_e8() -> Vec<String> {
    let mut ts = templates(true);
    let mut add = |p: &str, s: &str| ts.push((p.to_owned(), s.to_owned()));
    add("if x then\nelse", "end");
    add("if x then\nelseif a then", "end");
    add("if x then\nelseif a then\nelse", "end");
    add("for x = 1, a, x do", "end");
    add("for a, a in x do", "end");
    add("for a, b, a in x do", "end");
    add("local function x(a, a)", "end");
    add("local function b(a, b, a)", "end");
    add("local x = function(a, a)", "end");
    add("function x(a, a)", "end");
    add("function x:m(a, a)", "end");
    add("x(function(a)", "end)");
    add("x(function(a, a)", "end)");
    add("t.f = function(a)", "end");
    add("x = function(a, b)", "end");
    add("repeat local a = x", "until a");
    add("while a do local a, a = x", "end");
    let bodies = [
        "",
        "local a = x",
        "local a, a = 1, 2",
        "local a = 1\nlocal a = 2",
        "local b, b = a, x",
        "local function a() end",
        "local function a() end\nlocal function a() end",
        "local function b() return a end",
        "a = x",
        "return a",
    ];
    let pres = ["", "local x = 1", "local a = 1", "local function a() end"];
    let posts = ["", "local x = 1", "local x = a", "local a = x", "local function x() end"];
    let rets = ["", "return a", "return x", "return a, b, x"];
    let mut out = Vec::new();
    for t in &ts {
        for b in bodies {
            let s = wrap(t, b);
            for pre in pres {
                for post in posts {
                    for r in rets {
                        out.push(join2(&join2(pre, &s), &join2(post, r)));
                    }
                }
            }
        }
    }
    out
}

// ------------------------------------------------------------------------------------------
// (ii) random structured programs
// ------------------------------------------------------------------------------------------

const LOCAL_POOL: [&str; 25] = [
    "x", "y", "z", "a", "b", "c", "d", "e", "aa", "ab", "ba", "self", "print", "i", "k", "v", "f", "g", "t", "M", "_", "A",
    "_0", "n", "x",
];
const GLOBAL_POOL: [&str; 12] = ["print", "a", "b", "c", "t", "M", "G", "self", "game", "x", "d", "aa"];
const FIELD_POOL: [&str; 8] = ["x", "a", "b", "self", "f", "m", "T", "print"];

struct PGen<'r> {
    rng: &'r mut Rng,
    scopes: Vec<Vec<String>>,
    vararg: Vec<bool>,
    budget: i32,
    max_depth: usize,
    types: bool,
}

impl<'r> PGen<'r> {
    fn use_name(&mut self) -> String {
        let roll = self.rng.below(100);
        let visible: Vec<&String> = self.scopes.iter().flatten().collect();
        if roll < 55 && !visible.is_empty() {
            // favour recent declarations
            let n = visible.len();
            let i = if self.rng.chance(1, 2) { n - 1 - self.rng.below(n.min(4)) } else { self.rng.below(n) };
            return visible[i].clone();
        }
        if roll < 78 {
            return (*self.rng.pick(&GLOBAL_POOL)).to_owned();
        }
        if roll < 86 {
            return "self".to_owned();
        }
        (*self.rng.pick(&LOCAL_POOL)).to_owned()
    }

    fn decl_name(&mut self) -> String {
        let roll = self.rng.below(100);
        let visible: Vec<&String> = self.scopes.iter().flatten().collect();
        if roll < 30 && !visible.is_empty() {
            let i = self.rng.below(visible.len());
            return visible[i].clone();
        }
        if roll < 48 {
            return (*self.rng.pick(&GLOBAL_POOL)).to_owned();
        }
        (*self.rng.pick(&LOCAL_POOL)).to_owned()
    }

    fn declare(&mut self, name: &str) {
        self.scopes.last_mut().unwrap().push(name.to_owned());
    }

    fn field(&mut self) -> &'static str {
        *self.rng.pick(&FIELD_POOL)
    }

    /// a type mentioning variables only through names outside `avoid` (SAFE positions only)
    fn ty(&mut self, avoid: &[String]) -> String {
        let mut name = String::new();
        for _ in 0..6 {
            let candidate = self.use_name();
            if !avoid.contains(&candidate) {
                name = candidate;
                break;
            }
        }
        if name.is_empty() {
            return "number".to_owned();
        }
        match self.rng.below(8) {
            0 => "number".to_owned(),
            1 | 2 => format!("{}.T", name),
            3 | 4 => format!("typeof({})", name),
            5 => format!("{}.{}?", name, self.field()),
            6 => format!("{{ x: {}.T, [string]: typeof({}.{}) }}", name, name, self.field()),
            _ => format!("(typeof({})) -> {}.T<number>", name, name),
        }
    }

    fn maybe_ty(&mut self, avoid: &[String]) -> String {
        if self.types && self.rng.chance(1, 3) {
            format!(": {}", self.ty(avoid))
        } else {
            String::new()
        }
    }

    fn prefix(&mut self, depth: usize) -> String {
        let name = self.use_name();
        match self.rng.below(8) {
            0 | 1 => format!("{}.{}", name, self.field()),
            2 => format!("{}[{}]", name, self.expr(depth + 1)),
            3 => format!("{}.{}.{}", name, self.field(), self.field()),
            _ => name,
        }
    }

    fn args(&mut self, depth: usize) -> String {
        let n = self.rng.below(3);
        (0..n).map(|_| self.expr(depth + 1)).collect::<Vec<_>>().join(", ")
    }

    fn call(&mut self, depth: usize) -> String {
        let p = self.prefix(depth);
        match self.rng.below(8) {
            0 | 1 | 2 => format!("{}:{}({})", p, self.field(), self.args(depth)),
            3 => format!("{}\"{}\"", p, self.field()),
            4 => format!("{}{{{} = {}}}", p, self.field(), self.expr(depth + 1)),
            _ => format!("{}({})", p, self.args(depth)),
        }
    }

    /// (parameter list text, declared names, is_vararg); annotations avoid the binders themselves
    fn signature(&mut self, own_name: Option<&str>, allow_self_param: bool) -> (String, Vec<String>, bool, String) {
        let n = self.rng.below(4);
        let mut names: Vec<String> = Vec::new();
        for _ in 0..n {
            let mut p = self.decl_name();
            if p == "self" && !allow_self_param && self.rng.chance(1, 2) {
                p = "x".to_owned();
            }
            names.push(p);
        }
        // annotations may name the parameters and the function itself (they resolve in the
        // enclosing scope; F09b fixed)
        let _ = own_name;
        let avoid: Vec<String> = Vec::new();
        let mut parts: Vec<String> = Vec::new();
        for p in &names {
            let t = self.maybe_ty(&avoid);
            parts.push(format!("{}{}", p, t));
        }
        let vararg = self.rng.chance(1, 4);
        if vararg {
            let t = self.maybe_ty(&avoid);
            parts.push(format!("...{}", t));
        }
        let ret = self.maybe_ty(&avoid);
        (parts.join(", "), names, vararg, ret)
    }

    fn function_body(&mut self, depth: usize, params: Vec<String>, vararg: bool) -> String {
        self.vararg.push(vararg);
        let body = self.block(depth + 1, params, false, false);
        self.vararg.pop();
        body
    }

    fn expr(&mut self, depth: usize) -> String {
        let deep = depth >= 3;
        let roll = if deep { self.rng.below(40) } else { self.rng.below(100) };
        match roll {
            0..=24 => self.use_name(),
            25..=30 => self.rng.below(10).to_string(),
            31..=33 => format!("\"{}\"", self.use_name()),
            34..=36 => {
                if *self.vararg.last().unwrap_or(&true) {
                    "...".to_owned()
                } else {
                    "nil".to_owned()
                }
            }
            37..=39 => "true".to_owned(),
            40..=47 => format!("{}.{}", self.prefix(depth), self.field()),
            48..=52 => format!("{}[{}]", self.prefix(depth), self.expr(depth + 1)),
            53..=62 => self.call(depth),
            63..=70 => {
                let n = self.rng.below(4);
                let mut entries = Vec::new();
                for _ in 0..n {
                    let v = self.expr(depth + 1);
                    entries.push(match self.rng.below(3) {
                        0 => format!("{} = {}", self.field(), v),
                        1 => format!("[{}] = {}", self.expr(depth + 1), v),
                        _ => v,
                    });
                }
                format!("{{{}}}", entries.join(", "))
            }
            71..=80 => {
                if self.budget <= 0 || depth + 1 >= self.max_depth {
                    return self.use_name();
                }
                let (params, names, vararg, ret) = self.signature(None, true);
                let body = self.function_body(depth, names, vararg);
                format!("function({}){}\n{}\nend", params, ret, body)
            }
            81..=86 => {
                let op = *self.rng.pick(&["+", "..", "==", "and", "or", "<", "*"]);
                format!("({} {} {})", self.expr(depth + 1), op, self.expr(depth + 1))
            }
            87..=89 => format!("(not {})", self.expr(depth + 1)),
            90..=92 => format!("({})", self.expr(depth + 1)),
            93..=95 => {
                if self.types {
                    let t = self.ty(&[]);
                    format!("({} :: {})", self.expr(depth + 1), t)
                } else {
                    self.use_name()
                }
            }
            96..=97 => format!("(if {} then {} else {})", self.expr(depth + 1), self.expr(depth + 1), self.expr(depth + 1)),
            _ => format!("`{}{{ {} }}x`", self.field(), self.expr(depth + 1)),
        }
    }

    fn exprs(&mut self, lo: usize, hi: usize, depth: usize) -> String {
        let n = lo + self.rng.below(hi - lo + 1);
        (0..n).map(|_| self.expr(depth)).collect::<Vec<_>>().join(", ")
    }

    /// statements of a block; `until`: a repeat body (the condition sees the body's locals)
    fn block(&mut self, depth: usize, pre: Vec<String>, in_loop: bool, until: bool) -> String {
        self.scopes.push(pre);
        let n = if depth == 0 { 2 + self.rng.below(6) } else { self.rng.below(4) };
        let mut lines: Vec<String> = Vec::new();
        for _ in 0..n {
            if self.budget <= 0 {
                break;
            }
            self.budget -= 1;
            let s = self.statement(depth, in_loop);
            lines.push(s);
        }
        match self.rng.below(7) {
            0 | 1 => lines.push(format!("return {}", self.exprs(0, 2, 1))),
            2 if in_loop => lines.push("break".to_owned()),
            3 if depth == 0 => {
                // a global named like the first generated names, used at the very end of the file
                let late = *self.rng.pick(&["a", "b", "c", "a, b", "print(a)", "self", "aa"]);
                lines.push(format!("return {}", late));
            }
            _ => {}
        }
        let mut text = lines.join("\n");
        if until {
            text = format!("{}\nuntil {}", text, self.expr(1));
        }
        self.scopes.pop();
        text
    }

    fn statement(&mut self, depth: usize, in_loop: bool) -> String {
        let nest = depth + 1 < self.max_depth && self.budget > 0;
        let roll = if nest { self.rng.below(100) } else { self.rng.below(38) };
        match roll {
            0..=11 => {
                // local n [: T] = e   (the value is resolved before n comes into scope)
                let name = self.decl_name();
                let t = self.maybe_ty(&[]);
                let value = if self.rng.chance(1, 5) { name.clone() } else { self.expr(0) };
                let s = if self.rng.chance(1, 8) { format!("local {}{}", name, t) } else { format!("local {}{} = {}", name, t, value) };
                self.declare(&name);
                s
            }
            12..=16 => {
                let n = 2 + self.rng.below(3);
                let names: Vec<String> = (0..n).map(|_| self.decl_name()).collect();
                let mut parts = Vec::new();
                for name in &names {
                    let t = self.maybe_ty(&[]);
                    parts.push(format!("{}{}", name, t));
                }
                let values = self.exprs(0, 3, 0);
                for name in &names {
                    self.declare(name);
                }
                if values.is_empty() {
                    format!("local {}", parts.join(", "))
                } else {
                    format!("local {} = {}", parts.join(", "), values)
                }
            }
            17..=22 => {
                let n = 1 + self.rng.below(2);
                let targets: Vec<String> = (0..n).map(|_| self.prefix(0)).collect();
                format!("{} = {}", targets.join(", "), self.exprs(1, 2, 0))
            }
            23..=24 => format!("{} += {}", self.prefix(0), self.expr(0)),
            25..=31 => self.call(0),
            32..=33 => {
                if self.types && depth == 0 && self.rng.chance(1, 3) {
                    // type function: parameters are declared in its body (F09c fixed)
                    let p = self.decl_name();
                    let q = self.use_name();
                    format!("type function TF{}({}, w)\nreturn {}, {}, w\nend", self.rng.below(3), p, p, q)
                } else if self.types {
                    let t = self.ty(&[]);
                    format!("type T{} = {}", self.rng.below(3), t)
                } else {
                    self.call(0)
                }
            }
            34..=35 => {
                // `local x = x`
                let name = self.decl_name();
                self.declare(&name);
                format!("local {} = {}", name, name)
            }
            36..=37 => {
                // a global named like the first generated names, used late
                let g = *self.rng.pick(&["a", "b", "c", "d", "aa"]);
                format!("{}({})", g, self.use_name())
            }
            38..=45 => {
                let name = self.decl_name();
                let (params, names, vararg, ret) = self.signature(Some(&name), true);
                self.declare(&name);
                let body = self.function_body(depth, names, vararg);
                format!("local function {}({}){}\n{}\nend", name, params, ret, body)
            }
            46..=53 => {
                let root = self.use_name();
                let (params, mut names, vararg, ret) = self.signature(None, true);
                let head = match self.rng.below(6) {
                    0 | 1 => {
                        names.insert(0, "self".to_owned());
                        format!("{}:{}", root, self.field())
                    }
                    2 => {
                        names.insert(0, "self".to_owned());
                        format!("{}.{}:{}", root, self.field(), self.field())
                    }
                    3 => format!("{}.{}", root, self.field()),
                    4 => format!("{}.{}.{}", root, self.field(), self.field()),
                    _ => root,
                };
                let body = self.function_body(depth, names, vararg);
                format!("function {}({}){}\n{}\nend", head, params, ret, body)
            }
            54..=58 => format!("do\n{}\nend", self.block(depth + 1, Vec::new(), in_loop, false)),
            59..=62 => {
                let cond = self.expr(1);
                format!("while {} do\n{}\nend", cond, self.block(depth + 1, Vec::new(), true, false))
            }
            63..=67 => format!("repeat\n{}", self.block(depth + 1, Vec::new(), true, true)),
            68..=72 => {
                let var = self.decl_name();
                let t = self.maybe_ty(&[]);
                let from = self.expr(1);
                let to = self.expr(1);
                let step = if self.rng.chance(1, 3) { format!(", {}", self.expr(1)) } else { String::new() };
                let body = self.block(depth + 1, vec![var.clone()], true, false);
                format!("for {}{} = {}, {}{} do\n{}\nend", var, t, from, to, step, body)
            }
            73..=78 => {
                let n = 1 + self.rng.below(3);
                let vars: Vec<String> = (0..n).map(|_| self.decl_name()).collect();
                let typed: Vec<String> = vars.iter().map(|v| format!("{}{}", v, self.maybe_ty(&[]))).collect();
                let values = self.exprs(1, 2, 1);
                let body = self.block(depth + 1, vars.clone(), true, false);
                format!("for {} in {} do\n{}\nend", typed.join(", "), values, body)
            }
            79..=86 => {
                let mut s = format!("if {} then\n{}", self.expr(1), self.block(depth + 1, Vec::new(), in_loop, false));
                for _ in 0..self.rng.below(3) {
                    s = format!("{}\nelseif {} then\n{}", s, self.expr(1), self.block(depth + 1, Vec::new(), in_loop, false));
                }
                if self.rng.chance(1, 2) {
                    s = format!("{}\nelse\n{}", s, self.block(depth + 1, Vec::new(), in_loop, false));
                }
                format!("{}\nend", s)
            }
            87..=89 => {
                // sibling scopes: several locals, scope closes, new locals (reuse pool)
                let k = 2 + self.rng.below(4);
                let first: Vec<String> = (0..k).map(|_| self.decl_name()).collect();
                let second: Vec<String> = (0..k + 1).map(|_| self.decl_name()).collect();
                let u1 = first[self.rng.below(first.len())].clone();
                let u2 = second[self.rng.below(second.len())].clone();
                format!(
                    "do\nlocal {} = 1\n{}({})\nend\ndo\n{}\n{}({})\nend",
                    first.join(", "),
                    self.use_name(),
                    u1,
                    second.iter().map(|n| format!("local {} = {}", n, self.expr(2))).collect::<Vec<_>>().join("\n"),
                    self.use_name(),
                    u2
                )
            }
            90..=92 => {
                // forward declaration + mutual reference, local function self reference
                let f = self.decl_name();
                let mut g = self.decl_name();
                if g == f {
                    g = format!("{}{}", g, 1);
                }
                self.declare(&f);
                self.declare(&g);
                let h = self.decl_name();
                self.declare(&h);
                format!(
                    "local {f}, {g}\nfunction {f}(...)\nreturn {g}(...)\nend\nfunction {g}({f})\nreturn {f}, {g}\nend\nlocal function {h}({g})\nreturn {h}({g}, {f})\nend",
                    f = f,
                    g = g,
                    h = h
                )
            }
            93..=95 => {
                // a local named like a global that another function uses as a global
                let g = *self.rng.pick(&["print", "a", "b", "game", "c"]);
                let u = self.use_name();
                format!(
                    "local function u1()\nlocal {g} = {u}\nreturn {g}\nend\nlocal function u2()\nreturn {g}({u})\nend",
                    g = g,
                    u = u
                )
            }
            _ => {
                // methods: implicit self, a local / parameter named self, nested methods
                let root = self.use_name();
                match self.rng.below(4) {
                    0 => format!("function {r}:m(self)\nreturn self, {r}\nend", r = root),
                    1 => format!("function {r}:m()\nlocal self = self\nreturn self\nend", r = root),
                    2 => format!(
                        "function {r}:m(x)\nfunction self:n(y)\nlocal x = self\nreturn self, x, y\nend\nreturn function()\nreturn self, x\nend\nend",
                        r = root
                    ),
                    _ => format!(
                        "local self = {r}\nfunction self.{f}(x)\nreturn self\nend\nfunction self:{f}()\nreturn self\nend",
                        r = root,
                        f = self.field()
                    ),
                }
            }
        }
    }
}

fn random_program(rng: &mut Rng, max_depth: usize, allow_types: bool) -> String {
    let types = allow_types && rng.chance(2, 5);
    let budget = 4 + rng.below(36) as i32;
    let mut g = PGen { rng, scopes: Vec::new(), vararg: vec![true], budget, max_depth, types };
    g.block(0, Vec::new(), false, false)
}

// ------------------------------------------------------------------------------------------
// (iii) stress and edge programs
// ------------------------------------------------------------------------------------------

fn nth_name(prefix: &str, i: usize) -> String {
    format!("{}{}", prefix, i)
}

/// n simultaneously live DISTINCT locals, some captured by a closure, then reuse after a scope exit
fn many_locals_program(n: usize, rng: &mut Rng) -> String {
    let mut lines: Vec<String> = Vec::with_capacity(n + 16);
    lines.push("local function keep(...) return ... end".to_owned());
    lines.push("do".to_owned());
    for i in 0..n {
        if i % 7 == 3 && i > 0 {
            lines.push(format!("local {} = {}", nth_name("v", i), nth_name("v", rng.below(i))));
        } else {
            lines.push(format!("local {} = {}", nth_name("v", i), i));
        }
    }
    lines.push("keep(function()".to_owned());
    let picks: Vec<String> = (0..12).map(|_| nth_name("v", rng.below(n))).collect();
    lines.push(format!("return {}, {}, a, b, c", picks.join(", "), nth_name("v", n - 1)));
    lines.push("end)".to_owned());
    lines.push("end".to_owned());
    // after the scope closed every generated name is back in the pool
    lines.push("do".to_owned());
    for i in 0..40.min(n) {
        lines.push(format!("local {} = keep", nth_name("w", i)));
    }
    lines.push(format!("keep({}, {})", nth_name("w", 0), nth_name("w", 39.min(n - 1))));
    lines.push("end".to_owned());
    lines.push("return keep".to_owned());
    lines.join("\n")
}

/// valid Luau identifiers that look like keywords, the empty program, bare returns, comments
fn edge_programs() -> Vec<String> {
    let mut out: Vec<String> = vec![
        "",
        "return",
        "return;",
        "-- only a comment",
        ";",
        "do end",
        "return nil",
        "return ...",
        "local goto = 1 return goto",
        "local continue = 1 return continue",
        "local type = 1 return type",
        "local export = 1 return export",
        "local typeof = 1 return typeof",
        "local goto, continue, type, export, typeof = 1, 2, 3, 4, 5 return goto + continue + type + export + typeof",
        "local function goto(continue) return continue end return goto(type)",
        "local function type(export) return export, typeof end return type",
        "for continue = 1, 2 do local type = continue end",
        "for goto, export in pairs(typeof) do goto(export) end",
        "function goto:export(type) return self, type, continue end",
        "local t = {} function t.goto() return t end function t:continue() return self.goto end return t",
        "local typeof = 1 local x: typeof(typeof) = typeof return x",
        "local type = 1 type T = typeof(type) return type",
        "while continue do local continue = goto if continue then break end end",
        "repeat local export = type until export",
        "local a = 1 local b = 2 local c = 3 return a, b, c, d, e",
        "local self = 1 return self",
        "local self function self:self(self) return self end return self",
        "function self:m() return self end",
        "local _ = 1 local _ = _ return _",
        "local x <const> = 1 return x",
        "local A, B, _0, _a = 1, 2, 3, 4 return A + B + _0 + _a",
    ]
    .into_iter()
    .map(str::to_owned)
    .collect();
    let words = ["goto", "continue", "type", "export", "typeof", "self", "a"];
    for w1 in words {
        for w2 in words {
            out.push(format!("local {} = {}\nlocal function f({})\nreturn {}, {}\nend\nreturn f({})", w1, w2, w2, w1, w2, w1));
            out.push(format!("local {w1}\ndo\nlocal {w2} = {w1}\n{w1} = {w2}\nend\nreturn {w2}", w1 = w1, w2 = w2));
        }
    }
    out
}

fn stress_programs(report: &Report, rng: &mut Rng) -> Vec<Item> {
    let mut items: Vec<(Src, Vec<Cfg>)> = Vec::new();
    let c_plain = Cfg::new(false, true, &[]);
    let c_incl = Cfg::new(true, true, &["a", "b", "c", "print"]);
    let c_off = Cfg::new(true, false, &["a", "b", "c", "keep"]);
    // > 64 live locals: two-character generated names
    for n in [60usize, 70, 130, 500] {
        items.push((Src::Text(many_locals_program(n, rng)), vec![c_plain.clone(), c_incl.clone(), c_off.clone()]));
    }
    // > 4000 live distinct locals: three-character generated names (53 + 53*63 - keywords = 3388 shorter ones)
    items.push((Src::Text(many_locals_program(4200, rng)), vec![c_plain.clone(), c_off.clone()]));
    if report.is_thorough() {
        items.push((Src::Text(many_locals_program(3400 + rng.below(1500), rng)), vec![c_incl.clone()]));
        items.push((Src::Text(many_locals_program(9000, rng)), vec![c_plain.clone()]));
    }
    // the same name declared again and again in one scope: names are never given back, so the
    // permutator runs to four-character names (53 + 3335 + 210352 names are shorter)
    items.push((Src::SameName(262_000), vec![c_plain.clone()]));
    if report.is_thorough() {
        items.push((Src::SameName(215_000), vec![c_incl.clone()]));
    }
    items.into_iter().map(|(s, c)| (s, std::sync::Arc::new(c))).collect()
}

// ------------------------------------------------------------------------------------------
// known findings, corpus, replay
// ------------------------------------------------------------------------------------------

fn corpus_dir() -> String {
    concat!(env!("CARGO_MANIFEST_DIR"), "/../corpus/C09").to_owned()
}

/// a replay / corpus file is either a bare input or a violation record carrying `input`
fn input_of(v: &Value) -> Option<(Src, Cfg)> {
    let input = if v["input"].is_object() { &v["input"] } else { v };
    let src = Src::from_json(input)?;
    Some((src, Cfg::from_json(input)))
}

struct ProbeResult {
    failure: Option<(String, String)>,
    hannot: bool,
    output: String,
    seconds: f64,
    note: String,
}

/// the property judged on one input with no gating (used for known findings and `--replay` notes)
fn probe(src: &Src, cfg: &Cfg) -> Result<ProbeResult, String> {
    let started = Instant::now();
    let block_in = src.materialize()?;
    let big = !src.is_small();
    if big {
        // one tree in memory: resolve in place, rename in place, resolve again; (c) and (e) skipped
        let mut block = block_in;
        let build_seconds = started.elapsed().as_secs_f64();
        let rin = Resolver::run(Mode::Luau, false, &mut block);
        let globals_used = rin.globals_used();
        let rule_started = Instant::now();
        apply_rule(&mut block, cfg)?;
        let rule_seconds = rule_started.elapsed().as_secs_f64();
        let rout = Resolver::run(Mode::Luau, false, &mut block);
        let first_self = (0..rout.decls.len()).find(|i| rout.decls[*i].kind != DK::ImplicitSelf && rout.decl_name(*i) == "self");
        let note = format!(
            "declarations={} occurrences={} max_live={} build_time={:.2}s rule_time={:.2}s first declaration renamed to `self`={:?}",
            rin.decls.len(),
            rin.occs.len(),
            rin.max_live,
            build_seconds,
            rule_seconds,
            first_self
        );
        let outcome = oracle_core(&rin, rout, None, &globals_used, cfg, None);
        drop(block);
        return Ok(ProbeResult { failure: outcome.failure, hannot: true, output: String::new(), seconds: started.elapsed().as_secs_f64(), note });
    }
    let facts = input_facts(&block_in);
    let mut block_out = block_in;
    let rule_started = Instant::now();
    apply_rule(&mut block_out, cfg)?;
    let rule_seconds = rule_started.elapsed().as_secs_f64();
    let output = if big { String::new() } else { generate_text(&block_out) };
    let outcome = oracle(&facts, block_out, cfg, !big);
    let note = format!(
        "declarations={} occurrences={} max_live={} rule_time={:.2}s",
        facts.luau.decls.len(),
        facts.luau.occs.len(),
        facts.luau.max_live,
        rule_seconds
    );
    Ok(ProbeResult { failure: outcome.failure, hannot: facts.hannot, output, seconds: started.elapsed().as_secs_f64(), note })
}

fn replay_known_findings(report: &mut Report) {
    for entry in report::known_findings("C09") {
        // a fixed entry excuses nothing: its witness lives in corpus/C09 and must pass there
        if entry["status"].as_str() == Some("fixed") {
            continue;
        }
        let id = entry["id"].as_str().unwrap_or("F?").to_owned();
        let witnesses: Vec<Value> = match &entry["witness"] {
            Value::Array(a) => a.clone(),
            Value::Null => Vec::new(),
            w => vec![w.clone()],
        };
        for witness in witnesses {
            let Some((src, cfg)) = input_of(&witness) else {
                report.notes.push(format!("known finding {}: witness not replayable by this harness", id));
                continue;
            };
            // the multi-million-statement witness is replayed in the thorough tier only
            if let Src::SelfCapture(n) = &src {
                if *n > 100_000 && !report.is_thorough() {
                    report.notes.push(format!("known finding {}: self_capture witness ({} locals) is replayed in the thorough tier", id, n));
                    continue;
                }
            }
            report.hist("known_finding_replays", &id);
            match probe(&src, &cfg) {
                Ok(ProbeResult { failure: Some((check, what)), seconds, note, .. }) => {
                    report.known_finding(&id, &format!("still fails [{}]: {} ({}; {:.1}s)", check, clip(&what, 400), note, seconds));
                }
                Ok(_) => {}
                Err(e) => report.notes.push(format!("known finding {}: witness could not run: {}", id, clip(&e, 200))),
            }
        }
    }
}

/// replay one stored input through every check (model included); also leaves a note with the
/// ungated oracle verdict so that probes of known-defect regions are visible
fn replay_input(report: &mut Report, label: &str, src: Src, cfg: Cfg, verbose: bool) {
    if verbose {
        match probe(&src, &cfg) {
            Ok(p) => report.notes.push(format!(
                "{}: ungated oracle = {} ; Hannot={} ; {} ; total {:.2}s ; output = {}",
                label,
                match &p.failure {
                    Some((c, w)) => format!("FAIL [{}] {}", c, clip(w, 400)),
                    None => "pass".to_owned(),
                },
                p.hannot,
                p.note,
                p.seconds,
                clip(&p.output, 600)
            )),
            Err(e) => report.notes.push(format!("{}: could not run: {}", label, clip(&e, 300))),
        }
    }
    if let Src::SelfCapture(n) = &src {
        if *n > 300_000 {
            // too large for the model line protocol: oracle only (builds a multi-million
            // statement AST, ~15 s and ~3 GB), thorough tier or explicit replay
            if report.is_thorough() || verbose {
                match probe(&src, &cfg) {
                    Ok(ProbeResult { failure: Some((check, what)), note, .. }) => report.violation(Violation {
                        kind: "oracle".to_owned(),
                        check,
                        what: format!("{} ({})", clip(&what, 400), note),
                        input: case_input(&src, &cfg),
                        failing_input_found: true,
                    }),
                    Ok(_) => report.count("self_capture_witness_passes", 1),
                    Err(e) => report.notes.push(format!("{}: self_capture witness could not run: {}", label, clip(&e, 200))),
                }
            } else {
                report.notes.push(format!("{}: self_capture witness ({} locals) is replayed in the thorough tier", label, n));
            }
            return;
        }
    }
    run_parallel(report, label, vec![(src, std::sync::Arc::new(vec![cfg]))], true);
    report.notes.retain(|n| !n.starts_with("corpus: 1 programs"));
}

fn replay_corpus(report: &mut Report) {
    let mut paths: Vec<std::path::PathBuf> = match std::fs::read_dir(corpus_dir()) {
        Ok(rd) => rd.filter_map(|e| e.ok().map(|e| e.path())).filter(|p| p.extension().map(|e| e == "json").unwrap_or(false)).collect(),
        Err(_) => Vec::new(),
    };
    paths.sort();
    for path in paths {
        let Ok(text) = std::fs::read_to_string(&path) else { continue };
        let Ok(value) = serde_json::from_str::<Value>(&text) else {
            report.notes.push(format!("corpus file {} is not JSON", path.display()));
            continue;
        };
        let entries: Vec<Value> = match value {
            Value::Array(a) => a,
            v => vec![v],
        };
        for entry in entries {
            if let Some((src, cfg)) = input_of(&entry) {
                report.count("corpus_inputs_replayed", 1);
                replay_input(report, "corpus", src, cfg, false);
            }
        }
    }
}

// ------------------------------------------------------------------------------------------
// entry point
// ------------------------------------------------------------------------------------------

pub fn run(report: &mut Report, replay: Option<&str>) {
    report.rule = "programs: (i) exhaustive enumerations E1..E6 of small programs over the names x, a, self (a collides with the first generated name), E7 directed: source names equal to generated names (`_`, a, b, z, A, Z, aa, ab, a_, aZ; thorough adds ba, zz, _a, __, Za, a0) inside N live locals with N swept across the name's ordinal in the generated sequence, and for-in loops shadowing their own iterator expressions, E8: every scope-opening construct (do/while/repeat-until reading body locals/numeric+generic for/if-else-elseif/local function/function statement/method/function expression as value, field, argument; repeated parameters and loop variables) x bodies declaring a, b once / twice in one scope / as kept local functions x a live local and global uses after the scope closes, under ALL 12 configurations crossed with include_functions × detect_globals × 3 globals lists (a third of the cases through json5 configuration text, three quarters of those with the group tokens `$default` / `$roblox` interleaved at arbitrary positions among the names; the oracle and the model receive the documented expansion), (ii) seeded random structured programs to nesting depth 6 with shadowing/capture/reuse patterns and Luau annotations in safe positions, (iii) stress (>64, >4000 live locals, one name declared 262k times in one scope) and keyword-like identifiers. One evaluation = one (program, configuration) through: real rule, event-stream correspondence with the Lean model, CollectGlobals and resolver correspondence, independent binding-graph oracle. Non-trivial = at least one declaration renamed AND at least one shadowing, upvalue capture or reuse of a generated name after scope exit; keyed by (input event stream, configuration).".to_owned();

    if let Some(path) = replay {
        let text = std::fs::read_to_string(path).unwrap_or_default();
        match serde_json::from_str::<Value>(&text).ok().and_then(|v| input_of(&v)) {
            Some((src, cfg)) => replay_input(report, "replay", src, cfg, true),
            None => report.notes.push(format!("replay file {} has no replayable input", path)),
        }
        return;
    }

    let thorough = report.is_thorough();
    let started = Instant::now();
    if !*ROBLOX_COPY_OK.get_or_init(roblox_globals_copy_is_current) {
        report.notes.push("the harness copy of rename_variables::globals::ROBLOX is stale: the `$roblox` group token is not generated".to_owned());
    }
    if !*TEXT_PATH_OK.get_or_init(default_globals_copy_is_current) {
        report.notes.push("the harness copy of rename_variables::globals::DEFAULT is stale: the json5 configuration path is not exercised".to_owned());
    }
    replay_corpus(report);
    replay_known_findings(report);

    let configs = all_configs();
    let slices: Vec<std::sync::Arc<Vec<Cfg>>> = (0..3).map(|r| std::sync::Arc::new(config_slice(&configs, r, thorough))).collect();
    let with_configs = |programs: Vec<String>| -> Vec<Item> {
        programs.into_iter().enumerate().map(|(i, p)| (Src::Text(p), slices[i % 3].clone())).collect()
    };

    let every = std::sync::Arc::new(configs.clone());
    {
        // E8 × all 12 configurations in both tiers; the directed families run FIRST so that, when a
        // change breaks the property broadly, the (capped) reported inputs are the minimal ones
        let name = "E8 every scope construct x duplicate / kept / generated-looking names x all 12 configurations";
        let programs = enum_e8();
        let n = programs.len();
        report.count(&format!("enumerated:{}", name), n as u64);
        let items: Vec<Item> = programs.into_iter().map(|p| (Src::Text(p), every.clone())).collect();
        run_parallel(report, name, items, true);
        report.exhaustive.insert(format!("{}: all {} programs x all 12 configurations", name, n), true);
    }

    // (i) exhaustive enumerations
    let families: Vec<(&str, Vec<String>)> = vec![
        ("E7 source names equal to generated names x N live locals; for-in shadowing", enum_e7(thorough)),
        ("E1 [leaf] template(body) [leaf] [return]", enum_e1(thorough)),
        ("E2 template(template(body))", enum_e2(thorough)),
        ("E3 sibling scopes", enum_e3()),
        ("E4 if/elseif/else bodies", enum_e4()),
        ("E5 expression forms depth<=2", enum_e5()),
        ("E6 multiple local assignment", enum_e6()),
    ];
    let rotating: Vec<std::sync::Arc<Vec<Cfg>>> = (0..3).map(|r| std::sync::Arc::new(config_slice(&configs, r, false))).collect();
    for (name, programs) in families {
        let n = programs.len();
        report.count(&format!("enumerated:{}", name), n as u64);
        // E1's thorough domain is 5x larger: it keeps the rotating 4-of-12 configurations
        let e1 = name.starts_with("E1");
        let items: Vec<Item> = if e1 {
            programs.into_iter().enumerate().map(|(i, p)| (Src::Text(p), rotating[i % 3].clone())).collect()
        } else {
            with_configs(programs)
        };
        run_parallel(report, name, items, true);
        let what = if thorough && !e1 {
            format!("{}: all {} programs x all 12 configurations", name, n)
        } else {
            format!("{}: all {} programs ({}-tier domain) x 4 of 12 configurations rotating", name, n, report.tier)
        };
        report.exhaustive.insert(what, true);
    }

    // edge programs × all configurations
    let edge: Vec<Item> = edge_programs().into_iter().map(|p| (Src::Text(p), every.clone())).collect();
    run_parallel(report, "edge (keyword-like names, empty, bare return)", edge, true);

    // (ii) random structured programs
    let mut rng = Rng::new(report.seed);
    let n_random = if thorough { 250_000 } else { 40_000 };
    let mut random_items: Vec<Item> = Vec::with_capacity(n_random);
    for i in 0..n_random {
        let mut r = rng.fork();
        let depth = 2 + (i % 5);
        let program = random_program(&mut r, depth, true);
        let mut cfgs = vec![random_config(&mut r, &program), random_config(&mut r, &program)];
        if cfgs[0] == cfgs[1] {
            cfgs.pop();
        }
        random_items.push((Src::Text(program), std::sync::Arc::new(cfgs)));
    }
    run_parallel(report, "random structured", random_items, true);

    // (iii) stress
    let stress = stress_programs(report, &mut rng);
    run_parallel(report, "stress", stress, thorough);

    report.exhaustive.insert("random structured programs (sampled, not exhaustive)".to_owned(), false);
    report.notes.push(format!("C09 harness total {:.1}s", started.elapsed().as_secs_f64()));
}
