//! Property C07: each Luau-lowering rule removes every occurrence of its construct.
//!  (1) per rule: correspondence of the Lean rule model with the real `Rule::process` (trees
//!      identical) and the ORACLE: an independent census over the wire tree of the REAL output = 0
//!      (`luaucheck::sexp_census`, a plain S-expression traversal) and over the TEXT of the real
//!      output (`luaucheck::text_census`, a small Luau-aware token scan);
//!  (2) all nine rules together (fixed order = `lowerAll` of the Lean model, compared with it;
//!      plus random orders): census of every rule = 0 and the dense / readable TEXT of the real
//!      output accepted by the strict Lua 5.1 checker `lua51check` (own lexer + grammar);
//!  (3) end to end through `darklua_core::process` with each generator: text accepted by `lua51check`.
use crate::astsexp::{self, Sexp};
use crate::exec;
use crate::lua51check;
use crate::luaucheck::{self, LuauCase, RULES};
use crate::model::Model;
use crate::progen::{self, Features};
use crate::progen_c06;
use crate::report::{Report, Violation};
use crate::rng::Rng;
use crate::rulecheck::{self, CaseResult};
use darklua_core::generator::{DenseLuaGenerator, LuaGenerator, ReadableLuaGenerator};
use darklua_core::rules::Rule;
use serde_json::json;

fn texts_of(block: &darklua_core::nodes::Block) -> Vec<(&'static str, String)> {
    let mut dense = DenseLuaGenerator::default();
    dense.write_block(block);
    let mut readable = ReadableLuaGenerator::default();
    readable.write_block(block);
    vec![("dense", dense.into_string()), ("readable", readable.into_string())]
}

/// all nine rules on one program: census of every rule = 0 on the real tree, strict Lua 5.1 text
fn all_together(model: &mut Model, report: &mut Report, code: &str, order: &[&str], compare_model: bool) {
    let block0 = match exec::parse(code) {
        Ok(b) => b,
        Err(_) => return,
    };
    let sexp0 = astsexp::block_to_sexp(&block0);
    // inside every rule's census hypothesis? (only remove_continue has one)
    if !luaucheck::continue_in_loops(model, &sexp0) {
        report.count("all_outside_hypothesis", 1);
        return;
    }
    let rules: Vec<Box<dyn Rule>> = order.iter().map(|r| exec::rule_from_json(&format!("'{}'", r)).unwrap()).collect();
    let mut block1 = block0.clone();
    let applied = std::panic::catch_unwind(std::panic::AssertUnwindSafe(|| -> Result<(), String> {
        for (name, rule) in order.iter().zip(rules.iter()) {
            let _ = name;
            exec::apply_rules(&mut block1, std::slice::from_ref(rule), code)?;
        }
        Ok(())
    }));
    match applied {
        Ok(Ok(())) => {}
        Ok(Err(_)) => return,
        Err(_) => {
            report.violation(Violation {
                kind: "oracle".into(),
                check: "all:panic".into(),
                what: "a lowering rule panicked".into(),
                input: json!({"rules": order, "code": code}),
                failing_input_found: true,
            });
            return;
        }
    }
    let sexp1 = astsexp::block_to_sexp(&block1);
    report.count("all_checked", 1);
    if let Ok(tree1) = Sexp::parse(&sexp1) {
        for rule in RULES.iter() {
            let left = luaucheck::sexp_census(rule, &tree1);
            if left != 0 {
                report.violation(Violation {
                    kind: "oracle".into(),
                    check: format!("all:census:{}", rule),
                    what: format!("after all nine rules {} occurrence(s) of the construct of {} remain", left, rule),
                    input: json!({"rules": order, "code": code}),
                    failing_input_found: true,
                });
            }
        }
    }
    for (name, text) in texts_of(&block1) {
        if let Err(e) = lua51check::check(&text) {
            report.violation(Violation {
                kind: "oracle".into(),
                check: format!("all:lua51:{}", name),
                what: format!("after all nine rules the {} text is not strict Lua 5.1: {}", name, e),
                input: json!({"rules": order, "code": code, "output": text}),
                failing_input_found: true,
            });
        }
        report.count("lua51_text_checked", 1);
    }
    if compare_model {
        let answer = model.ask(&format!("c06.all {}", sexp0));
        if answer != sexp1 {
            report.violation(Violation {
                kind: "correspondence".into(),
                check: "all:model".into(),
                what: "Lean lowerAll and the real rules applied in the same order produce different trees".into(),
                input: json!({"rules": order, "code": code}),
                failing_input_found: false,
            });
        }
        let lua51 = model.ask(&format!("c06.census luau {}", answer));
        if lua51 != "0" {
            report.violation(Violation {
                kind: "correspondence".into(),
                check: "all:islua51".into(),
                what: format!("IsLua51 fails on the model's own output (census {})", lua51),
                input: json!({"rules": order, "code": code}),
                failing_input_found: false,
            });
        }
    }
}

/// the real pipeline on memory resources: output text must be strict Lua 5.1
fn end_to_end(report: &mut Report, code: &str, order: &[&str], generator: &str) {
    let resources = darklua_core::Resources::from_memory();
    resources.write("src/main.lua", code).unwrap();
    let rule_list: Vec<String> = order.iter().map(|r| format!("'{}'", r)).collect();
    let config_text = format!("{{ generator: '{}', rules: [{}] }}", generator, rule_list.join(", "));
    let config: darklua_core::Configuration = json5::from_str(&config_text).expect("configuration");
    let result = std::panic::catch_unwind(std::panic::AssertUnwindSafe(|| {
        darklua_core::process(&resources, darklua_core::Options::new("src").with_configuration(config))
    }));
    let ok = match result {
        Ok(Ok(r)) => r.result().is_ok(),
        Ok(Err(_)) => false,
        Err(_) => {
            report.violation(Violation {
                kind: "oracle".into(),
                check: "e2e:panic".into(),
                what: "darklua_core::process panicked".into(),
                input: json!({"config": config_text, "code": code}),
                failing_input_found: true,
            });
            return;
        }
    };
    if !ok {
        report.count("e2e_process_error", 1);
        return;
    }
    let output = resources.get("src/main.lua").unwrap();
    report.count("e2e_checked", 1);
    if let Err(e) = lua51check::check(&output) {
        // known finding F31: no lowering rule rewrites string TOKENS, and the token-based writer keeps them as
        // written — boundary: generator retain_lines, the complaint is about an escape, and a quoted string of the
        // SOURCE contains `\x` / `\u{` / `\z`
        if generator == "retain_lines" && e.starts_with("escape") && luaucheck::has_luau_string_escape(code) {
            report.count("e2e_known_F31_luau_string_escape", 1);
            return;
        }
        report.violation(Violation {
            kind: "oracle".into(),
            check: format!("e2e:lua51:{}", generator),
            what: format!("output of the pipeline with all nine rules is not strict Lua 5.1: {}", e),
            input: json!({"config": config_text, "code": code, "output": output}),
            failing_input_found: true,
        });
    }
}

fn one_program(model: &mut Model, r: &mut Report, rng: &mut Rng, code: &str, every_generator: bool) {
    for rule in RULES.iter() {
        let json_text = format!("'{}'", rule);
        let case = LuauCase { rule_name: rule, rule_json: &json_text, model_name: rule, check_census: true, check_behaviour: false };
        let result = luaucheck::check_program(model, r, &case, code);
        match &result {
            CaseResult::Fired => {
                r.hist("rule_fired", rule);
                r.case(Some((rule, code)));
            }
            CaseResult::Trivial => r.case(None::<u8>),
            CaseResult::Skipped(why) => {
                r.hist("skipped", why);
                r.case(None::<u8>);
            }
        }
        if r.samples.len() < 3 && result == CaseResult::Fired && rng.chance(1, 50) {
            r.sample(json!({"rule": rule, "code": code}));
        }
    }
    // the `tostring` strategy of remove_interpolated_string
    let case = LuauCase {
        rule_name: "remove_interpolated_string",
        rule_json: "{ rule: 'remove_interpolated_string', strategy: 'tostring' }",
        model_name: "remove_interpolated_string:tostring",
        check_census: true,
        check_behaviour: false,
    };
    luaucheck::check_program(model, r, &case, code);
    r.case(None::<u8>);
    // all together: fixed order (compared with the Lean lowerAll), then two random orders
    all_together(model, r, code, &RULES, true);
    for _ in 0..2 {
        let mut order: Vec<&str> = RULES.to_vec();
        rng.shuffle(&mut order);
        all_together(model, r, code, &order, false);
    }
    r.case(None::<u8>);
    if every_generator {
        // corpus programs: the whole pipeline with each of the three generators, in the fixed order
        if luaucheck::continue_in_loops_code(model, code) {
            for generator in ["retain_lines", "dense", "readable"] {
                end_to_end(r, code, &RULES, generator);
            }
        }
    } else if rng.chance(1, 3) {
        let generator = *rng.pick(&["retain_lines", "dense", "readable"]);
        let mut order: Vec<&str> = RULES.to_vec();
        if rng.chance(1, 2) {
            rng.shuffle(&mut order);
        }
        if luaucheck::continue_in_loops_code(model, code) {
            end_to_end(r, code, &order, generator);
        }
    }
}

fn corpus(dir: &str) -> Vec<(String, String)> {
    let path = format!("{}/../corpus/{}", env!("CARGO_MANIFEST_DIR"), dir);
    let mut out = Vec::new();
    if let Ok(entries) = std::fs::read_dir(&path) {
        let mut files: Vec<_> = entries.filter_map(|e| e.ok()).map(|e| e.path()).collect();
        files.sort();
        for f in files {
            if f.extension().map(|e| e == "lua").unwrap_or(false) {
                if let Ok(text) = std::fs::read_to_string(&f) {
                    out.push((f.file_name().unwrap().to_string_lossy().to_string(), text));
                }
            }
        }
    }
    out
}

pub fn run(report: &mut Report, replay: Option<&str>) {
    report.rule = "corpus/C07/*.lua, then type-directed random Luau programs (progen Features::luau()) and the targeted \
        generator progen_c06 (every construct in every syntactic position incl. nested in itself and hidden in typeof(…)); \
        each program through each of the nine lowering rules alone (real Rule::process; tree compared with the Lean model; \
        independent census of the construct over the wire tree and the dense text of the real output must be 0), through \
        all nine in the model's order (compared with Lean lowerAll) and two random orders (census 0 for every rule, dense and \
        readable text accepted by the strict Lua 5.1 checker), and end to end through darklua_core::process. \
        Non-trivial = the rule changed the tree; distinct by (rule, program text)."
        .to_owned();
    if let Some(path) = replay {
        let mut model = Model::spawn();
        let mut rng = Rng::new(report.seed);
        if let Ok(text) = std::fs::read_to_string(path) {
            if let Ok(v) = serde_json::from_str::<serde_json::Value>(&text) {
                if let Some(code) = v["input"]["code"].as_str() {
                    one_program(&mut model, report, &mut rng, code, true);
                }
            }
        }
        return;
    }
    // known findings and corpus first
    {
        let mut model = Model::spawn();
        luaucheck::replay_known_findings(&mut model, report, "C07");
        let mut rng = Rng::new(report.seed);
        for (name, code) in corpus("C07") {
            report.hist("corpus", &name);
            one_program(&mut model, report, &mut rng, &code, true);
        }
    }
    let programs_per_thread: usize = if report.is_thorough() { 1500 } else { 150 };
    let threads = 12;
    let seed = report.seed;
    report.parallel(threads, |tid, r| {
        let mut model = Model::spawn();
        let mut rng = Rng::new(seed.wrapping_mul(1000).wrapping_add(tid as u64));
        for i in 0..programs_per_thread {
            let code = if i % 3 == 0 {
                let (code, used) = progen::generate(&mut rng.fork(), Features::luau(), 60);
                for u in &used {
                    r.hist("constructs", u);
                }
                r.hist("generator", "progen-luau");
                code
            } else {
                let (code, tags) = progen_c06::generate(&mut rng.fork(), progen_c06::Opts::default(), 8);
                for t in &tags {
                    r.hist("shapes", t);
                }
                r.hist("generator", "progen_c06");
                code
            };
            one_program(&mut model, r, &mut rng, &code, false);
        }
    });
    let _ = rulecheck::LEVEL;
}
