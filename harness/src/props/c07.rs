//! Property C07: each Luau-lowering rule removes every occurrence of its construct.
use crate::luaucheck::{self, LuauCase, RULES};
use crate::model::Model;
use crate::progen::{self, Features};
use crate::report::Report;
use crate::rng::Rng;
use crate::rulecheck::CaseResult;
use serde_json::json;

pub fn run(report: &mut Report, _replay: Option<&str>) {
    let programs_per_thread: usize = if report.is_thorough() { 400 } else { 40 };
    let threads = 12;
    report.rule = "type-directed random Luau programs; each through every lowering rule alone".to_owned();
    let seed = report.seed;
    report.parallel(threads, |tid, r| {
        let mut model = Model::spawn();
        let mut rng = Rng::new(seed.wrapping_mul(1000).wrapping_add(tid as u64));
        for _ in 0..programs_per_thread {
            let (code, used) = progen::generate(&mut rng.fork(), Features::luau(), 60);
            for u in &used {
                r.hist("constructs", u);
            }
            for rule in RULES.iter() {
                let json_text = format!("'{}'", rule);
                let case = LuauCase { rule_name: rule, rule_json: &json_text, model_name: rule, check_census: true, check_behaviour: false };
                let result = luaucheck::check_program(&mut model, r, &case, &code);
                match &result {
                    CaseResult::Fired => {
                        r.hist("rule_fired", rule);
                        r.case(Some((rule, &code)));
                    }
                    CaseResult::Trivial => r.case(None::<u8>),
                    CaseResult::Skipped(why) => {
                        r.hist("skipped", why);
                        r.case(None::<u8>);
                    }
                }
                if r.samples.is_empty() && result == CaseResult::Fired {
                    r.sample(json!({"rule": rule, "code": code}));
                }
            }
        }
    });
}
