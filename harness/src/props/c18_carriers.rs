//! C18: the token carriers of darklua's AST and a source for each.
//!
//! A carrier is a (struct, field) that holds tokens, as listed by the uses of `impl_token_fns!` in
//! /repo/src/nodes (`DarkluaModel/C18/Carriers.lean` has the list; it is re-extracted from the
//! repository under test on every run). Each template below is a small Luau program, tokens separated
//! by blanks (`·` stands for a blank inside a token). A token may be followed by `§` and the carriers it
//! exercises, joined by `+`: the leaf carrier that holds the token and the node-valued fields through
//! which the generated methods reach it. A carrier prefixed by `<` is exercised only by a comment that is
//! leading trivia of the token, `>` only by trailing trivia (interpolated-string pieces are two
//! carriers in one token). `manual:` carriers are token fields handled by hand-written code instead of
//! the macro.
//!
//! For every token of every template (labelled or not) the sweep builds one source with a marker
//! comment as leading trivia of that token and one with the marker as trailing trivia, checks with the
//! tokenizer darklua uses that the comment really is attached there, and runs the rule pipelines.

pub const TEMPLATES: &[&str] = &[
    // local assignment, numbers, strings
    "local§VariableAssignment.tokens+VariableAssignmentTokens.keyword a§VariableAssignment.variables+TypedIdentifier.name+Identifier.token ,§VariableAssignmentTokens.variable_commas b :§TypedIdentifier.token string =§VariableAssignmentTokens.equal 1§DecimalNumber.token ,§VariableAssignmentTokens.value_commas 0x1F§HexNumber.token , 0b11§BinaryNumber.token , \"s\"§StringExpression.token",
    "a ,§AssignStatement.tokens+AssignTokens.variable_commas b =§AssignTokens.equal 1 ,§AssignTokens.value_commas 2",
    "x +=§CompoundAssignStatement.tokens+CompoundAssignTokens.operator 1",
    "do§DoStatement.tokens+DoTokens.do f ( ) end§DoTokens.end",
    // calls
    "f (§FunctionCall.tokens+TupleArguments.tokens+TupleArgumentsTokens.opening_parenthese a ,§TupleArgumentsTokens.commas b )§TupleArgumentsTokens.closing_parenthese",
    "obj :§FunctionCall.tokens+FunctionCallTokens.colon m§FunctionCall.method+Method.name ( ) f \"str\" f { }",
    "local x = f <§FunctionCallTokens.type_instantiation_tokens+TypeInstantiationTokens.first_opening_list <§TypeInstantiationTokens.second_opening_list number ,§TypeInstantiationTokens.commas string >§TypeInstantiationTokens.first_closing_list >§TypeInstantiationTokens.second_closing_list ( )",
    "local g = f <§TypeInstantiationExpression.tokens < number > >§TypeInstantiationExpression.tokens",
    // function statement with everything
    "function§FunctionStatement.tokens+FunctionBodyTokens.function M§manual:FunctionName.name .§FunctionStatement.name+FunctionName.tokens+FunctionNameTokens.periods n§FunctionName.field_names :§FunctionNameTokens.colon m§FunctionName.method <§FunctionStatement.generic_parameters+GenericParameters.tokens+GenericParametersTokens.opening_list T§GenericParameters.type_variables ,§GenericParametersTokens.commas U§GenericParameters.generic_type_packs+GenericTypePack.name ...§GenericTypePack.token >§GenericParametersTokens.closing_list (§FunctionBodyTokens.opening_parenthese a§FunctionStatement.parameters ,§FunctionBodyTokens.parameter_commas ...§FunctionBodyTokens.variable_arguments :§FunctionBodyTokens.variable_arguments_colon number )§FunctionBodyTokens.closing_parenthese :§FunctionBodyTokens.return_type_colon number return 1 end§FunctionBodyTokens.end",
    "local§FunctionAssignment.tokens+FunctionAssignmentTokens.keyword function§FunctionAssignmentTokens.function_body g§FunctionAssignment.identifier <§FunctionAssignment.generic_parameters T > ( a§FunctionAssignment.parameters ) end",
    "local f = function§FunctionExpression.tokens <§FunctionExpression.generic_parameters T > ( a§FunctionExpression.parameters ) end",
    // loops and branches
    "for§GenericForStatement.tokens+GenericForTokens.for k§GenericForStatement.identifiers ,§GenericForTokens.identifier_commas v in§GenericForTokens.in pairs ( t ) ,§GenericForTokens.value_commas nil do§GenericForTokens.do end§GenericForTokens.end",
    "for§NumericForStatement.tokens+NumericForTokens.for i§NumericForStatement.identifier =§NumericForTokens.equal 1 ,§NumericForTokens.end_comma 10 ,§NumericForTokens.step_comma 2 do§NumericForTokens.do end§NumericForTokens.end",
    "if§IfStatement.tokens+IfStatementTokens.if a then§IfStatementTokens.then f ( ) elseif§IfStatement.branches+IfBranch.tokens+IfBranchTokens.elseif b then§IfBranchTokens.then g ( ) else§IfStatementTokens.else h ( ) end§IfStatementTokens.end",
    "while§WhileStatement.tokens+WhileTokens.while a do§WhileTokens.do break§manual:LastStatement::Break end§WhileTokens.end",
    "while a do continue§manual:LastStatement::Continue end",
    "repeat§RepeatStatement.tokens+RepeatTokens.repeat f ( ) until§RepeatTokens.until a",
    "return§ReturnStatement.tokens+ReturnTokens.return 1 ,§ReturnTokens.commas 2",
    // semicolons: between statements (iter_flatten), nested, after a last statement
    "f ( ) ;§Block.tokens+BlockTokens.semicolons g ( ) ;§BlockTokens.semicolons",
    "do f ( ) ;§BlockTokens.semicolons local a = 1 ;§BlockTokens.semicolons end",
    "while a do break ;§BlockTokens.last_semicolon end",
    // expressions
    "local e = (§ParentheseExpression.tokens+ParentheseTokens.left_parenthese a +§BinaryExpression.token b )§ParentheseTokens.right_parenthese , not§UnaryExpression.token c , t [§IndexExpression.tokens+IndexExpressionTokens.opening_bracket 1 ]§IndexExpressionTokens.closing_bracket , t .§FieldExpression.token x§FieldExpression.field , #§UnaryExpression.token t , a ..§BinaryExpression.token b",
    "local t = {§TableExpression.tokens+TableTokens.opening_brace a§TableExpression.entries+TableFieldEntry.field =§TableFieldEntry.token 1 ,§TableTokens.separators [§TableIndexEntry.tokens+TableIndexEntryTokens.opening_bracket \"k\" ]§TableIndexEntryTokens.closing_bracket =§TableIndexEntryTokens.equal 2 ;§TableTokens.separators 3 }§TableTokens.closing_brace",
    "local r = if§IfExpression.tokens+IfExpressionTokens.if c then§IfExpressionTokens.then 1 elseif§IfExpression.branches+ElseIfExpressionBranch.tokens+ElseIfExpressionBranchTokens.elseif d then§ElseIfExpressionBranchTokens.then 2 else§IfExpressionTokens.else 3",
    "local s = `a{§<InterpolatedStringExpression.tokens+<InterpolatedStringTokens.opening_tick+>InterpolatedStringExpression.segments+>ValueSegment.tokens+>ValueSegmentTokens.opening_brace x }b{§<ValueSegmentTokens.closing_brace+>ValueSegmentTokens.opening_brace y }c`§<ValueSegmentTokens.closing_brace+>InterpolatedStringTokens.closing_tick+>InterpolatedStringExpression.tokens",
    // interpolated values that start with a table constructor: the table's `{` right behind the value's `{`
    "local it = `{§>ValueSegmentTokens.opening_brace {§TableExpression.tokens+TableTokens.opening_brace 1 ,§TableTokens.separators 2 }§TableTokens.closing_brace }`§<ValueSegmentTokens.closing_brace",
    "local iu = `a{§>ValueSegmentTokens.opening_brace {§TableTokens.opening_brace }§TableTokens.closing_brace ::§TypeCastExpression.token any }b{§<ValueSegmentTokens.closing_brace+>ValueSegmentTokens.opening_brace {§TableTokens.opening_brace x = 1 }§TableTokens.closing_brace ==§BinaryExpression.token t }c`",
    "local iv = `{ {§TableTokens.opening_brace }§TableTokens.closing_brace ..§BinaryExpression.token x }`",
    "local v = w ::§TypeCastExpression.token any",
    "local function va ( ... ) return true§manual:Expression::True , false§manual:Expression::False , nil§manual:Expression::Nil , ...§manual:Expression::VariableArguments end",
    // type declarations
    "export§TypeDeclarationTokens.export type§TypeDeclarationTokens.type T <§GenericParametersWithDefaults.tokens U§TypeVariableWithDefault.variable =§TypeVariableWithDefault.token string , V ... =§GenericTypePackWithDefault.token ...any > =§TypeDeclarationTokens.equal U",
    "type A = {§ArrayType.tokens+ArrayTypeTokens.opening_brace number }§ArrayTypeTokens.closing_brace",
    "type E = typeof§ExpressionType.tokens+ExpressionTypeTokens.typeof (§ExpressionTypeTokens.opening_parenthese x )§ExpressionTypeTokens.closing_parenthese",
    "type F = <§FunctionType.generic_parameters T > (§FunctionType.tokens+FunctionTypeTokens.opening_parenthese a§FunctionType.arguments+FunctionArgumentType.name :§FunctionArgumentType.token number ,§FunctionTypeTokens.commas string )§FunctionTypeTokens.closing_parenthese ->§FunctionTypeTokens.arrow nil",
    "type I = &§IntersectionType.tokens+IntersectionTypeTokens.leading_token A &§IntersectionTypeTokens.separators B",
    "type U = |§UnionType.tokens+UnionTypeTokens.leading_token A |§UnionTypeTokens.separators B",
    "type O = string ?§OptionalType.token",
    "type P = (§ParentheseType.tokens+ParentheseTypeTokens.left_parenthese string )§ParentheseTypeTokens.right_parenthese",
    "type S = \"lit\"§StringType.value",
    "type Tb = {§TableType.tokens+TableTypeTokens.opening_brace read§TablePropertyTypeTokens.modifier p§TableType.entries+TablePropertyType.property :§TablePropertyType.tokens+TablePropertyTypeTokens.colon number ,§TableTypeTokens.separators [§TableLiteralPropertyType.tokens \"lit\"§TableLiteralPropertyType.string ] : string , write§TableIndexTypeTokens.modifier [§TableIndexerType.tokens+TableIndexTypeTokens.opening_bracket string ]§TableIndexTypeTokens.closing_bracket :§TableIndexTypeTokens.colon number }§TableTypeTokens.closing_brace",
    "type N = mod§TypeField.namespace .§TypeField.token Name§TypeName.type_name <§TypeName.type_parameters+TypeParameters.tokens+TypeParametersTokens.opening_list number ,§TypeParametersTokens.commas string >§TypeParametersTokens.closing_list",
    "type K = ( ) -> (§TypePack.tokens+TypePackTokens.left_parenthese number ,§TypePackTokens.commas string )§TypePackTokens.right_parenthese",
    "type W = ( ...§VariadicTypePack.token number ) -> ( )",
    "type L = true§manual:Type::True | false§manual:Type::False | nil§manual:Type::Nil",
    "export§TypeFunctionStatementTokens.export type§TypeFunctionStatement.tokens+TypeFunctionStatementTokens.type function§TypeFunctionStatementTokens.function_body F§TypeFunctionStatement.identifier <§TypeFunctionStatement.generic_parameters T > ( t§TypeFunctionStatement.parameters ) return t end",
    // attributes
    "@§Attributes.attributes+NamedAttribute.token native§NamedAttribute.name function f ( ) end",
];

/// carriers that cannot hold a comment in a parsed file, or only on one side: (carrier, no leading, no trailing, why)
pub const EXEMPT: &[(&str, bool, bool, &str)] = &[
    ("StringSegment.token", true, true, "the text pieces of an interpolated string: trivia cannot occur inside the string"),
    ("BlockTokens.final_token", false, true, "the end-of-file token: nothing can follow it"),
    // the pieces of an interpolated string are glued to its text on one side
    ("InterpolatedStringTokens.opening_tick", false, true, "followed by the string text"),
    ("InterpolatedStringTokens.closing_tick", true, false, "preceded by the string text"),
    ("InterpolatedStringExpression.tokens", false, false, ""),
    ("InterpolatedStringExpression.segments", true, false, "a segment starts inside the string text"),
    ("ValueSegment.tokens", true, false, "`{` is preceded by the string text"),
    ("ValueSegmentTokens.opening_brace", true, false, "preceded by the string text"),
    ("ValueSegmentTokens.closing_brace", false, true, "followed by the string text"),
    // `@[ … ]` attribute groups: the parser darklua uses rejects them (checked on every run with
    // `UNPARSEABLE`), so these carriers only exist in trees built by hand
    ("AttributeGroup.tokens", true, true, "attribute groups do not parse"),
    ("AttributeGroup.attributes", true, true, "attribute groups do not parse"),
    ("AttributeGroupTokens.opening_attribute_list", true, true, "attribute groups do not parse"),
    ("AttributeGroupTokens.closing_bracket", true, true, "attribute groups do not parse"),
    ("AttributeGroupTokens.separators", true, true, "attribute groups do not parse"),
    ("AttributeGroupElement.name", true, true, "attribute groups do not parse"),
    ("AttributeGroupElement.arguments", true, true, "attribute groups do not parse"),
    ("AttributeTupleArguments.tokens", true, true, "attribute groups do not parse"),
    ("LiteralTable.tokens", true, true, "attribute groups do not parse"),
    ("LiteralTable.entries", true, true, "attribute groups do not parse"),
    ("LiteralTableFieldEntry.field", true, true, "attribute groups do not parse"),
    ("LiteralTableFieldEntry.token", true, true, "attribute groups do not parse"),
];

/// sources that justify exemptions: if darklua starts to accept one, the exemption is out of date
pub const UNPARSEABLE: &[&str] = &[
    "@[native] function g() end",
    "@[deprecated { reason = \"x\" }] function h() end",
    "@[native, deprecated(\"x\")] function k() end",
];
