//! Property C04: retain_lines keeps surviving code on its original line.
//!
//! (1) state-machine correspondence on rule-transformed programs: the writer trace of the real
//!     generator after real rule pipelines (tokens without line, symbols, padding, uncomment)
//!     is replayed in the Lean model (`C03.run`): output, line counter, flag and inserted-byte
//!     counters must agree; the number of line-bearing contents that do not start on their
//!     recorded line is computed from the real trace and by the model (`c04.lines`) and must
//!     agree; where the hypothesis `budgetOk` of theorem `budget_lands` holds it must be 0.
//! (2) oracle: programs in scrambled multi-line layouts whose literals / globals / calls are
//!     unique markers, through (a) subsets and orders of the 13 default rules, (b) remove_spaces
//!     followed by line-neutral rules, (c) append_text_comment at the start (known shift):
//!     every marker found in the output text must be on its input line (+ shift).
use super::c03::{ConfigMode, 
    compare_run, encode_trace, lay_out, model_replay, real_process, Acc, Layout, ProgGen,
};
use crate::model::Model;
use crate::report::{known_findings, Report, Violation};
use crate::rng::Rng;
use darklua_core::verif_hooks::TraceOp;
use serde_json::{json, Value};
use std::collections::BTreeMap;

// ------------------------------------------------------------------------------------------
// markers
// ------------------------------------------------------------------------------------------

fn is_word_byte(b: u8) -> bool {
    b.is_ascii_alphanumeric() || b == b'_'
}

/// All marker occurrences of a text: (marker, 1-based line). Markers: `g<k>` `m<k>` `v<k>`
/// identifiers, `1<6 digits>` numbers, `'s<k>'` / `"s<k>"` strings — whole tokens only.
pub fn find_markers(text: &str) -> Vec<(String, usize)> {
    let b = text.as_bytes();
    let mut out = Vec::new();
    let mut line = 1usize;
    let mut i = 0usize;
    while i < b.len() {
        let c = b[i];
        if c == b'\n' {
            line += 1;
            i += 1;
            continue;
        }
        let boundary_before = i == 0 || !(is_word_byte(b[i - 1]) || b[i - 1] == b'.' && c.is_ascii_digit());
        if (c == b'\'' || c == b'"') && i + 2 < b.len() && b[i + 1] == b's' {
            let mut j = i + 2;
            while j < b.len() && b[j].is_ascii_digit() {
                j += 1;
            }
            if j > i + 2 && j < b.len() && b[j] == c {
                out.push((text[i + 1..j].to_owned(), line));
                i = j + 1;
                continue;
            }
            if j > i + 2 && j < b.len() && b[j] == b'\\' {
                // multi-line marker string `"s<k>\z⏎  x"` / `"s<k>\⏎x"`: the marker is on the line
                // the string starts on; skip to the closing quote counting the lines inside
                let name = text[i + 1..j].to_owned();
                let start_line = line;
                let mut k = j;
                let mut closed = false;
                while k < b.len() {
                    if b[k] == b'\\' {
                        if k + 1 < b.len() && b[k + 1] == b'\n' {
                            line += 1;
                        }
                        k += 2;
                        continue;
                    }
                    if b[k] == b'\n' {
                        line += 1;
                    }
                    if b[k] == c {
                        closed = true;
                        break;
                    }
                    k += 1;
                }
                if closed {
                    out.push((name, start_line));
                    i = k + 1;
                    continue;
                }
                line = start_line;
            }
        }
        if boundary_before && is_word_byte(c) {
            let mut j = i;
            while j < b.len() && is_word_byte(b[j]) {
                j += 1;
            }
            let word = &text[i..j];
            let digits = |w: &str| !w.is_empty() && w.bytes().all(|x| x.is_ascii_digit());
            let is_marker = (matches!(c, b'g' | b'm' | b'v') && digits(&word[1..]))
                || (word.len() == 7 && c == b'1' && digits(word) && !(j < b.len() && b[j] == b'.'));
            if is_marker {
                out.push((word.to_owned(), line));
            }
            i = j;
            continue;
        }
        i += 1;
    }
    out
}

// ------------------------------------------------------------------------------------------
// rule pipelines
// ------------------------------------------------------------------------------------------

/// rules the property calls line-neutral (everything but group_local_assignment,
/// convert_require which needs files, and append_text_comment which shifts)
const LINE_NEUTRAL: &[&str] = &[
    // Luau lowering
    "remove_types", "remove_compound_assignment", "remove_continue", "remove_floor_division",
    "remove_if_expression", "remove_interpolated_string", "convert_luau_number", "remove_method_call",
    "remove_attribute",
    // removal / injection
    "remove_assertions", "remove_debug_profiling", "remove_comments", "remove_unused_variable",
    "remove_nil_declaration", "remove_empty_do", "remove_unused_if_branch", "remove_unused_while",
    "filter_after_early_return", "remove_function_call_parens", "remove_method_definition",
    "{rule: 'inject_global_value', identifier: 'g3', value: true}",
    // optional refactorings
    "convert_index_to_field", "convert_local_function_to_assign", "convert_function_to_assignment",
    "convert_square_root_call", "make_assignment_local", "compute_expression", "rename_variables",
];

fn rule_json(r: &str) -> String {
    if r.starts_with('{') { r.to_owned() } else { format!("'{}'", r) }
}

fn config_of(rules: &[String]) -> String {
    format!("{{rules: [{}]}}", rules.iter().map(|r| rule_json(r)).collect::<Vec<_>>().join(", "))
}

pub struct Pipeline {
    pub kind: &'static str,
    pub rules: Vec<String>,
    /// lines every marker moves down by (append_text_comment at start)
    pub shift: usize,
}

fn default_rule_names() -> Vec<String> {
    darklua_core::rules::get_default_rules()
        .iter()
        .map(|r| r.get_name().to_owned())
        .collect()
}

fn gen_pipeline(rng: &mut Rng, defaults: &[String]) -> Pipeline {
    match rng.below(10) {
        0 => Pipeline { kind: "default rules, default order", rules: defaults.to_vec(), shift: 0 },
        1..=4 => {
            // (a) subset in random order
            let mut rules: Vec<String> = defaults.iter().filter(|_| rng.chance(1, 2)).cloned().collect();
            if rules.is_empty() {
                rules.push(defaults[rng.below(defaults.len())].clone());
            }
            rng.shuffle(&mut rules);
            Pipeline { kind: "subset/order of default rules", rules, shift: 0 }
        }
        5..=7 => {
            // (b) remove_spaces then line-neutral rules
            let n = 1 + rng.below(6);
            let mut rules = vec!["remove_spaces".to_owned()];
            for _ in 0..n {
                rules.push((*rng.pick(LINE_NEUTRAL)).to_owned());
            }
            Pipeline { kind: "remove_spaces + line-neutral rules", rules, shift: 0 }
        }
        _ => {
            // (c) append_text_comment at start, alone or around other rules
            let texts: &[(&str, usize)] = &[
                ("hello", 1),
                (" copyright 2026 ", 1),
                ("two\\nlines", 4),
                ("a\\nb\\nc\\n", 6),
                ("with ]] inside\\nand more", 4),
            ];
            let (text, shift) = *rng.pick(texts);
            let append = format!("{{rule: 'append_text_comment', text: '{}'}}", text);
            let mut rules: Vec<String> = match rng.below(3) {
                0 => vec![],
                1 => defaults.to_vec(),
                _ => {
                    let mut r = vec!["remove_spaces".to_owned()];
                    for _ in 0..rng.below(4) {
                        r.push((*rng.pick(LINE_NEUTRAL)).to_owned());
                    }
                    r
                }
            };
            let at = rng.below(rules.len() + 1);
            rules.insert(at, append);
            Pipeline { kind: "append_text_comment at start", rules, shift }
        }
    }
}

pub struct MarkerProgram {
    pub code: String,
    /// block comments that span several lines may sit between two statements (only there can
    /// `Block::remove_statement` re-attach them: finding F32)
    pub f32_possible: bool,
}

pub fn gen_marker_program(rng: &mut Rng) -> MarkerProgram {
    let mut g = ProgGen::new(rng.fork(), 25 + rng.below(90) as i32);
    g.markers = true;
    g.multiline_strings = rng.chance(1, 2);
    g.typed = rng.chance(1, 4);
    let depth = 1 + rng.below(3) as u32;
    g.block(depth, false, true);
    let toks = std::mem::take(&mut g.toks);
    let mut layout = Layout::plain(
        *rng.pick(&["\n", "\n", "\n", "\r\n"]),
        *rng.pick(&[0u32, 80, 200]),
        *rng.pick(&[300u32, 500, 700]),
        0,
    );
    layout.boundaries = super::c03::statement_boundaries(&toks, &g.stmt_starts);
    layout.ml_at_boundary = rng.chance(1, 3);
    layout.doc_blocks = *rng.pick(&[0u32, 150, 400]);
    MarkerProgram { code: lay_out(rng, &toks, &layout), f32_possible: layout.ml_at_boundary }
}

// ------------------------------------------------------------------------------------------
// bundling (retain_lines + path require mode)
// ------------------------------------------------------------------------------------------

/// Run the real pipeline on a multi-file in-memory project; `files[0]` is the entry point.
pub fn real_bundle(files: &[(String, String)], rules: &[String], mode: ConfigMode) -> Result<String, String> {
    let resources = darklua_core::Resources::from_memory();
    for (path, content) in files {
        resources.write(path, content).map_err(|e| format!("{:?}", e))?;
    }
    // the generator is selected by the mode (configuration, default, override, configuration file)
    let config_text = format!(
        "{{bundle: {{require_mode: 'path'}}, rules: [{}]}}",
        rules.iter().map(|r| rule_json(r)).collect::<Vec<_>>().join(", ")
    );
    let entry = files[0].0.clone();
    match super::c03::process_with_mode(&resources, &entry, "out/bundle.lua", &config_text, mode)? {
        Err(e) => Err(format!("error: {}", e)),
        Ok(tree) => {
            let errors = tree.collect_errors();
            if !errors.is_empty() {
                return Err(format!(
                    "errors: {}",
                    errors.iter().map(|e| e.to_string()).collect::<Vec<_>>().join("; ")
                ));
            }
            resources.get("out/bundle.lua").map_err(|e| format!("{:?}", e))
        }
    }
}

// ------------------------------------------------------------------------------------------
// checks
// ------------------------------------------------------------------------------------------

/// Line-bearing non-empty contents of the real trace that were not written on their recorded
/// line: (checked, displaced), using the real `current_line` at the content's `push_str`.
fn real_displaced(trace: &[TraceOp]) -> (u64, u64) {
    let mut checked = 0;
    let mut displaced = 0;
    let mut pending: Option<i64> = None;
    for t in trace {
        match t.op {
            "token_content" => {
                pending = if t.detail >= 0 && !t.text.is_empty() { Some(t.detail) } else { None };
            }
            "push_str" => {
                if let Some(n) = pending.take() {
                    checked += 1;
                    if t.detail != n {
                        displaced += 1;
                    }
                }
            }
            "token_end" => pending = None,
            _ => {}
        }
    }
    (checked, displaced)
}

struct Lines {
    budget: bool,
    monotone: bool,
    checked: u64,
    displaced: u64,
    first: String,
}

fn model_lines(model: &mut Model, items: &[String]) -> Result<Lines, String> {
    let answer = model.ask(&format!("c04.lines {}", items.join(" ")));
    let p: Vec<&str> = answer.split(' ').collect();
    if p.len() != 6 || p[0] != "ok" {
        return Err(format!("model answered {:?}", answer));
    }
    Ok(Lines {
        budget: p[1] == "1",
        monotone: p[2] == "1",
        checked: p[3].parse().map_err(|_| "bad number")?,
        displaced: p[4].parse().map_err(|_| "bad number")?,
        first: p[5].to_owned(),
    })
}

/// The marker oracle on the real code alone: Some(description) if a marker is off its line.
/// * a marker that occurs several times in the output (a rule cloned the node: the self argument
///   of `remove_method_call`, the read of `remove_compound_assignment`, …) passes if one of the
///   occurrences is on the expected line: the clones are new code;
/// * `literals_recomputed`: the pipeline contains `compute_expression`, whose results are new
///   literal nodes that may spell exactly like an operand (`'s1' or x` → `'s1'`): number and
///   string markers are then not judged, identifier / call markers still are.
fn marker_failure(code: &str, out: &str, shift: usize, literals_recomputed: bool) -> Option<String> {
    marker_failures(code, out, shift, literals_recomputed).into_iter().next().map(|(_, what)| what)
}

fn marker_failures(code: &str, out: &str, shift: usize, literals_recomputed: bool) -> Vec<(String, String)> {
    let mut failures = Vec::new();
    let mut input_lines: BTreeMap<String, Vec<usize>> = BTreeMap::new();
    for (m, l) in find_markers(code) {
        input_lines.entry(m).or_default().push(l);
    }
    let mut output_lines: BTreeMap<String, Vec<usize>> = BTreeMap::new();
    for (m, l) in find_markers(out) {
        output_lines.entry(m).or_default().push(l);
    }
    for (m, ls_out) in &output_lines {
        let literal = m.starts_with('s') || m.starts_with('1');
        if literal && literals_recomputed {
            continue;
        }
        if let Some(ls) = input_lines.get(m) {
            if ls.len() == 1 && !ls_out.contains(&(ls[0] + shift)) {
                failures.push((m.clone(), format!(
                    "marker {} is on line {} of the input but on line(s) {:?} of the output (expected {})",
                    m, ls[0], ls_out, ls[0] + shift
                )));
            }
        }
    }
    failures
}

fn recomputes_literals(rules: &[String]) -> bool {
    rules.iter().any(|r| r.contains("compute_expression"))
}

fn oracle_fails(code: &str, config: &str, shift: usize) -> Option<String> {
    let (out, _) = super::c03::real_process_mode(code, config, ConfigMode::of_case(&(code, &config.to_owned()))).ok()?;
    marker_failure(code, &out, shift, config.contains("compute_expression"))
}

/// What is known about the statements of a program with respect to the two defects of
/// `Block::remove_statement` (`None` = not determined, fall back to a textual over-approximation).
#[derive(Debug, Clone, Copy, Default)]
pub struct RemovalFlags {
    /// F32: a (the) removable statement carries a comment that spans several lines
    pub multiline_comment: Option<bool>,
    /// F34: its comments would be re-attached out of order (two consecutive comments two or more
    /// lines apart, and the next token has leading trivia of its own)
    pub out_of_order: Option<bool>,
}

type TriviaInfo = (darklua_core::nodes::TriviaKind, String, Option<usize>);

/// The inputs of `Block::remove_statement(index)` read from the real tokens: the kept trivia of
/// the statement (leading of its first token, trailing of its semicolon or last token, without
/// whitespace) and the leading trivia of the token they move to.
fn attach_info(block: &darklua_core::nodes::Block, index: usize, code: &str) -> (Vec<TriviaInfo>, Vec<TriviaInfo>) {
    use darklua_core::nodes::TriviaKind;
    let read = |t: &darklua_core::nodes::Trivia| (t.kind(), t.try_read().map(|s| s.to_owned()).unwrap_or_else(|| t.read(code).to_owned()), t.get_line_number());
    let mut scratch = block.clone();
    let statements_len = scratch.statements_len();
    let semicolon_trailing: Option<Vec<TriviaInfo>> = scratch.get_tokens().and_then(|tokens| {
        if tokens.semicolons.len() == statements_len {
            tokens.semicolons[index].as_ref().map(|s| s.iter_trailing_trivia().map(read).collect())
        } else {
            None
        }
    });
    let mut cs: Vec<TriviaInfo> = Vec::new();
    let mut own: Vec<TriviaInfo> = Vec::new();
    let mut has_next = false;
    for (i, statement) in scratch.iter_mut_statements().enumerate() {
        if i == index {
            cs.extend(statement.mutate_first_token().iter_leading_trivia().map(read));
            match &semicolon_trailing {
                Some(t) => cs.extend(t.iter().cloned()),
                None => cs.extend(statement.mutate_last_token().iter_trailing_trivia().map(read)),
            }
        } else if i == index + 1 {
            has_next = true;
            own.extend(statement.mutate_first_token().iter_leading_trivia().map(read));
        }
    }
    if !has_next {
        if let Some(last) = scratch.mutate_last_statement() {
            own.extend(last.mutate_first_token().iter_leading_trivia().map(read));
        } else if let Some(token) = scratch.get_tokens().and_then(|t| t.final_token.as_ref()) {
            own.extend(token.iter_leading_trivia().map(read));
        }
    }
    cs.retain(|(k, _, _)| *k != TriviaKind::Whitespace);
    (cs, own)
}

fn flags_of(cs: &[TriviaInfo], own: &[TriviaInfo]) -> (bool, bool) {
    let multiline = cs.iter().any(|(_, text, _)| text.contains('\n'));
    let lines: Vec<usize> = cs.iter().filter_map(|(_, _, l)| *l).collect();
    let wide_gap = lines.windows(2).any(|w| w[1].saturating_sub(w[0]) >= 2);
    (multiline, wide_gap && !own.is_empty())
}

/// Flags of ONE statement of the top-level block.
pub fn removal_flags_at(code: &str, index: usize) -> RemovalFlags {
    let parsed = std::panic::catch_unwind(|| darklua_core::Parser::default().preserve_tokens().parse(code));
    match parsed {
        Ok(Ok(block)) if index < block.statements_len() => {
            let (cs, own) = attach_info(&block, index, code);
            let (m, o) = flags_of(&cs, &own);
            RemovalFlags { multiline_comment: Some(m), out_of_order: Some(o) }
        }
        _ => RemovalFlags::default(),
    }
}

struct FlagCollector<'a> {
    code: &'a str,
    multiline: bool,
    out_of_order: bool,
}

impl darklua_core::process::NodeProcessor for FlagCollector<'_> {
    fn process_block(&mut self, block: &mut darklua_core::nodes::Block) {
        for index in 0..block.statements_len() {
            let (cs, own) = attach_info(block, index, self.code);
            let (m, o) = flags_of(&cs, &own);
            self.multiline |= m;
            self.out_of_order |= o;
        }
    }
}

/// Flags over EVERY statement of every block of a program (which statements a pipeline removes
/// is not known in advance): true if some statement is in the respective shape.
pub fn removal_flags_any(code: &str) -> RemovalFlags {
    use darklua_core::process::{DefaultVisitor, NodeVisitor};
    let parsed = std::panic::catch_unwind(|| darklua_core::Parser::default().preserve_tokens().parse(code));
    match parsed {
        Ok(Ok(mut block)) => {
            let mut collector = FlagCollector { code, multiline: false, out_of_order: false };
            let walked = std::panic::catch_unwind(std::panic::AssertUnwindSafe(|| {
                DefaultVisitor::visit_block(&mut block, &mut collector);
            }));
            if walked.is_err() {
                return RemovalFlags::default();
            }
            RemovalFlags { multiline_comment: Some(collector.multiline), out_of_order: Some(collector.out_of_order) }
        }
        _ => RemovalFlags::default(),
    }
}

/// `function a.b:c(` somewhere in the text (over-approximation: a `:` between `function` and the
/// next `(`).
fn has_method_definition(code: &str) -> bool {
    let mut rest = code;
    while let Some(i) = rest.find("function") {
        rest = &rest[i + 8..];
        if let Some(j) = rest.find('(') {
            if rest[..j].contains(':') {
                return true;
            }
        }
    }
    false
}

/// a `--[=*[ … ]=*]` comment that spans several lines (over-approximation: also inside strings)
fn has_multiline_block_comment(code: &str) -> bool {
    let mut rest = code;
    while let Some(i) = rest.find("--[") {
        rest = &rest[i + 3..];
        let eq = rest.bytes().take_while(|b| *b == b'=').count();
        if rest.as_bytes().get(eq) == Some(&b'[') {
            let close = format!("]{}]", "=".repeat(eq));
            let body = &rest[eq + 1..];
            let end = body.find(&close).unwrap_or(body.len());
            if body[..end].contains('\n') {
                return true;
            }
        }
    }
    false
}

/// Regions of the recorded known findings (`known_findings.json`, property C04): an entry with
/// `"region": {"rule": r, "code_contains": c, "excuses": "all" | "local_function_names"}`
/// excuses, for pipelines containing rule `r` on programs containing `c`, either every marker or
/// only the names declared by `local function <name>`. Returns (finding id, excused markers;
/// `None` = all).
fn known_region(
    code: &str,
    rules: &[String],
    known: &[Value],
    flags: RemovalFlags,
) -> Vec<(String, Option<Vec<String>>)> {
    let mut regions = Vec::new();
    for k in known {
        let region = &k["region"];
        let Some(id) = k["id"].as_str() else { continue };
        let region_rules: Vec<&str> = match (region["rule"].as_str(), region["rules"].as_array()) {
            (Some(r), _) => vec![r],
            (None, Some(rs)) => rs.iter().filter_map(|r| r.as_str()).collect(),
            _ => continue,
        };
        if !rules.iter().any(|r| region_rules.iter().any(|x| r.contains(x))) {
            continue;
        }
        if region["when"].as_str() == Some("removed_statement_multiline_comment") {
            // F32 needs a comment spanning several lines ATTACHED TO THE REMOVED STATEMENT. The
            // directed family decides this per removed statement, the random generator only places
            // such comments between statements in flagged programs; an input of unknown origin
            // (replay without the flag) falls back to "some block comment spans lines".
            match flags.multiline_comment {
                Some(false) => continue,
                Some(true) => {}
                None => {
                    if !has_multiline_block_comment(code) {
                        continue;
                    }
                }
            }
        }
        if region["when"].as_str() == Some("removed_statement_comments_out_of_order") {
            // F34: decided from the real tokens (see `RemovalFlags`); unknown = not excused
            if flags.out_of_order != Some(true) {
                continue;
            }
        }
        if let Some(needle) = region["code_contains"].as_str() {
            let other = region["or_rule"].as_str().map(|o| rules.iter().any(|r| r.contains(o))).unwrap_or(false);
            if !code.contains(needle) && !other {
                continue;
            }
        }
        if region["when"].as_str() == Some("multiline_quoted_string")
            && !(code.contains("\\\n") || code.contains("\\\r\n") || code.contains("\\z\n") || code.contains("\\z\r\n"))
        {
            continue;
        }
        if region["when"].as_str() == Some("method_definition") && !has_method_definition(code) {
            continue;
        }
        if region["when"].as_str() == Some("compound_assignment")
            && !["+=", "-=", "*=", "/=", "%=", "^=", "..="].iter().any(|op| code.contains(op))
        {
            continue;
        }
        match region["excuses"].as_str() {
            Some("local_names") => {
                let names = find_markers(code)
                    .into_iter()
                    .filter(|(m, _)| m.starts_with('v'))
                    .map(|(m, _)| m)
                    .collect();
                regions.push((id.to_owned(), Some(names)));
            }
            Some("local_function_names") => {
                let words: Vec<&str> = code
                    .split(|c: char| !(c.is_ascii_alphanumeric() || c == '_'))
                    .filter(|w| !w.is_empty())
                    .collect();
                let names = words
                    .windows(2)
                    .filter(|w| w[0] == "function" && w[1].starts_with('v'))
                    .map(|w| w[1].to_owned())
                    .collect();
                regions.push((id.to_owned(), Some(names)));
            }
            _ => regions.push((id.to_owned(), None)),
        }
    }
    regions
}

pub fn check_case(
    acc: &mut Acc,
    model: &mut Model,
    code: &str,
    pipeline: &Pipeline,
    known: &[Value],
    flags: RemovalFlags,
) -> bool {
    let config = config_of(&pipeline.rules);
    let input = json!({"kind": "program", "code": code, "config": config, "shift": pipeline.shift,
        "pipeline": pipeline.kind,
        "removal_flags": {"multiline_comment": flags.multiline_comment, "out_of_order": flags.out_of_order}});
    // how retain_lines is selected / where the configuration comes from is part of the case
    let mode = ConfigMode::of_case(&(code, &config));
    acc.hist("configuration", mode.name());
    let (out, trace) = match super::c03::real_process_mode(code, &config, mode) {
        Ok(x) => x,
        Err(e) => {
            acc.hist("case", if e == "panic" { "panic (C12's business)" } else { "not processed (parse/rule error)" });
            if acc.notes.is_empty() && code.len() < 200 {
                acc.notes.push(format!("not processed: {:?} with {}: {}", code, config, &e[..e.len().min(300)]));
            }
            return false;
        }
    };
    acc.hist("pipeline", pipeline.kind);
    // (1) state machine correspondence on the transformed tree
    let enc = match encode_trace(&trace) {
        Ok(e) => e,
        Err(e) => {
            acc.violation(Violation {
                kind: "correspondence".into(),
                check: "trace-shape".into(),
                what: e,
                input,
                failing_input_found: false,
            });
            return true;
        }
    };
    let regions = known_region(code, &pipeline.rules, known, flags);
    let all_failures = marker_failures(code, &out, pipeline.shift, recomputes_literals(&pipeline.rules));
    let excused = |m: &String| regions.iter().any(|(_, names)| names.as_ref().map(|n| n.contains(m)).unwrap_or(true));
    let failure = all_failures.iter().find(|(m, _)| !excused(m)).map(|(_, what)| what.clone());
    let region: Option<String> = if failure.is_none() && !all_failures.is_empty() {
        regions.first().map(|(id, _)| id.clone())
    } else {
        None
    };
    match model_replay(model, &enc.items) {
        Err(e) => acc.violation(Violation {
            kind: "correspondence".into(),
            check: "model-replay".into(),
            what: e,
            input: input.clone(),
            failing_input_found: false,
        }),
        Ok(m) => {
            if let Some(diff) = compare_run(&out, &enc, &m) {
                let found = failure.is_some();
                acc.violation(Violation {
                    kind: if found { "oracle".into() } else { "correspondence".into() },
                    check: "trace-replay(rules)".into(),
                    what: match &failure {
                        Some(f) if found => format!("{}; and {}", f, diff),
                        _ => diff,
                    },
                    input: input.clone(),
                    failing_input_found: found,
                });
            }
        }
    }
    let (real_checked, real_disp) = real_displaced(&trace);
    match model_lines(model, &enc.items) {
        Err(e) => acc.violation(Violation {
            kind: "correspondence".into(),
            check: "model-lines".into(),
            what: e,
            input: input.clone(),
            failing_input_found: false,
        }),
        Ok(l) => {
            if (l.checked, l.displaced) != (real_checked, real_disp) {
                acc.violation(Violation {
                    kind: "correspondence".into(),
                    check: "displaced-contents".into(),
                    what: format!(
                        "line-bearing contents (checked, displaced): model {:?}, real trace {:?}",
                        (l.checked, l.displaced),
                        (real_checked, real_disp)
                    ),
                    input: input.clone(),
                    failing_input_found: false,
                });
            }
            if l.budget && real_disp > 0 {
                acc.violation(Violation {
                    kind: "correspondence".into(),
                    check: "budget_lands instance".into(),
                    what: format!("budgetOk holds for the trace but {} contents are displaced in the real run", real_disp),
                    input: input.clone(),
                    failing_input_found: false,
                });
            }
            acc.hist("hypothesis", match (l.budget, l.monotone) {
                (true, true) => "budgetOk and monotone",
                (true, false) => "budgetOk only (kept newline trivia)",
                (false, _) => "budget fails (some content cannot be on its line)",
            });
            if !l.budget {
                acc.hist("budget failure", &format!("{} / first {}", pipeline.kind, l.first));
            }
        }
    }
    // (2) oracle
    let markers_in = find_markers(code).len();
    let markers_out = find_markers(&out).len();
    match (&failure, &region) {
        (Some(f), _) => acc.violation(Violation {
            kind: "oracle".into(),
            check: "marker-line".into(),
            what: format!("{}; output {:?}", f, out),
            input,
            failing_input_found: true,
        }),
        (None, Some(id)) => acc.hist("case", &format!("markers displaced inside known finding region {}", id)),
        (None, None) => acc.hist("case", if markers_out == 0 { "no marker survives" } else { "all surviving markers on their line" }),
    }
    let nontrivial = markers_out >= 3 && out.lines().count() >= 3 && enc.tokens > 5;
    acc.case(if nontrivial { Some((code, &config)) } else { None });
    acc.count("markers_in", markers_in as u64);
    acc.count("markers_surviving", markers_out as u64);
    true
}


// ------------------------------------------------------------------------------------------
// directed family: a removable statement with documentation comments (Block::remove_statement)
// ------------------------------------------------------------------------------------------

pub struct Removal {
    pub code: String,
    pub rule: &'static str,
    /// a comment ATTACHED TO THE REMOVED STATEMENT spans several lines (finding F32)
    pub f32: bool,
    /// index of the removable statement in the top-level block (None: nested shape)
    pub removed_index: Option<usize>,
    pub shape: String,
}

/// (text, spans several lines)
fn doc_comment(rng: &mut Rng, tag: &str, allow_multiline: bool) -> (String, bool) {
    match rng.below(if allow_multiline { 6 } else { 4 }) {
        0 | 1 => (format!("-- {}", tag), false),
        2 => (format!("--[[ {} ]]", tag), false),
        3 => (format!("--[=[ {} ]=]", tag), false),
        4 => (format!("--[[ {}\n   more ]]", tag), true),
        _ => (format!("--[==[\n{}\n\n]==]", tag), true),
    }
}

pub fn gen_removal(rng: &mut Rng, multiline_rate: u32) -> Removal {
    let allow_ml = (rng.below(100) as u32) < multiline_rate;
    let kind = rng.below(6);
    let (rule, statement): (&'static str, String) = match kind {
        0 => ("remove_unused_variable", (*rng.pick(&["local v9 = 1000009", "local v9 =\n  1000009", "local v9, v8 = 1000009, 's8'"])).to_owned()),
        1 => ("remove_empty_do", (*rng.pick(&["do end", "do\nend", "do do end end"])).to_owned()),
        2 => ("remove_unused_while", (*rng.pick(&["while false do m8() end", "while false do\n  m8()\nend"])).to_owned()),
        3 => ("remove_unused_if_branch", (*rng.pick(&["if false then m8() end", "if false then\n  m8()\nend"])).to_owned()),
        4 => ("remove_types", (*rng.pick(&["type T9 = number", "type T9 = {\n  x: number,\n}"])).to_owned()),
        _ => ("filter_after_early_return", "m8()".to_owned()),
    };
    let mut f32 = false;
    let mut code = String::new();
    let mut shape = String::new();
    let nested = kind == 5;
    if nested {
        code.push_str("function g7()\n  do return end");
    } else {
        code.push_str("m1()");
    }
    // trailing comment of the statement BEFORE (not attached to the removed one)
    match rng.below(4) {
        0 => code.push_str(" -- p"),
        1 => code.push_str(" --[[ p ]]"),
        _ => {}
    }
    code.push('\n');
    for _ in 0..rng.below(3) {
        code.push('\n');
    }
    let docs = rng.below(5);
    shape.push_str(&format!("{} docs", docs));
    for i in 0..docs {
        if rng.chance(1, 4) {
            code.push_str("  ");
        }
        let (text, ml) = doc_comment(rng, &format!("d{}", i), allow_ml);
        f32 |= ml;
        code.push_str(&text);
        if rng.chance(1, 6) {
            // a second comment on the same line
            code.push_str(" --[[ same line ]]");
        }
        code.push('\n');
        if rng.chance(1, 5) {
            code.push('\n');
            if rng.chance(1, 3) {
                code.push('\n');
            }
        }
    }
    code.push_str(&statement);
    let semicolon = rng.chance(1, 5);
    if semicolon {
        code.push_str(if rng.chance(1, 2) { ";" } else { " ;" });
        shape.push_str(", semicolon");
    }
    match rng.below(5) {
        0 | 1 => {
            code.push_str(" -- t");
            shape.push_str(", trailing line comment");
        }
        2 => {
            code.push_str(" --[[ t ]]");
            shape.push_str(", trailing block comment");
        }
        3 if allow_ml => {
            code.push_str(" --[[ t\n u ]]");
            f32 = true;
            shape.push_str(", trailing multi-line comment");
        }
        _ => {}
    }
    code.push('\n');
    for _ in 0..rng.below(3) {
        code.push('\n');
    }
    // the next statement's own documentation (leading trivia of the token the comments move to)
    let own = rng.below(3);
    for i in 0..own {
        let (text, _) = doc_comment(rng, &format!("own{}", i), true);
        code.push_str(&text);
        code.push('\n');
        if rng.chance(1, 4) {
            code.push('\n');
        }
    }
    shape.push_str(&format!(", {} own", own));
    if nested {
        code.push_str("end\nm4()\nm5()");
    } else {
        code.push_str("m4()\nm5() m6()\n\nm7()");
    }
    if rng.chance(1, 2) {
        code.push('\n');
    }
    if rng.chance(1, 4) {
        code = code.replace('\n', "\r\n");
    }
    Removal { code, rule, f32, removed_index: if nested { None } else { Some(1) }, shape }
}

fn removal_pipelines(rule: &str, defaults: &[String]) -> Vec<Pipeline> {
    let r = rule.to_owned();
    let s = "remove_spaces".to_owned();
    let mut v = vec![
        Pipeline { kind: "directed: [rule]", rules: vec![r.clone()], shift: 0 },
        Pipeline { kind: "directed: [remove_spaces, rule]", rules: vec![s.clone(), r.clone()], shift: 0 },
        Pipeline { kind: "directed: [rule, remove_spaces]", rules: vec![r.clone(), s.clone()], shift: 0 },
        Pipeline { kind: "directed: [rule, remove_comments]", rules: vec![r.clone(), "remove_comments".to_owned()], shift: 0 },
    ];
    if defaults.iter().any(|d| d == rule) {
        v.push(Pipeline { kind: "directed: default rules", rules: defaults.to_vec(), shift: 0 });
    } else {
        let mut rules = defaults.to_vec();
        rules.push(r);
        v.push(Pipeline { kind: "directed: default rules + rule", rules, shift: 0 });
    }
    v
}

fn rt_item(kind: darklua_core::nodes::TriviaKind, text: &str, line: Option<usize>) -> String {
    format!(
        "{}{}:{}",
        if kind == darklua_core::nodes::TriviaKind::Comment { "c" } else { "w" },
        line.map(|l| l.to_string()).unwrap_or_else(|| "-".to_owned()),
        crate::model::hex(text.as_bytes())
    )
}

/// Correspondence of `Block::remove_statement` with the Lean `reattach`: the real function is
/// run on the parsed block; its inputs (kept trivia of the removed statement, leading trivia of
/// the next token) are read from the real tokens and given to the model.
fn check_reattach(acc: &mut Acc, model: &mut Model, code: &str, index: usize) {
    use darklua_core::nodes::TriviaKind;
    let parsed = std::panic::catch_unwind(|| darklua_core::Parser::default().preserve_tokens().parse(code));
    let mut block = match parsed {
        Ok(Ok(b)) => b,
        _ => return,
    };
    if index + 1 >= block.statements_len() {
        return;
    }
    let input = json!({"kind": "reattach", "code": code, "index": index});
    let read = |t: &darklua_core::nodes::Trivia| (t.kind(), t.read(code).to_owned(), t.get_line_number());
    let mut scratch = block.clone();
    let statements_len = scratch.statements_len();
    let semicolon_trailing: Option<Vec<_>> = scratch.get_tokens().and_then(|tokens| {
        if tokens.semicolons.len() == statements_len {
            tokens.semicolons[index].as_ref().map(|s| s.iter_trailing_trivia().map(read).collect())
        } else {
            None
        }
    });
    let mut cs: Vec<(TriviaKind, String, Option<usize>)> = Vec::new();
    let mut own = Vec::new();
    for (i, statement) in scratch.iter_mut_statements().enumerate() {
        if i == index {
            cs.extend(statement.mutate_first_token().iter_leading_trivia().map(read));
            match &semicolon_trailing {
                Some(t) => cs.extend(t.iter().cloned()),
                None => cs.extend(statement.mutate_last_token().iter_trailing_trivia().map(read)),
            }
        } else if i == index + 1 {
            own.extend(statement.mutate_first_token().iter_leading_trivia().map(read));
        }
    }
    cs.retain(|(k, _, _)| *k != TriviaKind::Whitespace);
    let done = std::panic::catch_unwind(std::panic::AssertUnwindSafe(|| block.remove_statement(index)));
    if done.is_err() {
        return;
    }
    let real: Vec<String> = match block.iter_mut_statements().nth(index) {
        Some(next) => next
            .mutate_first_token()
            .iter_leading_trivia()
            .map(|t| {
                // re-created gaps carry their own content, the others still refer to the source
                let text = t.try_read().map(|s| s.to_owned()).unwrap_or_else(|| t.read(code).to_owned());
                rt_item(t.kind(), &text, t.get_line_number())
            })
            .collect(),
        None => return,
    };
    let mut words = vec!["c04.reattach".to_owned()];
    words.extend(cs.iter().map(|(k, t, l)| rt_item(k.clone(), t, *l)));
    words.push("|".to_owned());
    words.extend(own.iter().map(|(k, t, l)| rt_item(k.clone(), t, *l)));
    let request = words.join(" ");
    let answer = model.ask(&request);
    let expected = format!("ok {}", real.join(" "));
    let expected = expected.trim_end().to_owned();
    acc.case(if cs.len() >= 2 { Some(("reattach", code)) } else { None });
    acc.hist("reattach", &format!("{} kept trivia, {} own", cs.len().min(5), own.len().min(4)));
    if answer.trim_end() != expected {
        acc.violation(Violation {
            kind: "correspondence".into(),
            check: "remove_statement re-attachment".into(),
            what: format!("model {:?}, real {:?}", answer, expected),
            input,
            failing_input_found: false,
        });
    }
}

// ------------------------------------------------------------------------------------------
// bundling face
// ------------------------------------------------------------------------------------------

pub struct BundleCase {
    /// files[0] is the entry point
    pub files: Vec<(String, String)>,
    pub rules: Vec<String>,
    /// how retain_lines is selected and where the configuration comes from
    pub mode: ConfigMode,
}

pub fn gen_bundle(rng: &mut Rng) -> BundleCase {
    let modules = 2 + rng.below(3);
    let mut files = Vec::new();
    let layout_for = |rng: &mut Rng| {
        Layout::plain(*rng.pick(&["\n", "\n", "\r\n"]), *rng.pick(&[0u32, 100, 250]), *rng.pick(&[200u32, 400, 600]), 0)
    };
    // which modules are required by the entry and which by the module after them
    let mut entry_requires: Vec<usize> = Vec::new();
    let mut nested: Vec<Option<usize>> = vec![None; modules];
    for i in 0..modules {
        if i + 1 < modules && rng.chance(1, 3) {
            nested[i + 1] = Some(i);
            if rng.chance(1, 3) {
                entry_requires.push(i);
            }
        } else {
            entry_requires.push(i);
        }
    }
    if !entry_requires.contains(&(modules - 1)) {
        entry_requires.push(modules - 1);
    }
    rng.shuffle(&mut entry_requires);
    for i in 0..modules {
        let mut g = ProgGen::new(rng.fork(), 15 + rng.below(40) as i32);
        g.markers = true;
        g.multiline_strings = rng.chance(1, 3);
        g.set_marker_base(10_000 * (i as u32 + 1));
        if let Some(j) = nested[i] {
            g.require_statement(&format!("./mod{}", j));
        }
        let n = rng.below(3);
        g.module_body(1 + rng.below(2) as u32, n);
        let toks = std::mem::take(&mut g.toks);
        let layout = layout_for(rng);
        files.push((format!("src/mod{}.lua", i), lay_out(rng, &toks, &layout)));
    }
    let mut g = ProgGen::new(rng.fork(), 15 + rng.below(40) as i32);
    g.markers = true;
    g.set_marker_base(90_000);
    for i in &entry_requires {
        if rng.chance(1, 3) {
            g.statements(1, 1);
        }
        g.require_statement(&format!("./mod{}", i));
    }
    g.statements(1 + rng.below(2) as u32, 1 + rng.below(3));
    let toks = std::mem::take(&mut g.toks);
    let layout = layout_for(rng);
    let mut all = vec![("src/main.lua".to_owned(), lay_out(rng, &toks, &layout))];
    all.extend(files);
    let rules: Vec<String> = match rng.below(4) {
        0 => vec![],
        1 => vec!["remove_spaces".into()],
        2 => vec!["remove_spaces".into(), "remove_comments".into()],
        _ => vec!["remove_comments".into()],
    };
    let mode = *rng.pick(&ConfigMode::ALL);
    BundleCase { files: all, rules, mode }
}

/// Lines a bundled file takes in the output: where it ends (a final newline = the file ends on
/// the next line). Independent of `utils/lines.rs`.
fn total_lines(content: &str) -> usize {
    content.matches('\n').count() + 1
}

/// The bundling oracle: Some(description) when the markers are not shifted by the known amount.
/// The order of the modules is read off the output (first marker of each file); a file is
/// shifted by the total lines of the files written before it, the entry point comes last.
fn bundle_failure(files: &[(String, String)], out: &str) -> Result<usize, String> {
    let out_markers: BTreeMap<String, Vec<usize>> = {
        let mut m: BTreeMap<String, Vec<usize>> = BTreeMap::new();
        for (k, l) in find_markers(out) {
            m.entry(k).or_default().push(l);
        }
        m
    };
    // per file: markers unique in that file and in the output
    let mut per_file: Vec<(usize, Vec<(String, usize, usize)>)> = Vec::new();
    let mut all_inputs: BTreeMap<String, usize> = BTreeMap::new();
    for (_, content) in files {
        for (k, _) in find_markers(content) {
            *all_inputs.entry(k).or_default() += 1;
        }
    }
    for (index, (_, content)) in files.iter().enumerate() {
        let mut list = Vec::new();
        for (k, l) in find_markers(content) {
            if all_inputs[&k] == 1 {
                if let Some(ls) = out_markers.get(&k) {
                    if ls.len() == 1 {
                        list.push((k, l, ls[0]));
                    }
                }
            }
        }
        per_file.push((index, list));
    }
    let mut order: Vec<(usize, usize)> = per_file
        .iter()
        .filter(|(_, list)| !list.is_empty())
        .map(|(i, list)| (list.iter().map(|(_, _, o)| *o).min().unwrap(), *i))
        .collect();
    order.sort();
    if per_file.iter().any(|(i, list)| *i != 0 && list.is_empty()) {
        return Err("a bundled module has no surviving marker".to_owned());
    }
    if order.last().map(|(_, i)| *i) != Some(0) {
        return Err(format!("the entry point's code is not written last (order of first markers: {:?})", order));
    }
    let mut shift = 0usize;
    let mut checked = 0usize;
    for (_, index) in &order {
        let (path, content) = &files[*index];
        for (k, l, o) in &per_file[*index].1 {
            if l + shift != *o {
                return Err(format!(
                    "marker {} of `{}` (line {}) should be shifted by {} lines (the files written before it) to line {} but is on line {}",
                    k, path, l, shift, l + shift, o
                ));
            }
            checked += 1;
        }
        shift += total_lines(content);
    }
    Ok(checked)
}

/// Finding F33 region: some module is required at two or more sites (the first site's call
/// expression, tokens and trivia included, is reused at the others).
fn has_duplicate_require(files: &[(String, String)]) -> bool {
    let mut counts: BTreeMap<String, usize> = BTreeMap::new();
    for (_, content) in files {
        let mut rest = content.as_str();
        while let Some(i) = rest.find("\"./") {
            rest = &rest[i + 1..];
            if let Some(j) = rest.find('"') {
                *counts.entry(rest[..j].to_owned()).or_default() += 1;
                rest = &rest[j + 1..];
            }
        }
    }
    counts.values().any(|c| *c > 1)
}

fn check_bundle(acc: &mut Acc, case: &BundleCase, known: &[Value]) -> bool {
    let input = json!({"kind": "bundle", "files": case.files, "rules": case.rules, "config_mode": case.mode.name()});
    let out = match real_bundle(&case.files, &case.rules, case.mode) {
        Ok(o) => o,
        Err(e) => {
            acc.hist("bundle", if e == "panic" { "panic" } else { "not processed" });
            if acc.notes.is_empty() {
                acc.notes.push(format!("bundle not processed: {}", &e[..e.len().min(300)]));
            }
            return false;
        }
    };
    acc.hist("bundle configuration", case.mode.name());
    // independent of the markers: with retain_lines every module keeps its lines, so the bundle
    // has at least as many lines as the modules together
    let module_lines: usize = case.files.iter().skip(1).map(|(_, content)| total_lines(content)).sum();
    if out.matches('\n').count() + 1 < module_lines {
        acc.violation(Violation {
            kind: "oracle".into(),
            check: "bundle-line-count".into(),
            what: format!(
                "the bundle has {} lines, the bundled modules alone have {}: the modules were not written with their lines ({}); output {:?}",
                out.matches('\n').count() + 1, module_lines, case.mode.name(), out
            ),
            input: input.clone(),
            failing_input_found: true,
        });
        return true;
    }
    match bundle_failure(&case.files, &out) {
        Ok(checked) => {
            acc.hist("bundle", &format!("{} modules, markers shifted by the known amounts", case.files.len() - 1));
            acc.case(if checked >= 4 { Some(("bundle", &case.files)) } else { None });
        }
        Err(what) => {
            let f33 = known.iter().any(|k| k["region"]["bundle"].is_string()) && has_duplicate_require(&case.files);
            if f33 {
                acc.hist("bundle", "markers displaced inside known finding region F33 (module required twice)");
            } else {
                acc.violation(Violation {
                    kind: "oracle".into(),
                    check: "bundle-shift".into(),
                    what: format!("{}; output {:?}", what, out),
                    input,
                    failing_input_found: true,
                })
            }
        }
    }
    true
}

const FIXED: &[(&str, &[&str], usize)] = &[
    ("local v1 = m2(\n  g3,\n  's4'\n)\nreturn v1", &["remove_spaces"], 0),
    ("m1()\n\n\n-- c\nm2() --[[ x\n y ]] m3()\nm4()", &["remove_spaces"], 0),
    ("m1()\n\n\n-- c\nm2() --[[ x\n y ]] m3()\nm4()", &["remove_spaces", "remove_comments"], 0),
    ("if g1 then\n  m2()\nelse\n  m3()\nend\nm4()", &["remove_spaces", "remove_comments", "compute_expression", "remove_unused_if_branch"], 0),
    ("m1()\nm2()", &["{rule: 'append_text_comment', text: 'hello'}"], 1),
    ("m1()\nm2()", &["{rule: 'append_text_comment', text: 'a\\nb'}"], 4),
    ("g1.v2 += m3(\n 1000004)\nm5()", &["remove_spaces", "remove_compound_assignment"], 0),
    ("local function v1()\n return m2()\nend\nm3(v1)", &["remove_spaces", "convert_local_function_to_assign"], 0),
    ("for v1 = 1000001,\n 1000002 do\n if g3 then\n continue\n end\n m4()\nend", &["remove_spaces", "remove_continue"], 0),
];

pub fn run(report: &mut Report, replay: Option<&str>) {
    let mut model = Model::spawn();
    // regions are excused for entries that are still "known"; fixed entries excuse nothing
    let all_known = known_findings("C04");
    let known: Vec<Value> = all_known.iter().filter(|k| k["status"] == "known").cloned().collect();
    report.rule = "marker programs: grammar-generated Lua/Luau programs (all statement kinds, calls, tables, functions, \
        if-expressions, compound assignments, optional type annotations) whose literals/globals/calls are unique markers, laid out \
        with line breaks in 30-70% of the token gaps plus comments, processed by the real darklua_core::process with retain_lines and \
        (a) subsets/orders of the 13 default rules, (b) remove_spaces + 1-6 line-neutral rules, (c) append_text_comment at start \
        (alone, with the default rules, or with line-neutral rules, at a random position). Non-trivial = at least 3 markers survive, \
        the output has at least 3 lines and more than 5 tokens were written."
        .to_owned();

    if let Some(path) = replay {
        let text = std::fs::read_to_string(path).unwrap_or_default();
        let v: Value = serde_json::from_str(&text).unwrap_or(Value::Null);
        let input = &v["input"];
        if input["kind"] == "bundle" {
            let files: Vec<(String, String)> = input["files"].as_array().map(|a| a.iter()
                .filter_map(|f| Some((f[0].as_str()?.to_owned(), f[1].as_str()?.to_owned()))).collect()).unwrap_or_default();
            let rules: Vec<String> = input["rules"].as_array().map(|a| a.iter()
                .filter_map(|r| r.as_str().map(|s| s.to_owned())).collect()).unwrap_or_default();
            let mut acc = Acc::default();
            let mode = input["config_mode"].as_str().and_then(ConfigMode::from_name).unwrap_or(ConfigMode::ApiRetainLines);
            check_bundle(&mut acc, &BundleCase { files, rules, mode }, &known);
            acc.flush(report);
            return;
        }
        if input["kind"] == "reattach" {
            let mut acc = Acc::default();
            check_reattach(&mut acc, &mut model, input["code"].as_str().unwrap_or(""), input["index"].as_u64().unwrap_or(0) as usize);
            acc.flush(report);
            return;
        }
        if let (Some(code), Some(config)) = (input["code"].as_str(), input["config"].as_str()) {
            // the configuration text is replayed as is; the removal flags recorded with the case
            // (decided per removed statement for the directed family) are reused
            let shift = input["shift"].as_u64().unwrap_or(0) as usize;
            let any = removal_flags_any(code);
            let flags = RemovalFlags {
                multiline_comment: input["removal_flags"]["multiline_comment"].as_bool().or(any.multiline_comment),
                out_of_order: input["removal_flags"]["out_of_order"].as_bool().or(any.out_of_order),
            };
            let rules_text = config.trim().trim_start_matches("{rules: [").trim_end_matches("]}");
            let rule_names: Vec<String> = vec![rules_text.to_owned()];
            let regions = known_region(code, &rule_names, &known, flags);
            let mut acc = Acc::default();
            match super::c03::real_process_mode(code, config, ConfigMode::of_case(&(code, &config.to_owned()))) {
                Ok((out, _)) => {
                    let failures = marker_failures(code, &out, shift, config.contains("compute_expression"));
                    let excused = |m: &String| regions.iter().any(|(_, names)| names.as_ref().map(|n| n.contains(m)).unwrap_or(true));
                    if let Some((_, f)) = failures.iter().find(|(m, _)| !excused(m)) {
                        acc.violation(Violation {
                            kind: "oracle".into(),
                            check: "marker-line".into(),
                            what: format!("{}; output {:?}", f, out),
                            input: input.clone(),
                            failing_input_found: true,
                        });
                    }
                }
                Err(e) => acc.notes.push(format!("replay: {}", e)),
            }
            acc.flush(report);
        }
        return;
    }

    // `fork` mixes the state: consecutive seeds must not share thread streams
    if let Ok(spec) = std::env::var("C04_BUNDLE_PROBE") {
        // development aid: JSON {"files": [[path, content], ...], "rules": [...]}
        let v: Value = serde_json::from_str(&spec).expect("probe json");
        let files: Vec<(String, String)> = v["files"].as_array().unwrap().iter()
            .map(|f| (f[0].as_str().unwrap().to_owned(), f[1].as_str().unwrap().to_owned())).collect();
        let rules: Vec<String> = v["rules"].as_array().map(|a| a.iter().map(|r| r.as_str().unwrap().to_owned()).collect()).unwrap_or_default();
        let mode = v["config_mode"].as_str().and_then(ConfigMode::from_name).unwrap_or(ConfigMode::ApiRetainLines);
        match real_bundle(&files, &rules, mode) {
            Ok(out) => {
                for (i, l) in out.lines().enumerate() {
                    eprintln!("{:3} | {}", i + 1, l);
                }
            }
            Err(e) => eprintln!("ERR {}", e),
        }
        return;
    }

    let mut rng = Rng::new(report.seed).fork();
    let thorough = report.is_thorough();
    let defaults = default_rule_names();
    report.notes.push(format!("default rules: {}", defaults.join(", ")));

    // known findings first
    for f in &all_known {
        let id = f["id"].as_str().unwrap_or("?");
        let w = &f["witness"];
        if let Some(files) = w["files"].as_array() {
            let files: Vec<(String, String)> = files.iter()
                .filter_map(|f| Some((f[0].as_str()?.to_owned(), f[1].as_str()?.to_owned()))).collect();
            let rules: Vec<String> = w["rules"].as_array().map(|a| a.iter()
                .filter_map(|r| r.as_str().map(|s| s.to_owned())).collect()).unwrap_or_default();
            if let Ok(out) = real_bundle(&files, &rules, ConfigMode::ApiRetainLines) {
                if let Err(what) = bundle_failure(&files, &out) {
                    let markers = find_markers(&out);
                    let as_recorded = w["output_lines_of"].as_object().map(|o| o.iter().all(|(m, l)|
                        markers.iter().any(|(k, line)| k == m && Some(*line as u64) == l.as_u64()))).unwrap_or(true);
                    if as_recorded {
                        if f["status"] == "fixed" {
                            // a repaired finding excuses nothing: failing again is a regression
                            report.violation(Violation {
                                kind: "oracle".into(),
                                check: "fixed-finding-regressed".into(),
                                what: format!("{} (fixed by {}): {}", id, f["commit"], what),
                                input: f["witness"].clone(),
                                failing_input_found: true,
                            });
                        } else {
                            report.known_finding(id, &what);
                        }
                    } else {
                        report.violation(Violation {
                            kind: "finding-changed".into(),
                            check: "known-finding-replay".into(),
                            what: format!("{}: now {}", id, what),
                            input: json!({"kind": "bundle", "files": files, "rules": rules}),
                            failing_input_found: true,
                        });
                    }
                }
            }
            continue;
        }
        if let (Some(code), Some(config)) = (w["code"].as_str(), w["config"].as_str()) {
            let shift = w["shift"].as_u64().unwrap_or(0) as usize;
            match super::c03::real_process_mode(code, config, ConfigMode::of_case(&(code, &config.to_owned()))) {
                Ok((out, _)) => match marker_failure(code, &out, shift, config.contains("compute_expression")) {
                    Some(what) => {
                        if w["output_now"].as_str().map(|o| o == out).unwrap_or(true) {
                            if f["status"] == "fixed" {
                                // a repaired finding excuses nothing: failing again is a regression
                                report.violation(Violation {
                                    kind: "oracle".into(),
                                    check: "fixed-finding-regressed".into(),
                                    what: format!("{} (fixed by {}): {}", id, f["commit"], what),
                                    input: f["witness"].clone(),
                                    failing_input_found: true,
                                });
                            } else {
                                report.known_finding(id, &what);
                            }
                        } else {
                            report.violation(Violation {
                                kind: "finding-changed".into(),
                                check: "known-finding-replay".into(),
                                what: format!("{}: output is now {:?}", id, out),
                                input: json!({"kind": "program", "code": code, "config": config, "shift": shift}),
                                failing_input_found: true,
                            });
                        }
                    }
                    None => {}
                },
                Err(e) => report.notes.push(format!("known finding {} no longer processes: {}", id, e)),
            }
        }
    }

    let mut acc = Acc::default();
    for (code, rules, shift) in FIXED {
        let p = Pipeline { kind: "fixed", rules: rules.iter().map(|r| (*r).to_owned()).collect(), shift: *shift };
        if !check_case(&mut acc, &mut model, code, &p, &known, removal_flags_any(code)) {
            acc.notes.push(format!("fixed program not processed: {:?}", code));
        }
    }
    // corpus: `corpus/C04/*.json` = {"code", "rules": [...], "shift"}
    let corpus_dir = concat!(env!("CARGO_MANIFEST_DIR"), "/../corpus/C04");
    if let Ok(entries) = std::fs::read_dir(corpus_dir) {
        let mut paths: Vec<_> = entries.flatten().map(|e| e.path()).collect();
        paths.sort();
        for p in paths {
            if let Ok(text) = std::fs::read_to_string(&p) {
                if let Ok(v) = serde_json::from_str::<Value>(&text) {
                    if let (Some(code), Some(rules)) = (v["code"].as_str(), v["rules"].as_array()) {
                        let p = Pipeline {
                            kind: "corpus",
                            rules: rules.iter().filter_map(|r| r.as_str().map(|s| s.to_owned())).collect(),
                            shift: v["shift"].as_u64().unwrap_or(0) as usize,
                        };
                        check_case(&mut acc, &mut model, code, &p, &known, removal_flags_any(code));
                        acc.count("corpus_cases", 1);
                    }
                }
            }
        }
    }
    // directed family: removable statements with documentation comments
    let removals = if thorough { 8_000 } else { 800 };
    for i in 0..removals {
        // a third of the cases may carry comments that span several lines (F32 region, decided
        // per removed statement)
        let removal = gen_removal(&mut rng, if i % 3 == 0 { 100 } else { 0 });
        if let Some(index) = removal.removed_index {
            check_reattach(&mut acc, &mut model, &removal.code, index);
        }
        // the region of F32 / F34 is decided for the removed statement itself, from the real tokens
        let flags = match removal.removed_index {
            Some(index) => removal_flags_at(&removal.code, index),
            None => removal_flags_any(&removal.code),
        };
        if removal.removed_index.is_some() && flags.multiline_comment != Some(removal.f32) {
            // (a type declaration's trailing comment is not reachable through mutate_last_token, so
            // it is not re-attached: the tokens, not the generator, decide)
            acc.hist("directed removal", "generator and tokens disagree on `multi-line comment attached` (tokens decide)");
        }
        for p in removal_pipelines(removal.rule, &defaults) {
            if !check_case(&mut acc, &mut model, &removal.code, &p, &known, flags) {
                acc.notes.push(format!("directed removal not processed: {:?}", removal.code));
                break;
            }
        }
        acc.hist("directed removal", &format!("{}{}{}", removal.rule,
            if flags.multiline_comment == Some(true) { " (multi-line comment attached: F32 region)" } else { "" },
            if flags.out_of_order == Some(true) { " (re-attached out of order: F34 region)" } else { "" }));
        if i == 0 {
            acc.sample(json!({"directed_removal": removal.code, "rule": removal.rule, "shape": removal.shape}));
        }
    }
    // fixed bundles: file endings without trailing trivia / with footer
    for (b_ending, rules) in [("", vec![]), ("\n", vec![]), ("\n\n-- end of module b\n", vec![]), ("", vec!["remove_spaces".to_owned(), "remove_comments".to_owned()]),
        (" -- tail", vec![]), ("\n--[[ footer\n block ]]", vec!["remove_spaces".to_owned()])] {
        let case = BundleCase {
            files: vec![
                ("src/main.lua".to_owned(), "local v1 = require(\"./a\")\nlocal v2 = require(\"./b\")\nlocal v3 = require(\"./c\")\nm4(v1,\n  v2,\n  g5, v3\n)\nm6 's7'\nm8 { g9 }\n".to_owned()),
                ("src/a.lua".to_owned(), "local v10 = g11\n\nreturn {\n  v10, g12,\n}\n".to_owned()),
                ("src/b.lua".to_owned(), format!("local v20 = g21\nreturn v20 .. g22{}", b_ending)),
                // calls without parentheses: their string / table argument is shifted like the rest
                ("src/c.lua".to_owned(), "m32 's33'\nm34 { 's35',\n  g36 }\nreturn g31\n".to_owned()),
            ],
            rules,
            mode: ConfigMode::ApiDefault,
        };
        // every way of selecting retain_lines / of providing the configuration
        for mode in ConfigMode::ALL {
            let case = BundleCase { files: case.files.clone(), rules: case.rules.clone(), mode };
            if !check_bundle(&mut acc, &case, &known) {
                acc.notes.push(format!("fixed bundle not processed ({})", mode.name()));
            }
        }
    }
    acc.flush(report);

    let threads = 12usize;
    let bundles_per_thread = if thorough { 1_500 } else { 150 };
    let programs_per_thread = if thorough { 10_000 } else { 1_000 };
    let pipelines_per_program = 3;
    let seeds: Vec<Rng> = (0..threads).map(|_| rng.fork()).collect();
    let handles: Vec<_> = seeds
        .into_iter()
        .map(|mut rng| {
            let defaults = defaults.clone();
            let known = known.clone();
            std::thread::spawn(move || {
                let mut local = Acc::default();
                let mut model = Model::spawn();
                for i in 0..programs_per_thread {
                    if i < bundles_per_thread {
                        let case = gen_bundle(&mut rng);
                        check_bundle(&mut local, &case, &known);
                    }
                    let program = gen_marker_program(&mut rng);
                    let code = program.code;
                    let flags = removal_flags_any(&code);
                    for _ in 0..pipelines_per_program {
                        let p = gen_pipeline(&mut rng, &defaults);
                        if !check_case(&mut local, &mut model, &code, &p, &known, flags) {
                            break;
                        }
                        if local.samples.is_empty() && code.len() < 160 {
                            local.sample(json!({"program": code, "rules": p.rules}));
                        }
                    }
                }
                local
            })
        })
        .collect();
    for h in handles {
        h.join().expect("worker thread panicked").flush(report);
    }
}
