//! Property C04: retain_lines keeps surviving code on its original line.
//!
//! (1) state-machine correspondence on rule-transformed programs: the writer trace of the real
//!     generator after real rule pipelines (tokens without line, symbols, padding, uncomment)
//!     is replayed in the Lean model (`C03.run`): output, line counter, flag and inserted-byte
//!     counters must agree; the number of line-bearing contents that do not start on their
//!     recorded line is computed from the real trace and by the model (`c04.lines`) and must
//!     agree; where the hypothesis `budgetOk` of theorem `budget_lands` holds it must be 0.
//! (2) oracle: programs in scrambled multi-line layouts whose literals / globals / calls are
//!     unique markers, through (a) subsets and orders of the 13 default rules, (b) remove_spaces
//!     followed by line-neutral rules, (c) append_text_comment at the start (known shift):
//!     every marker found in the output text must be on its input line (+ shift).
use super::c03::{
    compare_run, encode_trace, lay_out, model_replay, real_process, Acc, Layout, ProgGen,
};
use crate::model::Model;
use crate::report::{known_findings, Report, Violation};
use crate::rng::Rng;
use darklua_core::verif_hooks::TraceOp;
use serde_json::{json, Value};
use std::collections::BTreeMap;

// ------------------------------------------------------------------------------------------
// markers
// ------------------------------------------------------------------------------------------

fn is_word_byte(b: u8) -> bool {
    b.is_ascii_alphanumeric() || b == b'_'
}

/// All marker occurrences of a text: (marker, 1-based line). Markers: `g<k>` `m<k>` `v<k>`
/// identifiers, `1<6 digits>` numbers, `'s<k>'` / `"s<k>"` strings — whole tokens only.
pub fn find_markers(text: &str) -> Vec<(String, usize)> {
    let b = text.as_bytes();
    let mut out = Vec::new();
    let mut line = 1usize;
    let mut i = 0usize;
    while i < b.len() {
        let c = b[i];
        if c == b'\n' {
            line += 1;
            i += 1;
            continue;
        }
        let boundary_before = i == 0 || !(is_word_byte(b[i - 1]) || b[i - 1] == b'.' && c.is_ascii_digit());
        if (c == b'\'' || c == b'"') && i + 2 < b.len() && b[i + 1] == b's' {
            let mut j = i + 2;
            while j < b.len() && b[j].is_ascii_digit() {
                j += 1;
            }
            if j > i + 2 && j < b.len() && b[j] == c {
                out.push((text[i + 1..j].to_owned(), line));
                i = j + 1;
                continue;
            }
        }
        if boundary_before && is_word_byte(c) {
            let mut j = i;
            while j < b.len() && is_word_byte(b[j]) {
                j += 1;
            }
            let word = &text[i..j];
            let digits = |w: &str| !w.is_empty() && w.bytes().all(|x| x.is_ascii_digit());
            let is_marker = (matches!(c, b'g' | b'm' | b'v') && digits(&word[1..]))
                || (word.len() == 7 && c == b'1' && digits(word) && !(j < b.len() && b[j] == b'.'));
            if is_marker {
                out.push((word.to_owned(), line));
            }
            i = j;
            continue;
        }
        i += 1;
    }
    out
}

// ------------------------------------------------------------------------------------------
// rule pipelines
// ------------------------------------------------------------------------------------------

/// rules the property calls line-neutral (everything but group_local_assignment,
/// convert_require which needs files, and append_text_comment which shifts)
const LINE_NEUTRAL: &[&str] = &[
    // Luau lowering
    "remove_types", "remove_compound_assignment", "remove_continue", "remove_floor_division",
    "remove_if_expression", "remove_interpolated_string", "convert_luau_number", "remove_method_call",
    "remove_attribute",
    // removal / injection
    "remove_assertions", "remove_debug_profiling", "remove_comments", "remove_unused_variable",
    "remove_nil_declaration", "remove_empty_do", "remove_unused_if_branch", "remove_unused_while",
    "filter_after_early_return", "remove_function_call_parens", "remove_method_definition",
    "{rule: 'inject_global_value', identifier: 'g3', value: true}",
    // optional refactorings
    "convert_index_to_field", "convert_local_function_to_assign", "convert_function_to_assignment",
    "convert_square_root_call", "make_assignment_local", "compute_expression", "rename_variables",
];

fn rule_json(r: &str) -> String {
    if r.starts_with('{') { r.to_owned() } else { format!("'{}'", r) }
}

fn config_of(rules: &[String]) -> String {
    format!("{{rules: [{}]}}", rules.iter().map(|r| rule_json(r)).collect::<Vec<_>>().join(", "))
}

pub struct Pipeline {
    pub kind: &'static str,
    pub rules: Vec<String>,
    /// lines every marker moves down by (append_text_comment at start)
    pub shift: usize,
}

fn default_rule_names() -> Vec<String> {
    darklua_core::rules::get_default_rules()
        .iter()
        .map(|r| r.get_name().to_owned())
        .collect()
}

fn gen_pipeline(rng: &mut Rng, defaults: &[String]) -> Pipeline {
    match rng.below(10) {
        0 => Pipeline { kind: "default rules, default order", rules: defaults.to_vec(), shift: 0 },
        1..=4 => {
            // (a) subset in random order
            let mut rules: Vec<String> = defaults.iter().filter(|_| rng.chance(1, 2)).cloned().collect();
            if rules.is_empty() {
                rules.push(defaults[rng.below(defaults.len())].clone());
            }
            rng.shuffle(&mut rules);
            Pipeline { kind: "subset/order of default rules", rules, shift: 0 }
        }
        5..=7 => {
            // (b) remove_spaces then line-neutral rules
            let n = 1 + rng.below(6);
            let mut rules = vec!["remove_spaces".to_owned()];
            for _ in 0..n {
                rules.push((*rng.pick(LINE_NEUTRAL)).to_owned());
            }
            Pipeline { kind: "remove_spaces + line-neutral rules", rules, shift: 0 }
        }
        _ => {
            // (c) append_text_comment at start, alone or around other rules
            let texts: &[(&str, usize)] = &[
                ("hello", 1),
                (" copyright 2026 ", 1),
                ("two\\nlines", 4),
                ("a\\nb\\nc\\n", 6),
                ("with ]] inside\\nand more", 4),
            ];
            let (text, shift) = *rng.pick(texts);
            let append = format!("{{rule: 'append_text_comment', text: '{}'}}", text);
            let mut rules: Vec<String> = match rng.below(3) {
                0 => vec![],
                1 => defaults.to_vec(),
                _ => {
                    let mut r = vec!["remove_spaces".to_owned()];
                    for _ in 0..rng.below(4) {
                        r.push((*rng.pick(LINE_NEUTRAL)).to_owned());
                    }
                    r
                }
            };
            let at = rng.below(rules.len() + 1);
            rules.insert(at, append);
            Pipeline { kind: "append_text_comment at start", rules, shift }
        }
    }
}

pub fn gen_marker_program(rng: &mut Rng) -> String {
    let mut g = ProgGen::new(rng.fork(), 25 + rng.below(90) as i32);
    g.markers = true;
    g.typed = rng.chance(1, 4);
    let depth = 1 + rng.below(3) as u32;
    g.block(depth, false, true);
    let toks = std::mem::take(&mut g.toks);
    let layout = Layout {
        newline: *rng.pick(&["\n", "\n", "\n", "\r\n"]),
        comments: *rng.pick(&[0u32, 80, 200]),
        breaks: *rng.pick(&[300u32, 500, 700]),
        f7: 0,
    };
    lay_out(rng, &toks, &layout)
}

// ------------------------------------------------------------------------------------------
// checks
// ------------------------------------------------------------------------------------------

/// Line-bearing non-empty contents of the real trace that were not written on their recorded
/// line: (checked, displaced), using the real `current_line` at the content's `push_str`.
fn real_displaced(trace: &[TraceOp]) -> (u64, u64) {
    let mut checked = 0;
    let mut displaced = 0;
    let mut pending: Option<i64> = None;
    for t in trace {
        match t.op {
            "token_content" => {
                pending = if t.detail >= 0 && !t.text.is_empty() { Some(t.detail) } else { None };
            }
            "push_str" => {
                if let Some(n) = pending.take() {
                    checked += 1;
                    if t.detail != n {
                        displaced += 1;
                    }
                }
            }
            "token_end" => pending = None,
            _ => {}
        }
    }
    (checked, displaced)
}

struct Lines {
    budget: bool,
    monotone: bool,
    checked: u64,
    displaced: u64,
    first: String,
}

fn model_lines(model: &mut Model, items: &[String]) -> Result<Lines, String> {
    let answer = model.ask(&format!("c04.lines {}", items.join(" ")));
    let p: Vec<&str> = answer.split(' ').collect();
    if p.len() != 6 || p[0] != "ok" {
        return Err(format!("model answered {:?}", answer));
    }
    Ok(Lines {
        budget: p[1] == "1",
        monotone: p[2] == "1",
        checked: p[3].parse().map_err(|_| "bad number")?,
        displaced: p[4].parse().map_err(|_| "bad number")?,
        first: p[5].to_owned(),
    })
}

/// The marker oracle on the real code alone: Some(description) if a marker is off its line.
/// * a marker that occurs several times in the output (a rule cloned the node: the self argument
///   of `remove_method_call`, the read of `remove_compound_assignment`, …) passes if one of the
///   occurrences is on the expected line: the clones are new code;
/// * `literals_recomputed`: the pipeline contains `compute_expression`, whose results are new
///   literal nodes that may spell exactly like an operand (`'s1' or x` → `'s1'`): number and
///   string markers are then not judged, identifier / call markers still are.
fn marker_failure(code: &str, out: &str, shift: usize, literals_recomputed: bool) -> Option<String> {
    marker_failures(code, out, shift, literals_recomputed).into_iter().next().map(|(_, what)| what)
}

fn marker_failures(code: &str, out: &str, shift: usize, literals_recomputed: bool) -> Vec<(String, String)> {
    let mut failures = Vec::new();
    let mut input_lines: BTreeMap<String, Vec<usize>> = BTreeMap::new();
    for (m, l) in find_markers(code) {
        input_lines.entry(m).or_default().push(l);
    }
    let mut output_lines: BTreeMap<String, Vec<usize>> = BTreeMap::new();
    for (m, l) in find_markers(out) {
        output_lines.entry(m).or_default().push(l);
    }
    for (m, ls_out) in &output_lines {
        let literal = m.starts_with('s') || m.starts_with('1');
        if literal && literals_recomputed {
            continue;
        }
        if let Some(ls) = input_lines.get(m) {
            if ls.len() == 1 && !ls_out.contains(&(ls[0] + shift)) {
                failures.push((m.clone(), format!(
                    "marker {} is on line {} of the input but on line(s) {:?} of the output (expected {})",
                    m, ls[0], ls_out, ls[0] + shift
                )));
            }
        }
    }
    failures
}

fn recomputes_literals(rules: &[String]) -> bool {
    rules.iter().any(|r| r.contains("compute_expression"))
}

fn oracle_fails(code: &str, config: &str, shift: usize) -> Option<String> {
    let (out, _) = real_process(code, config).ok()?;
    marker_failure(code, &out, shift, config.contains("compute_expression"))
}

/// `function a.b:c(` somewhere in the text (over-approximation: a `:` between `function` and the
/// next `(`).
fn has_method_definition(code: &str) -> bool {
    let mut rest = code;
    while let Some(i) = rest.find("function") {
        rest = &rest[i + 8..];
        if let Some(j) = rest.find('(') {
            if rest[..j].contains(':') {
                return true;
            }
        }
    }
    false
}

/// a `--[=*[ … ]=*]` comment that spans several lines (over-approximation: also inside strings)
fn has_multiline_block_comment(code: &str) -> bool {
    let mut rest = code;
    while let Some(i) = rest.find("--[") {
        rest = &rest[i + 3..];
        let eq = rest.bytes().take_while(|b| *b == b'=').count();
        if rest.as_bytes().get(eq) == Some(&b'[') {
            let close = format!("]{}]", "=".repeat(eq));
            let body = &rest[eq + 1..];
            let end = body.find(&close).unwrap_or(body.len());
            if body[..end].contains('\n') {
                return true;
            }
        }
    }
    false
}

/// Regions of the recorded known findings (`known_findings.json`, property C04): an entry with
/// `"region": {"rule": r, "code_contains": c, "excuses": "all" | "local_function_names"}`
/// excuses, for pipelines containing rule `r` on programs containing `c`, either every marker or
/// only the names declared by `local function <name>`. Returns (finding id, excused markers;
/// `None` = all).
fn known_region(code: &str, rules: &[String], known: &[Value]) -> Vec<(String, Option<Vec<String>>)> {
    let mut regions = Vec::new();
    for k in known {
        let region = &k["region"];
        let Some(id) = k["id"].as_str() else { continue };
        let region_rules: Vec<&str> = match (region["rule"].as_str(), region["rules"].as_array()) {
            (Some(r), _) => vec![r],
            (None, Some(rs)) => rs.iter().filter_map(|r| r.as_str()).collect(),
            _ => continue,
        };
        if !rules.iter().any(|r| region_rules.iter().any(|x| r.contains(x))) {
            continue;
        }
        if region["when"].as_str() == Some("multiline_block_comment") && !has_multiline_block_comment(code) {
            continue;
        }
        if let Some(needle) = region["code_contains"].as_str() {
            let other = region["or_rule"].as_str().map(|o| rules.iter().any(|r| r.contains(o))).unwrap_or(false);
            if !code.contains(needle) && !other {
                continue;
            }
        }
        if region["when"].as_str() == Some("method_definition") && !has_method_definition(code) {
            continue;
        }
        if region["when"].as_str() == Some("compound_assignment")
            && !["+=", "-=", "*=", "/=", "%=", "^=", "..="].iter().any(|op| code.contains(op))
        {
            continue;
        }
        match region["excuses"].as_str() {
            Some("local_names") => {
                let names = find_markers(code)
                    .into_iter()
                    .filter(|(m, _)| m.starts_with('v'))
                    .map(|(m, _)| m)
                    .collect();
                regions.push((id.to_owned(), Some(names)));
            }
            Some("local_function_names") => {
                let words: Vec<&str> = code
                    .split(|c: char| !(c.is_ascii_alphanumeric() || c == '_'))
                    .filter(|w| !w.is_empty())
                    .collect();
                let names = words
                    .windows(2)
                    .filter(|w| w[0] == "function" && w[1].starts_with('v'))
                    .map(|w| w[1].to_owned())
                    .collect();
                regions.push((id.to_owned(), Some(names)));
            }
            _ => regions.push((id.to_owned(), None)),
        }
    }
    regions
}

pub fn check_case(
    acc: &mut Acc,
    model: &mut Model,
    code: &str,
    pipeline: &Pipeline,
    known: &[Value],
) -> bool {
    let config = config_of(&pipeline.rules);
    let input = json!({"kind": "program", "code": code, "config": config, "shift": pipeline.shift,
        "pipeline": pipeline.kind});
    let (out, trace) = match real_process(code, &config) {
        Ok(x) => x,
        Err(e) => {
            acc.hist("case", if e == "panic" { "panic (C12's business)" } else { "not processed (parse/rule error)" });
            if acc.notes.is_empty() && code.len() < 200 {
                acc.notes.push(format!("not processed: {:?} with {}: {}", code, config, &e[..e.len().min(300)]));
            }
            return false;
        }
    };
    acc.hist("pipeline", pipeline.kind);
    // (1) state machine correspondence on the transformed tree
    let enc = match encode_trace(&trace) {
        Ok(e) => e,
        Err(e) => {
            acc.violation(Violation {
                kind: "correspondence".into(),
                check: "trace-shape".into(),
                what: e,
                input,
                failing_input_found: false,
            });
            return true;
        }
    };
    let regions = known_region(code, &pipeline.rules, known);
    let all_failures = marker_failures(code, &out, pipeline.shift, recomputes_literals(&pipeline.rules));
    let excused = |m: &String| regions.iter().any(|(_, names)| names.as_ref().map(|n| n.contains(m)).unwrap_or(true));
    let failure = all_failures.iter().find(|(m, _)| !excused(m)).map(|(_, what)| what.clone());
    let region: Option<String> = if failure.is_none() && !all_failures.is_empty() {
        regions.first().map(|(id, _)| id.clone())
    } else {
        None
    };
    match model_replay(model, &enc.items) {
        Err(e) => acc.violation(Violation {
            kind: "correspondence".into(),
            check: "model-replay".into(),
            what: e,
            input: input.clone(),
            failing_input_found: false,
        }),
        Ok(m) => {
            if let Some(diff) = compare_run(&out, &enc, &m) {
                let found = failure.is_some();
                acc.violation(Violation {
                    kind: if found { "oracle".into() } else { "correspondence".into() },
                    check: "trace-replay(rules)".into(),
                    what: match &failure {
                        Some(f) if found => format!("{}; and {}", f, diff),
                        _ => diff,
                    },
                    input: input.clone(),
                    failing_input_found: found,
                });
            }
        }
    }
    let (real_checked, real_disp) = real_displaced(&trace);
    match model_lines(model, &enc.items) {
        Err(e) => acc.violation(Violation {
            kind: "correspondence".into(),
            check: "model-lines".into(),
            what: e,
            input: input.clone(),
            failing_input_found: false,
        }),
        Ok(l) => {
            if (l.checked, l.displaced) != (real_checked, real_disp) {
                acc.violation(Violation {
                    kind: "correspondence".into(),
                    check: "displaced-contents".into(),
                    what: format!(
                        "line-bearing contents (checked, displaced): model {:?}, real trace {:?}",
                        (l.checked, l.displaced),
                        (real_checked, real_disp)
                    ),
                    input: input.clone(),
                    failing_input_found: false,
                });
            }
            if l.budget && real_disp > 0 {
                acc.violation(Violation {
                    kind: "correspondence".into(),
                    check: "budget_lands instance".into(),
                    what: format!("budgetOk holds for the trace but {} contents are displaced in the real run", real_disp),
                    input: input.clone(),
                    failing_input_found: false,
                });
            }
            acc.hist("hypothesis", match (l.budget, l.monotone) {
                (true, true) => "budgetOk and monotone",
                (true, false) => "budgetOk only (kept newline trivia)",
                (false, _) => "budget fails (some content cannot be on its line)",
            });
            if !l.budget {
                acc.hist("budget failure", &format!("{} / first {}", pipeline.kind, l.first));
            }
        }
    }
    // (2) oracle
    let markers_in = find_markers(code).len();
    let markers_out = find_markers(&out).len();
    match (&failure, &region) {
        (Some(f), _) => acc.violation(Violation {
            kind: "oracle".into(),
            check: "marker-line".into(),
            what: format!("{}; output {:?}", f, out),
            input,
            failing_input_found: true,
        }),
        (None, Some(id)) => acc.hist("case", &format!("markers displaced inside known finding region {}", id)),
        (None, None) => acc.hist("case", if markers_out == 0 { "no marker survives" } else { "all surviving markers on their line" }),
    }
    let nontrivial = markers_out >= 3 && out.lines().count() >= 3 && enc.tokens > 5;
    acc.case(if nontrivial { Some((code, &config)) } else { None });
    acc.count("markers_in", markers_in as u64);
    acc.count("markers_surviving", markers_out as u64);
    true
}

const FIXED: &[(&str, &[&str], usize)] = &[
    ("local v1 = m2(\n  g3,\n  's4'\n)\nreturn v1", &["remove_spaces"], 0),
    ("m1()\n\n\n-- c\nm2() --[[ x\n y ]] m3()\nm4()", &["remove_spaces"], 0),
    ("m1()\n\n\n-- c\nm2() --[[ x\n y ]] m3()\nm4()", &["remove_spaces", "remove_comments"], 0),
    ("if g1 then\n  m2()\nelse\n  m3()\nend\nm4()", &["remove_spaces", "remove_comments", "compute_expression", "remove_unused_if_branch"], 0),
    ("m1()\nm2()", &["{rule: 'append_text_comment', text: 'hello'}"], 1),
    ("m1()\nm2()", &["{rule: 'append_text_comment', text: 'a\\nb'}"], 4),
    ("g1.v2 += m3(\n 1000004)\nm5()", &["remove_spaces", "remove_compound_assignment"], 0),
    ("local function v1()\n return m2()\nend\nm3(v1)", &["remove_spaces", "convert_local_function_to_assign"], 0),
    ("for v1 = 1000001,\n 1000002 do\n if g3 then\n continue\n end\n m4()\nend", &["remove_spaces", "remove_continue"], 0),
];

pub fn run(report: &mut Report, replay: Option<&str>) {
    let mut model = Model::spawn();
    let known = known_findings("C04");
    report.rule = "marker programs: grammar-generated Lua/Luau programs (all statement kinds, calls, tables, functions, \
        if-expressions, compound assignments, optional type annotations) whose literals/globals/calls are unique markers, laid out \
        with line breaks in 30-70% of the token gaps plus comments, processed by the real darklua_core::process with retain_lines and \
        (a) subsets/orders of the 13 default rules, (b) remove_spaces + 1-6 line-neutral rules, (c) append_text_comment at start \
        (alone, with the default rules, or with line-neutral rules, at a random position). Non-trivial = at least 3 markers survive, \
        the output has at least 3 lines and more than 5 tokens were written."
        .to_owned();

    if let Some(path) = replay {
        let text = std::fs::read_to_string(path).unwrap_or_default();
        let v: Value = serde_json::from_str(&text).unwrap_or(Value::Null);
        let input = &v["input"];
        if let (Some(code), Some(config)) = (input["code"].as_str(), input["config"].as_str()) {
            // the configuration text is replayed as is
            let shift = input["shift"].as_u64().unwrap_or(0) as usize;
            let mut acc = Acc::default();
            match real_process(code, config) {
                Ok((out, _)) => {
                    if let Some(f) = marker_failure(code, &out, shift, config.contains("compute_expression")) {
                        acc.violation(Violation {
                            kind: "oracle".into(),
                            check: "marker-line".into(),
                            what: format!("{}; output {:?}", f, out),
                            input: input.clone(),
                            failing_input_found: true,
                        });
                    }
                }
                Err(e) => acc.notes.push(format!("replay: {}", e)),
            }
            acc.flush(report);
        }
        return;
    }

    // `fork` mixes the state: consecutive seeds must not share thread streams
    let mut rng = Rng::new(report.seed).fork();
    let thorough = report.is_thorough();
    let defaults = default_rule_names();
    report.notes.push(format!("default rules: {}", defaults.join(", ")));

    // known findings first
    for f in &known {
        let id = f["id"].as_str().unwrap_or("?");
        let w = &f["witness"];
        if let (Some(code), Some(config)) = (w["code"].as_str(), w["config"].as_str()) {
            let shift = w["shift"].as_u64().unwrap_or(0) as usize;
            match real_process(code, config) {
                Ok((out, _)) => match marker_failure(code, &out, shift, config.contains("compute_expression")) {
                    Some(what) => {
                        if w["output_now"].as_str().map(|o| o == out).unwrap_or(true) {
                            report.known_finding(id, &what);
                        } else {
                            report.violation(Violation {
                                kind: "finding-changed".into(),
                                check: "known-finding-replay".into(),
                                what: format!("{}: output is now {:?}", id, out),
                                input: json!({"kind": "program", "code": code, "config": config, "shift": shift}),
                                failing_input_found: true,
                            });
                        }
                    }
                    None => {}
                },
                Err(e) => report.notes.push(format!("known finding {} no longer processes: {}", id, e)),
            }
        }
    }

    let mut acc = Acc::default();
    for (code, rules, shift) in FIXED {
        let p = Pipeline { kind: "fixed", rules: rules.iter().map(|r| (*r).to_owned()).collect(), shift: *shift };
        if !check_case(&mut acc, &mut model, code, &p, &known) {
            acc.notes.push(format!("fixed program not processed: {:?}", code));
        }
    }
    // corpus: `corpus/C04/*.json` = {"code", "rules": [...], "shift"}
    let corpus_dir = concat!(env!("CARGO_MANIFEST_DIR"), "/../corpus/C04");
    if let Ok(entries) = std::fs::read_dir(corpus_dir) {
        let mut paths: Vec<_> = entries.flatten().map(|e| e.path()).collect();
        paths.sort();
        for p in paths {
            if let Ok(text) = std::fs::read_to_string(&p) {
                if let Ok(v) = serde_json::from_str::<Value>(&text) {
                    if let (Some(code), Some(rules)) = (v["code"].as_str(), v["rules"].as_array()) {
                        let p = Pipeline {
                            kind: "corpus",
                            rules: rules.iter().filter_map(|r| r.as_str().map(|s| s.to_owned())).collect(),
                            shift: v["shift"].as_u64().unwrap_or(0) as usize,
                        };
                        check_case(&mut acc, &mut model, code, &p, &known);
                        acc.count("corpus_cases", 1);
                    }
                }
            }
        }
    }
    acc.flush(report);

    let threads = 12usize;
    let programs_per_thread = if thorough { 10_000 } else { 1_000 };
    let pipelines_per_program = 3;
    let seeds: Vec<Rng> = (0..threads).map(|_| rng.fork()).collect();
    let handles: Vec<_> = seeds
        .into_iter()
        .map(|mut rng| {
            let defaults = defaults.clone();
            let known = known.clone();
            std::thread::spawn(move || {
                let mut local = Acc::default();
                let mut model = Model::spawn();
                for _ in 0..programs_per_thread {
                    let code = gen_marker_program(&mut rng);
                    for _ in 0..pipelines_per_program {
                        let p = gen_pipeline(&mut rng, &defaults);
                        if !check_case(&mut local, &mut model, &code, &p, &known) {
                            break;
                        }
                        if local.samples.is_empty() && code.len() < 160 {
                            local.sample(json!({"program": code, "rules": p.rules}));
                        }
                    }
                }
                local
            })
        })
        .collect();
    for h in handles {
        h.join().expect("worker thread panicked").flush(report);
    }
}
