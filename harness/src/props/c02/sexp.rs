//! S-expression exchange format for trees (the Lean parser prints it; replays store it).
use super::tree::*;
use super::types::*;
use crate::model::{hex, unhex};

#[derive(Clone, Debug, PartialEq)]
pub enum Sx {
    A(String),
    L(Vec<Sx>),
}

pub fn parse(text: &str) -> Option<Sx> {
    let mut stack: Vec<Vec<Sx>> = vec![Vec::new()];
    let bytes = text.as_bytes();
    let mut i = 0;
    while i < bytes.len() {
        match bytes[i] {
            b'(' => {
                stack.push(Vec::new());
                i += 1;
            }
            b')' => {
                let done = stack.pop()?;
                stack.last_mut()?.push(Sx::L(done));
                i += 1;
            }
            b' ' | b'\n' | b'\t' | b'\r' => i += 1,
            _ => {
                let start = i;
                while i < bytes.len() && !matches!(bytes[i], b'(' | b')' | b' ' | b'\n' | b'\t' | b'\r') {
                    i += 1;
                }
                stack.last_mut()?.push(Sx::A(text[start..i].to_owned()));
            }
        }
    }
    if stack.len() != 1 || stack[0].len() != 1 {
        return None;
    }
    stack.pop()?.pop()
}

fn atom(s: &Sx) -> Option<&str> {
    match s {
        Sx::A(a) => Some(a),
        _ => None,
    }
}
fn list(s: &Sx) -> Option<&[Sx]> {
    match s {
        Sx::L(l) => Some(l),
        _ => None,
    }
}
fn head<'a>(s: &'a Sx) -> Option<(&'a str, &'a [Sx])> {
    let l = list(s)?;
    Some((atom(l.first()?)?, &l[1..]))
}
fn index_of(table: &[&str], name: &str) -> Option<usize> {
    table.iter().position(|x| *x == name)
}
fn names(s: &Sx) -> Option<Vec<String>> {
    list(s)?.iter().map(|x| atom(x).map(str::to_owned)).collect()
}
fn exprs(s: &[Sx]) -> Option<Vec<Ex>> {
    s.iter().map(to_ex).collect()
}

fn to_entries(items: &[Sx]) -> Option<Vec<Entry>> {
    items
        .iter()
        .map(|item| {
            let (h, rest) = head(item)?;
            Some(match (h, rest) {
                ("val", [v]) => Entry::Val(to_ex(v)?),
                ("fld", [n, v]) => Entry::Fld(atom(n)?.to_owned(), to_ex(v)?),
                ("idx", [k, v]) => Entry::Idx(to_ex(k)?, to_ex(v)?),
                _ => return None,
            })
        })
        .collect()
}

fn to_args(s: &Sx) -> Option<Args> {
    let (h, rest) = head(s)?;
    Some(match (h, rest) {
        ("tuple", values) => Args::Tuple(exprs(values)?),
        ("sarg", [v]) => Args::Str(unhex(atom(v)?)?),
        ("targ", entries) => Args::Table(to_entries(entries)?),
        _ => return None,
    })
}

fn to_func(s: &Sx) -> Option<Func> {
    let (h, rest) = head(s)?;
    match (h, rest) {
        ("func", [params, variadic, body]) => Some(Func {
            params: names(params)?,
            variadic: match atom(variadic)? {
                "v" => true,
                "n" => false,
                _ => return None,
            },
            body: to_blk(body)?,
            sig: None,
        }),
        // (attrs (name...) FUNC)
        ("attrs", [names_list, f]) => {
            let mut f = to_func(f)?;
            let mut sig = f.sig.take().map(|b| *b).unwrap_or_default();
            sig.attrs = names(names_list)?;
            f.sig = if sig.is_empty() { None } else { Some(Box::new(sig)) };
            Some(f)
        }
        // (funct (generics) ((name type|-)...) variadic(n | v | <tvar>) ret(- | ...) body)
        ("funct", [generics, params, variadic, ret, body]) => {
            let mut sig = Sig { generics: to_generics(generics)?, ..Default::default() };
            let mut plain = Vec::new();
            for p in list(params)? {
                match list(p)? {
                    [name, t] => {
                        plain.push(atom(name)?.to_owned());
                        sig.param_types.push(if atom(t) == Some("-") { None } else { Some(to_ty(t)?) });
                    }
                    _ => return None,
                }
            }
            let is_variadic = match atom(variadic) {
                Some("n") => false,
                Some("v") => true,
                _ => {
                    sig.variadic_type = Some(to_var(variadic)?);
                    true
                }
            };
            if atom(ret) != Some("-") {
                sig.ret = Some(to_ret(ret)?);
            }
            Some(Func {
                params: plain,
                variadic: is_variadic,
                body: to_blk(body)?,
                sig: if sig.is_empty() { None } else { Some(Box::new(sig)) },
            })
        }
        _ => None,
    }
}

pub fn to_ex(s: &Sx) -> Option<Ex> {
    if let Some(a) = atom(s) {
        return Some(match a {
            "nil" => Ex::Nil,
            "true" => Ex::True,
            "false" => Ex::False,
            "varargs" => Ex::Varargs,
            _ => return None,
        });
    }
    let (h, rest) = head(s)?;
    Some(match (h, rest) {
        ("numf", [bits, _m, _e]) => Ex::Num(Num::Other(atom(bits)?.parse().ok()?)),
        ("num", [m, e]) => Ex::Num(Num::Exact(atom(m)?.parse().ok()?, atom(e)?.parse().ok()?).exact_abs()),
        ("dec", [w]) => Ex::Num(Num::Dec(crate::model::wire_f64(atom(w)?)?)),
        ("decexp", [w, e, up]) => Ex::Num(Num::DecExp(
            crate::model::wire_f64(atom(w)?)?,
            atom(e)?.parse().ok()?,
            atom(up)?.parse().ok()?,
        )),
        ("hex", [v, up]) => Ex::Num(Num::Hex(atom(v)?.parse().ok()?, atom(up)?.parse().ok()?)),
        ("binary", [v, up]) => Ex::Num(Num::Bin(atom(v)?.parse().ok()?, atom(up)?.parse().ok()?)),
        ("numother", [b]) => Ex::Num(Num::Other(atom(b)?.parse().ok()?)),
        ("str", [v]) => Ex::Str(unhex(atom(v)?)?),
        ("id", [n]) => Ex::Id(atom(n)?.to_owned()),
        ("paren", [x]) => Ex::Paren(Box::new(to_ex(x)?)),
        ("un", [op, x]) => Ex::Un(index_of(&UNOPS, atom(op)?)?, Box::new(to_ex(x)?)),
        ("bin", [op, l, r]) => {
            Ex::Bin(index_of(&BINOPS, atom(op)?)?, Box::new(to_ex(l)?), Box::new(to_ex(r)?))
        }
        ("field", [p, n]) => Ex::Field(Box::new(to_ex(p)?), atom(n)?.to_owned()),
        ("index", [p, k]) => Ex::Index(Box::new(to_ex(p)?), Box::new(to_ex(k)?)),
        ("call", [p, a]) => Ex::Call(Box::new(to_ex(p)?), None, to_args(a)?),
        ("mcall", [p, m, a]) => Ex::Call(Box::new(to_ex(p)?), Some(atom(m)?.to_owned()), to_args(a)?),
        ("func", _) | ("funct", _) | ("attrs", _) => Ex::Func(Box::new(to_func(s)?)),
        ("table", entries) => Ex::Table(to_entries(entries)?),
        ("ifexp", [c, r, e, branches @ ..]) => Ex::IfExp(
            Box::new(to_ex(c)?),
            Box::new(to_ex(r)?),
            branches
                .iter()
                .map(|b| match head(b)? {
                    ("elif", [bc, br]) => Some((to_ex(bc)?, to_ex(br)?)),
                    _ => None,
                })
                .collect::<Option<Vec<_>>>()?,
            Box::new(to_ex(e)?),
        ),
        ("cast", [x, t]) => Ex::Cast(Box::new(to_ex(x)?), to_ty(t)?),
        ("inst", [p, types @ ..]) => Ex::Inst(Box::new(to_ex(p)?), types.iter().map(to_ty).collect::<Option<_>>()?),
        ("mcallinst", [p, m, types, a]) => Ex::MethodInst(
            Box::new(to_ex(p)?),
            atom(m)?.to_owned(),
            list(types)?.iter().map(to_ty).collect::<Option<_>>()?,
            to_args(a)?,
        ),
        ("interp", segments) => Ex::Interp(
            segments
                .iter()
                .map(|seg| match head(seg)? {
                    ("seg", [v]) => Some(Seg::Str(unhex(atom(v)?)?)),
                    ("val", [v]) => Some(Seg::Val(to_ex(v)?)),
                    _ => None,
                })
                .collect::<Option<_>>()?,
        ),
        _ => return None,
    })
}

fn to_st(s: &Sx) -> Option<St> {
    let (h, rest) = head(s)?;
    Some(match (h, rest) {
        ("assign", [vars, vals]) => St::Assign(exprs(list(vars)?)?, exprs(list(vals)?)?),
        ("local", [ns, vals]) => St::Local(names(ns)?, exprs(list(vals)?)?),
        ("const", [ns, vals]) => St::Const(
            list(ns)?
                .iter()
                .map(|p| match list(p)? {
                    [name, t] => Some((atom(name)?.to_owned(), if atom(t) == Some("-") { None } else { Some(to_ty(t)?) })),
                    _ => None,
                })
                .collect::<Option<_>>()?,
            exprs(list(vals)?)?,
        ),
        ("localt", [ns, vals]) => St::LocalT(
            list(ns)?
                .iter()
                .map(|p| match list(p)? {
                    [name, t] => Some((atom(name)?.to_owned(), if atom(t) == Some("-") { None } else { Some(to_ty(t)?) })),
                    _ => None,
                })
                .collect::<Option<_>>()?,
            exprs(list(vals)?)?,
        ),
        ("typedecl", [exp, name, generics, t]) => St::TypeDecl(
            atom(exp)? == "exp",
            atom(name)?.to_owned(),
            to_generics(generics)?,
            to_ty(t)?,
        ),
        ("typefunction", [exp, name, f]) => St::TypeFunction(atom(exp)? == "exp", atom(name)?.to_owned(), to_func(f)?),
        ("gfort", [ns, es, b]) => St::GForT(
            list(ns)?
                .iter()
                .map(|p| match list(p)? {
                    [name, t] => Some((atom(name)?.to_owned(), if atom(t) == Some("-") { None } else { Some(to_ty(t)?) })),
                    _ => None,
                })
                .collect::<Option<_>>()?,
            exprs(list(es)?)?,
            to_blk(b)?,
        ),
        ("nfort", [n, t, a, b, step, body]) => St::NForT(
            atom(n)?.to_owned(),
            to_ty(t)?,
            to_ex(a)?,
            to_ex(b)?,
            if atom(step) == Some("-") { None } else { Some(to_ex(step)?) },
            to_blk(body)?,
        ),
        ("do", [b]) => St::Do(to_blk(b)?),
        ("callst", [c]) => St::CallSt(to_ex(c)?),
        ("compound", [op, var, val]) => St::Compound(index_of(&COMPOUND, atom(op)?)?, to_ex(var)?, to_ex(val)?),
        ("function", [ns, m, f]) => St::Function(
            names(ns)?,
            match atom(m)? {
                "-" => None,
                name => Some(name.to_owned()),
            },
            to_func(f)?,
        ),
        ("gfor", [ns, es, b]) => St::GFor(names(ns)?, exprs(list(es)?)?, to_blk(b)?),
        ("nfor", [n, a, b, step, body]) => St::NFor(
            atom(n)?.to_owned(),
            to_ex(a)?,
            to_ex(b)?,
            if atom(step) == Some("-") { None } else { Some(to_ex(step)?) },
            to_blk(body)?,
        ),
        ("if", [branches, else_block]) => St::If(
            list(branches)?
                .iter()
                .map(|b| match list(b)? {
                    [c, blk] => Some((to_ex(c)?, to_blk(blk)?)),
                    _ => None,
                })
                .collect::<Option<Vec<_>>>()?,
            if atom(else_block) == Some("-") { None } else { Some(to_blk(else_block)?) },
        ),
        ("localfn", [n, f]) => St::LocalFn(atom(n)?.to_owned(), to_func(f)?),
        ("repeat", [b, c]) => St::Repeat(to_blk(b)?, to_ex(c)?),
        ("while", [c, b]) => St::While(to_ex(c)?, to_blk(b)?),
        _ => return None,
    })
}

pub fn to_blk(s: &Sx) -> Option<Blk> {
    let (h, items) = head(s)?;
    if h != "block" {
        return None;
    }
    let mut blk = Blk::default();
    for (i, item) in items.iter().enumerate() {
        let last = i + 1 == items.len();
        if last {
            if let Some(a) = atom(item) {
                blk.last = Some(match a {
                    "break" => Last::Break,
                    "continue" => Last::Continue,
                    _ => return None,
                });
                continue;
            }
            if let Some(("return", values)) = head(item) {
                blk.last = Some(Last::Return(exprs(values)?));
                continue;
            }
        }
        blk.stmts.push(to_st(item)?);
    }
    Some(blk)
}

// ---------------------------------------------------------------- printing (replays, messages)

fn join(items: impl Iterator<Item = String>) -> String {
    items.collect::<Vec<_>>().join(" ")
}
fn entries_str(entries: &[Entry]) -> String {
    join(entries.iter().map(|e| match e {
        Entry::Val(v) => format!("(val {})", ex_str(v)),
        Entry::Fld(n, v) => format!("(fld {} {})", n, ex_str(v)),
        Entry::Idx(k, v) => format!("(idx {} {})", ex_str(k), ex_str(v)),
    }))
}
fn args_str(a: &Args) -> String {
    match a {
        Args::Tuple(v) => format!("(tuple {})", join(v.iter().map(ex_str))),
        Args::Str(s) => format!("(sarg {})", hex(s)),
        Args::Table(t) => format!("(targ {})", entries_str(t)),
    }
}
fn func_str(f: &Func) -> String {
    if let Some(sig) = &f.sig {
        if !sig.attrs.is_empty() {
            let mut inner = f.clone();
            let mut s2 = (**sig).clone();
            s2.attrs.clear();
            inner.sig = if s2.is_empty() { None } else { Some(Box::new(s2)) };
            return format!("(attrs ({}) {})", sig.attrs.join(" "), func_str(&inner));
        }
    }
    match &f.sig {
        None => format!("(func ({}) {} {})", f.params.join(" "), if f.variadic { "v" } else { "n" }, blk_str(&f.body)),
        Some(sig) => format!(
            "(funct {} ({}) {} {} {})",
            generics_str(&sig.generics),
            f.params
                .iter()
                .enumerate()
                .map(|(i, p)| format!("({} {})", p, sig.param_types.get(i).and_then(|t| t.as_ref()).map_or("-".to_owned(), ty_str)))
                .collect::<Vec<_>>()
                .join(" "),
            match (&sig.variadic_type, f.variadic) {
                (Some(TyVar::Variadic(t)), _) => format!("(tvariadic {})", ty_str(t)),
                (Some(TyVar::Generic(n)), _) => format!("(tgeneric {})", n),
                (None, true) => "v".to_owned(),
                (None, false) => "n".to_owned(),
            },
            sig.ret.as_ref().map_or("-".to_owned(), ret_str),
            blk_str(&f.body)
        ),
    }
}
pub fn ex_str(e: &Ex) -> String {
    match e {
        Ex::Nil => "nil".into(),
        Ex::True => "true".into(),
        Ex::False => "false".into(),
        Ex::Varargs => "varargs".into(),
        Ex::Num(Num::Exact(m, e)) => format!("(num {} {})", m, e),
        Ex::Num(Num::Other(b)) => format!("(numother {})", b),
        Ex::Num(Num::Dec(v)) => format!("(dec {})", crate::model::f64_wire(*v)),
        Ex::Num(Num::DecExp(v, e, up)) => format!("(decexp {} {} {})", crate::model::f64_wire(*v), e, up),
        Ex::Num(Num::Hex(v, up)) => format!("(hex {} {})", v, up),
        Ex::Num(Num::Bin(v, up)) => format!("(binary {} {})", v, up),
        Ex::Str(s) => format!("(str {})", hex(s)),
        Ex::Id(n) => format!("(id {})", n),
        Ex::Paren(x) => format!("(paren {})", ex_str(x)),
        Ex::Un(op, x) => format!("(un {} {})", UNOPS[*op], ex_str(x)),
        Ex::Bin(op, l, r) => format!("(bin {} {} {})", BINOPS[*op], ex_str(l), ex_str(r)),
        Ex::Field(p, n) => format!("(field {} {})", ex_str(p), n),
        Ex::Index(p, k) => format!("(index {} {})", ex_str(p), ex_str(k)),
        Ex::Call(p, None, a) => format!("(call {} {})", ex_str(p), args_str(a)),
        Ex::Call(p, Some(m), a) => format!("(mcall {} {} {})", ex_str(p), m, args_str(a)),
        Ex::Func(f) => func_str(f),
        Ex::Table(t) => format!("(table {})", entries_str(t)),
        Ex::IfExp(c, r, br, e) => format!(
            "(ifexp {} {} {} {})",
            ex_str(c),
            ex_str(r),
            ex_str(e),
            join(br.iter().map(|(a, b)| format!("(elif {} {})", ex_str(a), ex_str(b))))
        ),
        Ex::Cast(x, t) => format!("(cast {} {})", ex_str(x), ty_str(t)),
        Ex::Inst(p, types) => format!("(inst {} {})", ex_str(p), join(types.iter().map(ty_str))),
        Ex::MethodInst(p, m, types, a) => {
            format!("(mcallinst {} {} ({}) {})", ex_str(p), m, join(types.iter().map(ty_str)), args_str(a))
        }
        Ex::Interp(segments) => format!(
            "(interp {})",
            join(segments.iter().map(|s| match s {
                Seg::Str(v) => format!("(seg {})", hex(v)),
                Seg::Val(v) => format!("(val {})", ex_str(v)),
            }))
        ),
    }
}
fn st_str(s: &St) -> String {
    let list = |v: &Vec<Ex>| format!("({})", join(v.iter().map(ex_str)));
    match s {
        St::Assign(a, v) => format!("(assign {} {})", list(a), list(v)),
        St::Local(n, v) => format!("(local ({}) {})", n.join(" "), list(v)),
        St::Const(n, v) => format!(
            "(const ({}) {})",
            n.iter().map(|(name, t)| format!("({} {})", name, t.as_ref().map_or("-".to_owned(), ty_str))).collect::<Vec<_>>().join(" "),
            list(v)
        ),
        St::LocalT(n, v) => format!(
            "(localt ({}) {})",
            n.iter().map(|(name, t)| format!("({} {})", name, t.as_ref().map_or("-".to_owned(), ty_str))).collect::<Vec<_>>().join(" "),
            list(v)
        ),
        St::TypeDecl(e, name, g, t) => {
            format!("(typedecl {} {} {} {})", if *e { "exp" } else { "loc" }, name, generics_str(g), ty_str(t))
        }
        St::TypeFunction(e, name, f) => format!("(typefunction {} {} {})", if *e { "exp" } else { "loc" }, name, func_str(f)),
        St::GForT(n, e, b) => format!(
            "(gfort ({}) {} {})",
            n.iter().map(|(name, t)| format!("({} {})", name, t.as_ref().map_or("-".to_owned(), ty_str))).collect::<Vec<_>>().join(" "),
            list(e),
            blk_str(b)
        ),
        St::NForT(n, t, a, b, s, body) => format!(
            "(nfort {} {} {} {} {} {})",
            n,
            ty_str(t),
            ex_str(a),
            ex_str(b),
            s.as_ref().map_or("-".to_owned(), ex_str),
            blk_str(body)
        ),
        St::Do(b) => format!("(do {})", blk_str(b)),
        St::CallSt(c) => format!("(callst {})", ex_str(c)),
        St::Compound(op, a, b) => format!("(compound {} {} {})", COMPOUND[*op], ex_str(a), ex_str(b)),
        St::Function(n, m, f) => {
            format!("(function ({}) {} {})", n.join(" "), m.as_deref().unwrap_or("-"), func_str(f))
        }
        St::GFor(n, e, b) => format!("(gfor ({}) {} {})", n.join(" "), list(e), blk_str(b)),
        St::NFor(n, a, b, s, body) => format!(
            "(nfor {} {} {} {} {})",
            n,
            ex_str(a),
            ex_str(b),
            s.as_ref().map_or("-".to_owned(), ex_str),
            blk_str(body)
        ),
        St::If(br, e) => format!(
            "(if ({}) {})",
            join(br.iter().map(|(c, b)| format!("({} {})", ex_str(c), blk_str(b)))),
            e.as_ref().map_or("-".to_owned(), blk_str)
        ),
        St::LocalFn(n, f) => format!("(localfn {} {})", n, func_str(f)),
        St::Repeat(b, c) => format!("(repeat {} {})", blk_str(b), ex_str(c)),
        St::While(c, b) => format!("(while {} {})", ex_str(c), blk_str(b)),
    }
}
pub fn blk_str(b: &Blk) -> String {
    let mut items: Vec<String> = b.stmts.iter().map(st_str).collect();
    match &b.last {
        Some(Last::Return(v)) => items.push(format!("(return {})", join(v.iter().map(ex_str)))),
        Some(Last::Break) => items.push("break".into()),
        Some(Last::Continue) => items.push("continue".into()),
        None => {}
    }
    format!("(block {})", items.join(" "))
}
