//! Tree generators: enumerated families first, then random trees over every node kind.
use super::tree::*;
use super::types::*;
use crate::rng::Rng;

pub fn id(s: &str) -> Ex {
    Ex::Id(s.to_owned())
}
pub fn num(v: f64) -> Ex {
    Ex::Num(Num::Dec(v))
}
pub fn bx(e: Ex) -> Box<Ex> {
    Box::new(e)
}
pub fn bin(op: usize, l: Ex, r: Ex) -> Ex {
    Ex::Bin(op, bx(l), bx(r))
}
pub fn un(op: usize, x: Ex) -> Ex {
    Ex::Un(op, bx(x))
}
pub fn paren(x: Ex) -> Ex {
    Ex::Paren(bx(x))
}
pub fn call(p: Ex, args: Vec<Ex>) -> Ex {
    Ex::Call(bx(p), None, Args::Tuple(args))
}
pub fn ret(values: Vec<Ex>) -> Blk {
    Blk { stmts: vec![], last: Some(Last::Return(values)) }
}
pub fn stmts(s: Vec<St>) -> Blk {
    Blk { stmts: s, last: None }
}

pub const POW: usize = 14;
pub const CONCAT: usize = 15;

const NAMES: [&str; 12] = ["a", "b", "x1", "_", "_G", "foo", "e", "E1", "e5", "self", "p0", "xe"];
const FIELD_NAMES: [&str; 6] = ["a", "x", "n1", "_f", "e2", "Field"];

pub fn long_text(n: usize) -> Vec<u8> {
    (0..n).map(|i| b"abcdefghij klmnopqrstuvwxyz"[i % 27]).collect()
}

/// `long_text(n)` with the given byte sequences written at the given offsets
fn long_with(n: usize, marks: &[(usize, &[u8])]) -> Vec<u8> {
    let mut v = long_text(n);
    for (at, bytes) in marks {
        v[*at..*at + bytes.len()].copy_from_slice(bytes);
    }
    v
}

/// Long-bracket eligible values whose bracket LEVEL matters: a closing sequence of a higher
/// level before the first one of a lower level, several levels in both orders, a leading
/// newline, a trailing `]`, the six-newlines form. (Values ending in `]=`.. are finding F14 of
/// C13 and stay out.)
pub fn level_sensitive_strings() -> Vec<Vec<u8>> {
    let mut trailing = long_with(70, &[(8, b"]=]"), (30, b"]]")]);
    trailing.push(b']');
    let mut leading_newline = long_with(70, &[(12, b"]=]"), (40, b"]]")]);
    leading_newline[0] = b'\n';
    vec![
        long_with(70, &[(10, b"]=]"), (40, b"]]")]),
        long_with(80, &[(5, b"]==]"), (20, b"]=]"), (40, b"]]")]),
        long_with(80, &[(5, b"]]"), (20, b"]=]"), (40, b"]==]")]),
        long_with(80, &[(5, b"]==]"), (40, b"]]")]),
        long_with(90, &[(3, b"]===]"), (20, b"]=]"), (30, b"]==]"), (60, b"]]")]),
        trailing,
        leading_newline,
        b"]=]\n]]\nc\nd\ne\nf\ng h i j k l m".to_vec(),
        b"x]==]\n]=]\n]]\nd\ne\nf\ng h i j k".to_vec(),
        b"local banner = [=[ generated ]=] local first = rows[index[1]] return banner, first".to_vec(),
        // long-bracket eligible by length / line count, but with bytes a long bracket cannot
        // carry faithfully (a reader turns CRLF, LFCR and CR inside `[[..]]` into LF): must be
        // written quoted. `\t` and `\x0C` companions pin the quoted form for them too.
        long_with(64, &[(10, b"\r\n")]),
        long_with(64, &[(20, b"\r")]),
        long_with(64, &[(0, b"\r\n")]),
        long_with(64, &[(63, b"\r")]),
        long_with(70, &[(5, b"\n\r"), (30, b"]]"), (40, b"\r\n")]),
        long_with(64, &[(12, b"\t")]),
        long_with(64, &[(12, b"\x0c")]),
        b"line 0 ok\r\nline 1 ok\r\nline 2 ok\r\nline 3 ok\r\nline 4 ok\r\nline 5 ok\r\nline 6".to_vec(),
        b"l0\rl1\nl2\nl3\nl4\nl5\nl6 tail of the text".to_vec(),
        b"t0\tx\nl1\nl2\nl3\nl4\nl5\nl6 tail of the text".to_vec(),
    ]
}

pub fn string_pool() -> Vec<Vec<u8>> {
    let mut long_with_closer = long_text(70);
    long_with_closer[30] = b']';
    long_with_closer[31] = b']';
    let mut long_newline = long_text(64);
    long_newline[0] = b'\n';
    let mut long_end_bracket = long_text(61);
    long_end_bracket.push(b']');
    vec![
        b"".to_vec(),
        b"a".to_vec(),
        b"'".to_vec(),
        b"\"".to_vec(),
        b"it's \"q\"".to_vec(),
        b"\n".to_vec(),
        b"\\".to_vec(),
        b"]]".to_vec(),
        b"a\tb\r\n\0c".to_vec(),
        b"\x012".to_vec(),
        vec![0xff, 0xfe, b'a'],
        "é".as_bytes().to_vec(),
        b"hello world".to_vec(),
        long_text(60),
        long_text(90),
        long_with_closer,
        long_newline,
        long_end_bracket,
        b"l1\nl2\nl3\nl4\nl5\nl6\nl7 long enough".to_vec(),
    ]
    .into_iter()
    .chain(level_sensitive_strings())
    .collect()
}

pub fn number_pool() -> Vec<Num> {
    vec![
        Num::Dec(0.0),
        Num::Dec(1.0),
        Num::Dec(2.0),
        Num::Dec(10.0),
        Num::Dec(255.0),
        Num::Dec(0.5),
        Num::Dec(1.5),
        Num::Dec(0.25),
        Num::Dec(123456789.0),
        Num::Dec(1e10),
        Num::Dec(9007199254740992.0),
        Num::DecExp(1e10, 10, true),
        Num::DecExp(1500.0, 2, false),
        Num::Hex(255, false),
        Num::Hex(0xABC, true),
        Num::Hex(0xe, false),
        Num::Bin(5, false),
        Num::Bin(2, true),
        // non-dyadic values and exponent notations whose mantissa division is inexact
        Num::Dec(0.1),
        Num::Dec(0.3),
        Num::Dec(0.07),
        Num::Dec(1e-7),
        Num::Dec(123.456),
        Num::Dec(1e300),
        Num::Dec(6.02214076e23),
        Num::DecExp(0.3, -1, false),
        Num::DecExp(0.7, -1, false),
        Num::DecExp(0.11, -1, false),
        Num::DecExp(7e-9, -9, false),
        Num::DecExp(7e-10, -10, true),
        Num::DecExp(2.5e-11, -11, false),
        Num::DecExp(3e-15, -15, false),
        Num::DecExp(1.1e-17, -17, true),
        Num::DecExp(3e-22, -22, false),
        Num::DecExp(0.5, -1, false),
        Num::DecExp(1e-7, -7, false),
        Num::DecExp(1.5e10, 10, true),
        Num::DecExp(6.02e23, 23, false),
        Num::DecExp(1e25, 25, false),
        Num::DecExp(0.3, -3, false),
    ]
}

/// Decimal literals in exponent notation over a grid of scales: `k * 10^e` (correctly rounded)
/// for small `k` and `e` in -30..=30, written with that exponent or a neighbouring one, in
/// both letter cases; then random doubles with random exponents.
pub fn exponent_literals(rng: &mut Rng, random: usize) -> Vec<Num> {
    let mut out = Vec::new();
    for k in [1u32, 3, 5, 7, 11, 15, 25, 99, 123] {
        for e in -30i64..=30 {
            let v: f64 = format!("{}e{}", k, e).parse().unwrap();
            out.push(Num::DecExp(v, e, (k as i64 + e) % 2 == 0));
            if e % 5 == 0 {
                out.push(Num::DecExp(v, e + 1, false));
                out.push(Num::DecExp(v, e - 2, true));
                out.push(Num::Dec(v));
            }
        }
    }
    for _ in 0..random {
        out.push(random_exponent_literal(rng));
    }
    out
}

pub fn random_exponent_literal(rng: &mut Rng) -> Num {
    if rng.chance(1, 2) {
        // a short decimal `k * 10^e`
        let k = 1 + rng.below(999);
        let e = rng.range(-30, 30);
        let v: f64 = format!("{}e{}", k, e).parse().unwrap();
        let shown = e + rng.range(-3, 3);
        return Num::DecExp(v, shown, rng.chance(1, 2));
    }
    let mantissa = rng.next_u64() & ((1u64 << 52) - 1);
    let exponent = 1023 - 90 + rng.below(180) as u64;
    let v = f64::from_bits((exponent << 52) | if rng.chance(1, 3) { mantissa & 0x000F_FFF0_0000_0000 } else { mantissa });
    let e = rng.range(-30, 30);
    if rng.chance(1, 4) { Num::Dec(v) } else { Num::DecExp(v, e, rng.chance(1, 2)) }
}

pub fn negative_pool() -> Vec<Num> {
    vec![Num::Dec(-1.0), Num::Dec(-2.5), Num::Dec(-0.0), Num::Dec(-10.0)]
}

/// every binary tree shape with three operators over leaves a,b,c,d
fn triple_shapes(o1: usize, o2: usize, o3: usize) -> Vec<Ex> {
    let (a, b, c, d) = (id("a"), id("b"), id("c"), id("d"));
    vec![
        bin(o1, bin(o2, bin(o3, a.clone(), b.clone()), c.clone()), d.clone()),
        bin(o1, bin(o2, a.clone(), bin(o3, b.clone(), c.clone())), d.clone()),
        bin(o1, bin(o2, a.clone(), b.clone()), bin(o3, c.clone(), d.clone())),
        bin(o1, a.clone(), bin(o2, bin(o3, b.clone(), c.clone()), d.clone())),
        bin(o1, a, bin(o2, b, bin(o3, c, d))),
    ]
}

fn wrap_contexts(e: Ex) -> Vec<Blk> {
    vec![
        ret(vec![e.clone()]),
        stmts(vec![St::Local(vec!["v".into()], vec![e.clone()])]),
        stmts(vec![St::CallSt(call(id("f"), vec![e.clone(), e]))]),
    ]
}

/// `const` declarations (Luau): 1–3 names x 0–3 values x every kind of last value, inside a
/// variadic function. The generators pad them (see `St::Const`); the comparison is against the
/// padded declaration, so a missing or superfluous `nil` / throwaway name is a failing input.
pub fn const_family() -> Vec<(&'static str, Blk)> {
    let mut out = Vec::new();
    let f = || call(id("f"), vec![]);
    let lasts: Vec<Ex> = vec![
        Ex::Nil,
        num(1.0),
        f(),
        Ex::Varargs,
        paren(f()),
        paren(Ex::Varargs),
        Ex::Call(bx(id("o")), Some("m".into()), Args::Tuple(vec![])),
        Ex::MethodInst(bx(id("o")), "m".into(), vec![tname("T")], Args::Tuple(vec![])),
        Ex::Call(bx(id("f")), None, Args::Str(b"s".to_vec())),
        bin(8, f(), num(1.0)),
        un(1, f()),
        Ex::Cast(bx(f()), tname("T")),
        Ex::Inst(bx(id("f")), vec![tname("T")]),
        Ex::IfExp(bx(id("a")), bx(f()), vec![], bx(Ex::Varargs)),
        Ex::Table(vec![Entry::Val(Ex::Varargs)]),
    ];
    let names_pool = ["first", "second", "third"];
    for n in 1..=3usize {
        for v in 0..=3usize {
            let lasts_here: Vec<Option<&Ex>> = if v == 0 { vec![None] } else { lasts.iter().map(Some).collect() };
            for last in lasts_here {
                let mut values: Vec<Ex> = (0..v.saturating_sub(1)).map(|i| num(i as f64 + 2.0)).collect();
                if let Some(l) = last {
                    values.push(l.clone());
                }
                for typed in [false, true] {
                    let names: Vec<(String, Option<Ty>)> = (0..n)
                        .map(|i| (names_pool[i].to_owned(), if typed && i % 2 == 0 { Some(tname("T")) } else { None }))
                        .collect();
                    let body = Blk {
                        stmts: vec![St::Const(names, values.clone()), St::CallSt(call(paren(id("g")), vec![]))],
                        last: Some(Last::Return(vec![id("first")])),
                    };
                    out.push((
                        "const-padding",
                        stmts(vec![St::LocalFn("w".into(), Func { params: vec![], variadic: true, body, sig: None })]),
                    ));
                }
            }
        }
    }
    out
}

/// number literals: every exponent-notation literal alone, next to `..`, a keyword and an
/// identifier (the literal's VALUE is compared as a double by both re-readers)
pub fn number_family(rng: &mut Rng, thorough: bool) -> Vec<(&'static str, Blk)> {
    let mut out = Vec::new();
    let a = id("a");
    for (i, n) in exponent_literals(rng, if thorough { 3000 } else { 400 }).into_iter().enumerate() {
        let e = Ex::Num(n);
        out.push(("number-literal", match i % 4 {
            0 => ret(vec![e]),
            1 => ret(vec![bin(CONCAT, e.clone(), a.clone()), bin(CONCAT, a.clone(), e)]),
            2 => stmts(vec![St::Local(vec!["ratio".into()], vec![e.clone()]), St::If(vec![(bin(4, a.clone(), e), Blk::default())], None)]),
            _ => ret(vec![bin(10, id("ratio"), e.clone()), un(1, e)]),
        }));
    }
    out
}

/// every type node kind, in every position a type can take
pub fn type_family(rng: &mut Rng, thorough: bool) -> Vec<(&'static str, Blk)> {
    let mut out = Vec::new();
    let t = tname("T");
    let u = tname("U");
    let f0 = |ret: TyRet| Ty::Func(vec![], vec![], None, Box::new(ret));
    let kinds: Vec<Ty> = vec![
        t.clone(),
        Ty::Name("Map".into(), vec![TyArg::Ty(t.clone()), TyArg::Ty(u.clone())]),
        Ty::Name("Pack".into(), vec![TyArg::Pack(TyPack { types: vec![], variadic: None }), TyArg::Var(TyVar::Variadic(t.clone())), TyArg::Var(TyVar::Generic("P".into()))]),
        Ty::Name("Nested".into(), vec![TyArg::Ty(Ty::Name("Inner".into(), vec![TyArg::Ty(t.clone())]))]),
        Ty::Field("ns".into(), "T".into(), vec![]),
        Ty::Field("ns".into(), "G".into(), vec![TyArg::Ty(u.clone())]),
        Ty::Nil,
        Ty::True,
        Ty::False,
        Ty::Str(b"s".to_vec()),
        Ty::Str(long_text(64)),
        Ty::Array(Box::new(t.clone())),
        Ty::Table(vec![]),
        Ty::Table(vec![TyEntry::Prop("a".into(), t.clone()), TyEntry::Literal(b"k k".to_vec(), u.clone()), TyEntry::Indexer(tname("string"), Ty::Optional(Box::new(t.clone())))]),
        Ty::Table(vec![TyEntry::Indexer(Ty::Union(vec![t.clone(), u.clone()]), t.clone())]),
        Ty::Table(vec![TyEntry::Literal(long_text(64), t.clone())]),
        Ty::TypeOf(Box::new(Ex::Field(bx(id("a")), "b".into()))),
        Ty::Paren(Box::new(t.clone())),
        f0(TyRet::Pack(TyPack { types: vec![], variadic: None })),
        Ty::Func(vec![Generic::Var("G".into()), Generic::Pack("P".into())], vec![(Some("n".into()), tname("G")), (None, u.clone())], Some(Box::new(TyVar::Generic("P".into()))), Box::new(TyRet::Ty(t.clone()))),
        Ty::Func(vec![], vec![(None, t.clone())], Some(Box::new(TyVar::Variadic(u.clone()))), Box::new(TyRet::Pack(TyPack { types: vec![t.clone(), u.clone()], variadic: Some(TyVar::Variadic(t.clone())) }))),
        f0(TyRet::Var(TyVar::Variadic(t.clone()))),
        f0(TyRet::Var(TyVar::Generic("P".into()))),
        f0(TyRet::Ty(f0(TyRet::Ty(t.clone())))),
        f0(TyRet::Ty(Ty::Union(vec![t.clone(), u.clone()]))),
        Ty::Optional(Box::new(t.clone())),
        Ty::Optional(Box::new(Ty::Optional(Box::new(t.clone())))),
        Ty::Optional(Box::new(Ty::Union(vec![t.clone(), u.clone()]))),
        Ty::Optional(Box::new(f0(TyRet::Ty(t.clone())))),
        Ty::Union(vec![t.clone(), u.clone()]),
        Ty::Union(vec![t.clone(), Ty::Nil, Ty::Str(b"s".to_vec())]),
        Ty::Union(vec![Ty::Inter(vec![t.clone(), u.clone()]), t.clone()]),
        Ty::Union(vec![t.clone(), Ty::Inter(vec![t.clone(), u.clone()])]),
        Ty::Union(vec![f0(TyRet::Ty(t.clone())), u.clone()]),
        Ty::Union(vec![t.clone(), f0(TyRet::Ty(u.clone()))]),
        Ty::Union(vec![Ty::Optional(Box::new(t.clone())), u.clone()]),
        Ty::Union(vec![Ty::Union(vec![t.clone(), u.clone()]), t.clone()]),
        Ty::Inter(vec![t.clone(), u.clone()]),
        Ty::Inter(vec![Ty::Union(vec![t.clone(), u.clone()]), t.clone()]),
        Ty::Inter(vec![t.clone(), Ty::Optional(Box::new(u.clone()))]),
        Ty::Inter(vec![f0(TyRet::Ty(t.clone())), f0(TyRet::Ty(u.clone()))]),
    ];
    let a = id("a");
    let position = |ty: &Ty| -> Vec<Blk> {
        vec![
            stmts(vec![St::TypeDecl(false, "X".into(), vec![], ty.clone())]),
            stmts(vec![St::TypeDecl(true, "X".into(), vec![Generic::Var("A".into())], ty.clone())]),
            stmts(vec![St::TypeDecl(false, "X".into(), vec![Generic::Var("A".into()), Generic::VarDefault("B".into(), ty.clone())], ty.clone())]),
            stmts(vec![St::TypeDecl(false, "X".into(), vec![Generic::Var("A".into()), Generic::Pack("P".into())], ty.clone()), St::TypeDecl(false, "Y".into(), vec![], ty.clone())]),
            stmts(vec![St::LocalT(vec![("v".into(), Some(ty.clone())), ("w".into(), None), ("x".into(), Some(ty.clone()))], vec![a.clone()])]),
            stmts(vec![St::LocalT(vec![("v".into(), Some(ty.clone()))], vec![]), St::CallSt(call(a.clone(), vec![]))]),
            ret(vec![Ex::Cast(bx(a.clone()), ty.clone())]),
            ret(vec![bin(4, Ex::Cast(bx(a.clone()), ty.clone()), a.clone()), bin(6, a.clone(), Ex::Cast(bx(a.clone()), ty.clone()))]),
            ret(vec![bin(0, Ex::Cast(bx(a.clone()), ty.clone()), Ex::Cast(bx(a.clone()), ty.clone())), Ex::Table(vec![Entry::Val(Ex::Cast(bx(a.clone()), ty.clone()))])]),
            stmts(vec![St::Local(vec!["v".into()], vec![Ex::Cast(bx(a.clone()), ty.clone())]), St::CallSt(call(paren(a.clone()), vec![]))]),
            stmts(vec![St::If(vec![(Ex::Cast(bx(a.clone()), ty.clone()), Blk::default())], None)]),
            stmts(vec![St::NForT("i".into(), ty.clone(), num(1.0), a.clone(), None, Blk::default())]),
            stmts(vec![St::GForT(vec![("k".into(), Some(ty.clone())), ("v".into(), None)], vec![a.clone()], Blk::default()), St::GForT(vec![("k".into(), None), ("v".into(), Some(ty.clone()))], vec![a.clone(), a.clone()], Blk::default())]),
            stmts(vec![St::TypeDecl(false, "X".into(), vec![Generic::Var("A".into()), Generic::PackDefault("P".into(), PackDefault::Var(TyVar::Variadic(ty.clone()))), Generic::PackDefault("Q".into(), PackDefault::Pack(TyPack { types: vec![ty.clone(), ty.clone()], variadic: None })), Generic::PackDefault("R".into(), PackDefault::Var(TyVar::Generic("P".into())))], ty.clone())]),
            stmts(vec![St::TypeDecl(false, "X".into(), vec![], Ty::Table(vec![TyEntry::Mod(true, Box::new(TyEntry::Prop("a".into(), ty.clone()))), TyEntry::Mod(false, Box::new(TyEntry::Literal(b"k".to_vec(), ty.clone()))), TyEntry::Mod(true, Box::new(TyEntry::Indexer(tname("string"), ty.clone())))]))]),
            ret(vec![Ex::Inst(bx(a.clone()), vec![ty.clone(), ty.clone()])]),
            stmts(vec![St::Local(vec!["v".into()], vec![Ex::Inst(bx(a.clone()), vec![ty.clone()])]), St::CallSt(call(paren(a.clone()), vec![]))]),
            stmts(vec![St::CallSt(Ex::MethodInst(bx(a.clone()), "m".into(), vec![ty.clone()], Args::Tuple(vec![]))), St::CallSt(call(Ex::Inst(bx(a.clone()), vec![ty.clone()]), vec![a.clone()]))]),
            stmts(vec![St::TypeFunction(
                true,
                "tf".into(),
                Func {
                    params: vec!["p".into()],
                    variadic: false,
                    body: ret(vec![id("p")]),
                    sig: Some(Box::new(Sig { generics: vec![], param_types: vec![Some(ty.clone())], variadic_type: None, ret: Some(TyRet::Ty(ty.clone())), attrs: vec![] })),
                },
            ), St::TypeFunction(false, "tg".into(), Func { params: vec![], variadic: true, body: Blk::default(), sig: None })]),
            stmts(vec![St::LocalFn(
                "f".into(),
                Func {
                    params: vec!["p".into(), "q".into()],
                    variadic: true,
                    body: Blk::default(),
                    sig: Some(Box::new(Sig {
                        generics: vec![Generic::Var("G".into()), Generic::Pack("P".into())],
                        param_types: vec![Some(ty.clone()), None],
                        variadic_type: Some(TyVar::Variadic(ty.clone())),
                        ret: Some(TyRet::Ty(ty.clone())),
                        attrs: vec!["native".into()],
                    })),
                },
            )]),
            ret(vec![Ex::Func(Box::new(Func {
                params: vec!["p".into()],
                variadic: false,
                body: ret(vec![id("p")]),
                sig: Some(Box::new(Sig { generics: vec![], param_types: vec![Some(ty.clone())], variadic_type: None, ret: Some(TyRet::Pack(TyPack { types: vec![ty.clone(), ty.clone()], variadic: None })), attrs: vec![] })),
            }))]),
            stmts(vec![St::Function(
                vec!["m".into(), "n".into()],
                Some("o".into()),
                Func {
                    params: vec![],
                    variadic: true,
                    body: Blk::default(),
                    sig: Some(Box::new(Sig { generics: vec![Generic::Pack("P".into())], param_types: vec![], variadic_type: Some(TyVar::Generic("P".into())), ret: Some(TyRet::Var(TyVar::Generic("P".into()))), attrs: vec![] })),
                },
            )]),
        ]
    };
    for ty in &kinds {
        for b in position(ty) {
            out.push(("type-kind", b));
        }
    }
    let n = if thorough { 4000 } else { 1000 };
    for _ in 0..n {
        let depth = 1 + rng.below(3);
        let ty = gen_ty(rng, depth);
        let positions = position(&ty);
        let i = rng.below(positions.len());
        out.push(("type-random", positions[i].clone()));
    }
    out
}

/// Enumerated families. `thorough` adds all operator triples.
pub fn enumerated(thorough: bool, rng: &mut Rng) -> Vec<(&'static str, Blk)> {
    let mut out: Vec<(&'static str, Blk)> = Vec::new();
    let (a, b, c) = (id("a"), id("b"), id("c"));
    // 1. operator pairs, both associativities
    for o in 0..16 {
        for q in 0..16 {
            out.push(("op-pair", ret(vec![bin(o, bin(q, a.clone(), b.clone()), c.clone())])));
            out.push(("op-pair", ret(vec![bin(o, a.clone(), bin(q, b.clone(), c.clone()))])));
            // with explicit parentheses in the tree
            out.push(("op-pair-paren", ret(vec![bin(o, paren(bin(q, a.clone(), b.clone())), c.clone())])));
            out.push(("op-pair-paren", ret(vec![bin(o, a.clone(), paren(bin(q, b.clone(), c.clone())))])));
        }
    }
    // 2. operator triples
    let mut triples = Vec::new();
    for o1 in 0..16 {
        for o2 in 0..16 {
            for o3 in 0..16 {
                triples.push((o1, o2, o3));
            }
        }
    }
    if !thorough {
        rng.shuffle(&mut triples);
        triples.truncate(300);
    }
    for (o1, o2, o3) in triples {
        for e in triple_shapes(o1, o2, o3) {
            out.push(("op-triple", ret(vec![e])));
        }
    }
    // 3. unary chains and unary/binary interplay, negative literals
    for u1 in 0..3 {
        for u2 in 0..3 {
            out.push(("unary-chain", ret(vec![un(u1, un(u2, a.clone()))])));
            out.push(("unary-chain", ret(vec![un(u1, paren(un(u2, a.clone())))])));
            for u3 in 0..3 {
                out.push(("unary-chain", ret(vec![un(u1, un(u2, un(u3, a.clone())))])));
            }
            for neg in negative_pool() {
                out.push(("unary-negative-literal", ret(vec![un(u1, un(u2, Ex::Num(neg)))])));
            }
        }
        for q in 0..16 {
            out.push(("unary-binary", ret(vec![un(u1, bin(q, a.clone(), b.clone()))])));
            out.push(("unary-binary", ret(vec![bin(q, un(u1, a.clone()), b.clone())])));
            out.push(("unary-binary", ret(vec![bin(q, a.clone(), un(u1, b.clone()))])));
            out.push(("unary-binary", ret(vec![bin(q, un(u1, a.clone()), un(u1, b.clone()))])));
            out.push(("unary-binary", ret(vec![un(u1, bin(q, un(u1, a.clone()), b.clone()))])));
            out.push(("unary-binary", ret(vec![bin(POW, a.clone(), un(u1, bin(q, b.clone(), c.clone())))])));
        }
        for neg in negative_pool() {
            out.push(("unary-negative-literal", ret(vec![un(u1, Ex::Num(neg))])));
        }
    }
    for q in 0..16 {
        for neg in negative_pool() {
            // q == pow with the literal on the left was finding F23 (fixed)
            out.push(("negative-literal", ret(vec![bin(q, Ex::Num(neg.clone()), b.clone())])));
            out.push(("negative-literal", ret(vec![bin(q, a.clone(), Ex::Num(neg.clone()))])));
            out.push(("negative-literal", ret(vec![bin(q, Ex::Num(neg.clone()), Ex::Num(neg))])));
        }
    }
    // 4. numbers / dots / long strings adjacency
    let strings = string_pool();
    let numbers = number_pool();
    let dotty: Vec<Ex> = vec![
        a.clone(),
        Ex::Varargs,
        Ex::Str(b"s".to_vec()),
        Ex::Field(bx(a.clone()), "b".into()),
        num(0.5),
        Ex::Str(long_text(64)),
        Ex::Table(vec![]),
        paren(a.clone()),
        un(1, a.clone()),
    ];
    for n1 in numbers.iter().chain(negative_pool().iter()) {
        for right in &dotty {
            out.push(("number-concat", ret(vec![bin(CONCAT, Ex::Num(n1.clone()), right.clone())])));
            out.push(("number-concat", ret(vec![bin(CONCAT, right.clone(), Ex::Num(n1.clone()))])));
        }
        for n2 in &numbers {
            out.push(("number-concat", ret(vec![bin(CONCAT, Ex::Num(n1.clone()), Ex::Num(n2.clone()))])));
        }
        for kw in 0..2 {
            // number followed / preceded by a keyword operator
            out.push(("number-keyword", ret(vec![bin(kw, Ex::Num(n1.clone()), Ex::Num(n1.clone()))])));
        }
        out.push((
            "number-keyword",
            stmts(vec![St::If(vec![(bin(2, a.clone(), Ex::Num(n1.clone())), stmts(vec![]))], None)]),
        ));
        out.push((
            "number-keyword",
            stmts(vec![St::NFor("i".into(), Ex::Num(n1.clone()), Ex::Num(n1.clone()), Some(Ex::Num(n1.clone())), stmts(vec![]))]),
        ));
        out.push((
            "number-keyword",
            stmts(vec![St::While(Ex::Num(n1.clone()), stmts(vec![])), St::Repeat(stmts(vec![]), Ex::Num(n1.clone()))]),
        ));
    }
    for l in &dotty {
        for r in &dotty {
            out.push(("dots", ret(vec![bin(CONCAT, l.clone(), r.clone())])));
            out.push(("dots", ret(vec![l.clone(), r.clone()])));
        }
        out.push(("dots", ret(vec![bin(CONCAT, bin(CONCAT, l.clone(), Ex::Varargs), l.clone())])));
    }
    for s in &strings {
        let se = Ex::Str(s.clone());
        out.push(("string", ret(vec![se.clone()])));
        out.push(("string-index", ret(vec![Ex::Index(bx(a.clone()), bx(se.clone()))])));
        out.push(("string-index", ret(vec![Ex::Table(vec![Entry::Idx(se.clone(), se.clone())])])));
        out.push(("string-index", ret(vec![Ex::Index(bx(a.clone()), bx(Ex::Index(bx(b.clone()), bx(se.clone()))))])));
        out.push(("string-call", ret(vec![Ex::Call(bx(a.clone()), None, Args::Str(s.clone()))])));
        out.push(("string-call", ret(vec![Ex::Call(bx(a.clone()), Some("m".into()), Args::Str(s.clone()))])));
        out.push(("string-call", ret(vec![call(a.clone(), vec![se.clone(), se.clone()])])));
        out.push(("string-call", ret(vec![bin(CONCAT, se.clone(), se.clone())])));
        out.push(("string-call", stmts(vec![St::Assign(vec![Ex::Index(bx(a.clone()), bx(se.clone()))], vec![se.clone()])])));
    }
    out.push(("string-index", ret(vec![Ex::Index(bx(a.clone()), bx(Ex::Index(bx(b.clone()), bx(Ex::Index(bx(c.clone()), bx(num(1.0)))))))])));
    // 5. statements of every kind, `;` insertion
    let paren_starts: Vec<St> = vec![
        St::CallSt(call(paren(a.clone()), vec![])),
        St::CallSt(Ex::Call(bx(Ex::Field(bx(paren(a.clone())), "x".into())), Some("m".into()), Args::Tuple(vec![]))),
        St::Assign(vec![Ex::Field(bx(paren(a.clone())), "x".into())], vec![num(1.0)]),
        St::Assign(vec![Ex::Index(bx(call(paren(a.clone()), vec![])), bx(num(1.0))), b.clone()], vec![num(1.0), num(2.0)]),
        St::Compound(0, Ex::Index(bx(paren(a.clone())), bx(num(1.0))), num(1.0)),
    ];
    let inst = Ex::Inst(bx(a.clone()), vec![tname("T")]);
    let value_ends: Vec<Ex> = vec![
        a.clone(),
        call(a.clone(), vec![]),
        paren(a.clone()),
        Ex::Field(bx(a.clone()), "x".into()),
        Ex::Index(bx(a.clone()), bx(num(1.0))),
        bin(8, num(1.0), a.clone()),
        bin(8, a.clone(), num(1.0)),
        un(1, a.clone()),
        un(2, call(a.clone(), vec![])),
        Ex::IfExp(bx(a.clone()), bx(num(1.0)), vec![], bx(b.clone())),
        Ex::IfExp(bx(a.clone()), bx(b.clone()), vec![(c.clone(), b.clone())], bx(num(1.0))),
        num(1.0),
        Ex::Str(b"s".to_vec()),
        Ex::Table(vec![]),
        Ex::Func(Box::new(Func { params: vec![], variadic: false, body: stmts(vec![]), sig: None })),
        Ex::True,
        Ex::Nil,
        Ex::Varargs,
        Ex::Cast(bx(a.clone()), tname("T")),
        bin(CONCAT, a.clone(), Ex::Cast(bx(b.clone()), tname("T"))),
        // Luau prefix expressions and units of round 3
        inst.clone(),
        Ex::Inst(bx(Ex::Field(bx(a.clone()), "x".into())), vec![tname("T"), Ty::Table(vec![TyEntry::Prop("k".into(), tname("U"))])]),
        bin(8, num(1.0), inst.clone()),
        un(1, inst.clone()),
        un(2, bin(CONCAT, a.clone(), inst.clone())),
        Ex::IfExp(bx(a.clone()), bx(num(1.0)), vec![], bx(inst.clone())),
        Ex::Call(bx(inst.clone()), None, Args::Tuple(vec![])),
        Ex::MethodInst(bx(a.clone()), "m".into(), vec![tname("T")], Args::Tuple(vec![num(1.0)])),
        Ex::Interp(vec![Seg::Str(b"x".to_vec()), Seg::Val(a.clone())]),
        Ex::Interp(vec![Seg::Val(paren(a.clone()))]),
        Ex::Cast(bx(a.clone()), Ty::TypeOf(bx(b.clone()))),
        Ex::Cast(bx(a.clone()), Ty::Func(vec![], vec![], None, Box::new(TyRet::Pack(TyPack { types: vec![], variadic: None })))),
        Ex::Cast(bx(a.clone()), Ty::Name("G".into(), vec![TyArg::Ty(tname("T"))])),
    ];
    let mut firsts: Vec<St> = Vec::new();
    for v in &value_ends {
        firsts.push(St::Assign(vec![a.clone()], vec![v.clone()]));
        firsts.push(St::Assign(vec![a.clone(), b.clone()], vec![num(1.0), v.clone()]));
        firsts.push(St::Local(vec!["l".into()], vec![v.clone()]));
        firsts.push(St::Compound(7, a.clone(), v.clone()));
        firsts.push(St::Repeat(stmts(vec![]), v.clone()));
    }
    firsts.push(St::Local(vec!["l".into()], vec![]));
    firsts.push(St::CallSt(call(a.clone(), vec![])));
    firsts.push(St::CallSt(Ex::Call(bx(a.clone()), None, Args::Str(b"s".to_vec()))));
    firsts.push(St::CallSt(Ex::Call(bx(a.clone()), Some("m".into()), Args::Table(vec![]))));
    firsts.push(St::Do(stmts(vec![St::CallSt(call(a.clone(), vec![]))])));
    firsts.push(St::While(a.clone(), stmts(vec![])));
    firsts.push(St::If(vec![(a.clone(), stmts(vec![]))], Some(stmts(vec![]))));
    firsts.push(St::Function(vec!["f".into()], None, Func { params: vec![], variadic: false, body: stmts(vec![]), sig: None }));
    firsts.push(St::LocalFn("f".into(), Func { params: vec!["p".into()], variadic: true, body: ret(vec![Ex::Varargs]), sig: None }));
    firsts.push(St::GFor(vec!["k".into(), "v".into()], vec![call(id("pairs"), vec![a.clone()])], stmts(vec![])));
    firsts.push(St::NFor("i".into(), num(1.0), a.clone(), None, stmts(vec![])));
    for first in &firsts {
        for second in &paren_starts {
            out.push(("semicolon", stmts(vec![first.clone(), second.clone()])));
        }
        out.push(("semicolon", Blk { stmts: vec![first.clone()], last: Some(Last::Return(vec![paren(a.clone())])) }));
        out.push(("statement", stmts(vec![first.clone(), first.clone()])));
        out.push(("statement", stmts(vec![St::Do(stmts(vec![first.clone(), paren_starts[0].clone()])), first.clone()])));
    }
    for second in &paren_starts {
        // nested blocks keep the rule
        out.push((
            "semicolon",
            stmts(vec![St::If(
                vec![(a.clone(), stmts(vec![St::CallSt(call(a.clone(), vec![])), second.clone()]))],
                Some(stmts(vec![St::CallSt(call(b.clone(), vec![])), second.clone()])),
            )]),
        ));
        out.push((
            "semicolon",
            stmts(vec![St::LocalFn(
                "f".into(),
                Func { params: vec![], variadic: false, body: stmts(vec![St::CallSt(call(a.clone(), vec![])), second.clone()]), sig: None },
            )]),
        ));
    }
    // loops with break / continue, nested functions
    out.push(("statement", stmts(vec![St::While(Ex::True, Blk { stmts: vec![], last: Some(Last::Break) })])));
    out.push(("statement", stmts(vec![St::While(Ex::True, Blk { stmts: vec![St::CallSt(call(a.clone(), vec![]))], last: Some(Last::Continue) })])));
    out.push(("statement", stmts(vec![St::Repeat(Blk { stmts: vec![St::Local(vec!["x".into()], vec![num(1.0)])], last: Some(Last::Break) }, id("x"))])));
    out.push(("statement", stmts(vec![St::Function(vec!["a".into(), "b".into(), "c".into()], Some("m".into()), Func { params: vec!["p".into(), "q".into()], variadic: true, body: ret(vec![Ex::Varargs, id("p")]), sig: None })])));
    out.push(("statement", stmts(vec![St::If(vec![(a.clone(), ret(vec![])), (b.clone(), ret(vec![num(1.0)])), (c.clone(), stmts(vec![]))], None)])));
    out.push(("statement", ret(vec![])));
    out.push(("statement", Blk::default()));
    // 6. every expression kind in operand / argument / table / return-last positions
    let kinds: Vec<Ex> = {
        let mut k = value_ends.clone();
        k.push(Ex::False);
        k.push(Ex::Num(Num::Hex(255, false)));
        k.push(Ex::Str(long_text(64)));
        k.push(Ex::Table(vec![Entry::Val(num(1.0)), Entry::Fld("x".into(), a.clone()), Entry::Idx(b.clone(), c.clone())]));
        k.push(Ex::Table(vec![Entry::Val(Ex::Table(vec![Entry::Val(call(a.clone(), vec![]))])), Entry::Val(Ex::Varargs)]));
        k.push(Ex::Func(Box::new(Func { params: vec!["p".into()], variadic: true, body: ret(vec![Ex::Varargs]), sig: None })));
        k.push(Ex::Call(bx(a.clone()), Some("m".into()), Args::Tuple(vec![num(1.0), Ex::Varargs])));
        k.push(Ex::Call(bx(call(a.clone(), vec![])), None, Args::Table(vec![Entry::Val(num(1.0))])));
        k.push(paren(call(a.clone(), vec![])));
        k.push(paren(Ex::Varargs));
        k.push(Ex::Cast(bx(bin(8, a.clone(), b.clone())), tname("T")));
        k.push(Ex::Cast(bx(Ex::Cast(bx(a.clone()), tname("T"))), tname("U")));
        k.push(Ex::Inst(bx(call(a.clone(), vec![])), vec![tname("T"), tname("U")]));
        k.push(Ex::Inst(bx(paren(a.clone())), vec![Ty::Name("G".into(), vec![TyArg::Ty(Ty::Name("H".into(), vec![TyArg::Ty(tname("T"))]))])]));
        k.push(Ex::Index(bx(inst.clone()), bx(num(1.0))));
        k.push(Ex::Field(bx(inst.clone()), "x".into()));
        k.push(Ex::Call(bx(inst.clone()), Some("m".into()), Args::Str(b"s".to_vec())));
        k.push(Ex::MethodInst(bx(inst.clone()), "m".into(), vec![tname("T"), tname("U")], Args::Table(vec![])));
        k.push(Ex::Interp(vec![]));
        k.push(Ex::Interp(vec![Seg::Str(b"plain `{\\ \n text".to_vec())]));
        k.push(Ex::Interp(vec![Seg::Val(Ex::Table(vec![Entry::Val(a.clone())])), Seg::Str(b" }".to_vec()), Seg::Val(Ex::Interp(vec![Seg::Val(b.clone())]))]));
        k.push(Ex::Interp(vec![Seg::Str(vec![0xff, b'1']), Seg::Val(bin(CONCAT, a.clone(), Ex::Str(b"}".to_vec()))), Seg::Str("é".as_bytes().to_vec())]));
        k.push(Ex::Interp(vec![Seg::Val(Ex::Func(Box::new(Func { params: vec![], variadic: false, body: ret(vec![Ex::Table(vec![])]), sig: None })))]));
        k.push(Ex::IfExp(bx(a.clone()), bx(Ex::IfExp(bx(b.clone()), bx(num(1.0)), vec![], bx(num(2.0)))), vec![], bx(Ex::IfExp(bx(c.clone()), bx(num(3.0)), vec![], bx(num(4.0))))));
        k
    };
    for k1 in &kinds {
        for ctx in wrap_contexts(k1.clone()) {
            out.push(("expression-kind", ctx));
        }
        out.push(("expression-kind", ret(vec![paren(k1.clone())])));
        out.push(("expression-kind", ret(vec![Ex::Table(vec![Entry::Val(k1.clone()), Entry::Fld("f".into(), k1.clone()), Entry::Idx(k1.clone(), k1.clone())])])));
        out.push(("expression-kind", ret(vec![Ex::Index(bx(a.clone()), bx(k1.clone()))])));
        out.push(("expression-kind", ret(vec![Ex::IfExp(bx(k1.clone()), bx(k1.clone()), vec![(k1.clone(), k1.clone())], bx(k1.clone()))])));
        for u in 0..3 {
            out.push(("expression-kind-operand", ret(vec![un(u, k1.clone())])));
        }
        for o in [0usize, 2, 4, 8, 9, 10, 13, 14, 15] {
            for k2 in [&kinds[0], &kinds[9], &kinds[11], k1] {
                out.push(("expression-kind-operand", ret(vec![bin(o, k1.clone(), k2.clone())])));
                out.push(("expression-kind-operand", ret(vec![bin(o, k2.clone(), k1.clone())])));
            }
        }
    }
    out
}

pub struct Gen {
    pub rng: Rng,
    strings: Vec<Vec<u8>>,
    numbers: Vec<Num>,
    /// allow negative number literals
    pub negatives: bool,
    pub casts: bool,
    in_loop: bool,
}

impl Gen {
    pub fn new(rng: Rng) -> Self {
        Gen { rng, strings: string_pool(), numbers: number_pool(), negatives: true, casts: true, in_loop: false }
    }
    fn name(&mut self) -> String {
        (*self.rng.pick(&NAMES)).to_owned()
    }
    fn field_name(&mut self) -> String {
        (*self.rng.pick(&FIELD_NAMES)).to_owned()
    }
    fn string(&mut self) -> Vec<u8> {
        let i = self.rng.below(self.strings.len());
        self.strings[i].clone()
    }
    fn number(&mut self) -> Ex {
        if self.negatives && self.rng.chance(1, 8) {
            Ex::Num(self.rng.pick(&negative_pool()).clone())
        } else if self.rng.chance(1, 6) {
            Ex::Num(random_exponent_literal(&mut self.rng))
        } else {
            let i = self.rng.below(self.numbers.len());
            Ex::Num(self.numbers[i].clone())
        }
    }
    fn interp(&mut self, d: usize) -> Ex {
        let n = self.rng.below(4);
        Ex::Interp(
            (0..n)
                .map(|_| if self.rng.chance(1, 2) { Seg::Str(self.string()) } else { Seg::Val(self.expr(d)) })
                .collect(),
        )
    }
    fn leaf(&mut self) -> Ex {
        match self.rng.below(10) {
            0 => Ex::Nil,
            1 => Ex::True,
            2 => Ex::False,
            3 => Ex::Varargs,
            4 | 5 => self.number(),
            6 => Ex::Str(self.string()),
            _ => Ex::Id(self.name()),
        }
    }
    pub fn prefix(&mut self, d: usize) -> Ex {
        if d == 0 {
            return Ex::Id(self.name());
        }
        match self.rng.below(8) {
            0 | 1 => Ex::Id(self.name()),
            2 => paren(self.expr(d - 1)),
            3 => Ex::Field(bx(self.prefix(d - 1)), self.field_name()),
            4 => Ex::Index(bx(self.prefix(d - 1)), bx(self.expr(d - 1))),
            5 if self.casts => {
                let n = 1 + self.rng.below(2);
                let p = self.prefix(d - 1);
                Ex::Inst(bx(p), (0..n).map(|_| gen_ty(&mut self.rng, 1)).collect())
            }
            _ => self.call(d),
        }
    }
    fn entries(&mut self, d: usize) -> Vec<Entry> {
        let n = self.rng.below(5);
        (0..n)
            .map(|_| match self.rng.below(3) {
                0 => Entry::Val(self.expr(d)),
                1 => Entry::Fld(self.field_name(), self.expr(d)),
                _ => Entry::Idx(self.expr(d), self.expr(d)),
            })
            .collect()
    }
    pub fn call(&mut self, d: usize) -> Ex {
        let d1 = d.saturating_sub(1);
        let p = self.prefix(d1);
        let method = if self.rng.chance(1, 4) { Some(self.field_name()) } else { None };
        let args = match self.rng.below(6) {
            0 => Args::Str(self.string()),
            1 => Args::Table(self.entries(d1)),
            _ => {
                let n = self.rng.below(4);
                Args::Tuple((0..n).map(|_| self.expr(d1)).collect())
            }
        };
        if self.casts && method.is_some() && self.rng.chance(1, 4) {
            let n = 1 + self.rng.below(2);
            let types = (0..n).map(|_| gen_ty(&mut self.rng, 1)).collect();
            return Ex::MethodInst(bx(p), method.unwrap(), types, args);
        }
        Ex::Call(bx(p), method, args)
    }
    fn func(&mut self, d: usize) -> Func {
        let n = self.rng.below(3);
        let saved = std::mem::replace(&mut self.in_loop, false);
        let mut f = Func {
            params: (0..n).map(|_| self.name()).collect(),
            variadic: self.rng.chance(1, 3),
            body: self.block(d),
            sig: None,
        };
        if self.casts && self.rng.chance(1, 3) {
            let generics = match self.rng.below(4) {
                0 => vec![Generic::Var("G".into())],
                1 => vec![Generic::Var("G".into()), Generic::Pack("P".into())],
                2 => vec![Generic::Pack("P".into())],
                _ => vec![],
            };
            let sig = Sig {
                generics,
                param_types: (0..n).map(|_| if self.rng.chance(2, 3) { Some(gen_ty(&mut self.rng, 2)) } else { None }).collect(),
                variadic_type: if f.variadic && self.rng.chance(1, 2) { Some(gen_var(&mut self.rng, 1)) } else { None },
                ret: if self.rng.chance(2, 3) { Some(gen_ret(&mut self.rng, 2)) } else { None },
                attrs: (0..self.rng.below(3).saturating_sub(1) + self.rng.below(2)).map(|_| (*self.rng.pick(&["native", "checked", "a1"])).to_owned()).collect(),
            };
            if !sig.is_empty() {
                f.sig = Some(Box::new(sig));
            }
        }
        self.in_loop = saved;
        f
    }
    pub fn expr(&mut self, d: usize) -> Ex {
        if d == 0 {
            return self.leaf();
        }
        let d1 = d - 1;
        match self.rng.below(20) {
            0..=2 => self.leaf(),
            3..=8 => {
                let op = self.rng.below(16);
                let l = self.expr(d1);
                let r = self.expr(d1);
                bin(op, l, r)
            }
            9 | 10 => un(self.rng.below(3), self.expr(d1)),
            11 => paren(self.expr(d1)),
            12 => Ex::Field(bx(self.prefix(d1)), self.field_name()),
            13 => Ex::Index(bx(self.prefix(d1)), bx(self.expr(d1))),
            14 | 15 => self.call(d),
            16 if self.casts && self.rng.chance(1, 3) => self.interp(d1),
            16 => Ex::Table(self.entries(d1)),
            17 => Ex::Func(Box::new(self.func(d1.min(1)))),
            18 => {
                let n = self.rng.below(3).saturating_sub(1);
                Ex::IfExp(
                    bx(self.expr(d1)),
                    bx(self.expr(d1)),
                    (0..n).map(|_| (self.expr(d1), self.expr(d1))).collect(),
                    bx(self.expr(d1)),
                )
            }
            _ => {
                if self.casts {
                    let inner = self.expr(d1);
                    let ty = if self.rng.chance(1, 2) {
                        tname(*self.rng.pick(&["T", "number", "Foo"]))
                    } else {
                        let depth = self.rng.below(3);
                        gen_ty(&mut self.rng, depth)
                    };
                    Ex::Cast(bx(inner), ty)
                } else {
                    self.leaf()
                }
            }
        }
    }
    fn variable(&mut self, d: usize) -> Ex {
        match self.rng.below(4) {
            0 | 1 => Ex::Id(self.name()),
            2 => Ex::Field(bx(self.prefix(d)), self.field_name()),
            _ => Ex::Index(bx(self.prefix(d)), bx(self.expr(d))),
        }
    }
    fn exprs(&mut self, d: usize, min: usize, max: usize) -> Vec<Ex> {
        let n = min + self.rng.below(max - min + 1);
        (0..n).map(|_| self.expr(d)).collect()
    }
    pub fn stmt(&mut self, d: usize) -> St {
        let d1 = d.saturating_sub(1);
        let e = 2.min(d + 1);
        let kinds = if d == 0 { 4 } else { 12 };
        if self.casts && self.rng.chance(1, 10) {
            let choice = self.rng.below(5);
            if choice == 2 {
                let saved = std::mem::replace(&mut self.in_loop, false);
                let mut f = self.func(d1);
                // a type function takes no attribute
                if let Some(sig) = f.sig.as_mut() {
                    sig.attrs.clear();
                }
                if f.sig.as_ref().map_or(false, |s| s.is_empty()) {
                    f.sig = None;
                }
                self.in_loop = saved;
                return St::TypeFunction(self.rng.chance(1, 3), (*self.rng.pick(&["tf", "F1", "_t"])).to_owned(), f);
            }
            if choice == 3 {
                let n = 1 + self.rng.below(2);
                let names = (0..n).map(|_| (self.name(), if self.rng.chance(2, 3) { Some(gen_ty(&mut self.rng, 1)) } else { None })).collect();
                return St::GForT(names, self.exprs(e, 1, 2), self.loop_block(d1));
            }
            if choice == 4 {
                let step = if self.rng.chance(1, 2) { Some(self.expr(e)) } else { None };
                return St::NForT(self.name(), gen_ty(&mut self.rng, 1), self.expr(e), self.expr(e), step, self.loop_block(d1));
            }
            return if choice == 0 {
                let n = 1 + self.rng.below(3);
                let names = (0..n)
                    .map(|_| (self.name(), if self.rng.chance(2, 3) { Some(gen_ty(&mut self.rng, 2)) } else { None }))
                    .collect();
                if self.rng.chance(1, 3) {
                    St::Const(names, self.exprs(e, 0, 3))
                } else {
                    St::LocalT(names, self.exprs(e, 0, 2))
                }
            } else {
                let generics = match self.rng.below(7) {
                    0 => vec![Generic::Var("A".into())],
                    1 => vec![Generic::Var("A".into()), Generic::VarDefault("B".into(), gen_ty(&mut self.rng, 1))],
                    2 => vec![Generic::Var("A".into()), Generic::Pack("P".into())],
                    3 => vec![Generic::Var("A".into()), Generic::PackDefault("P".into(), PackDefault::Var(gen_var(&mut self.rng, 1)))],
                    4 => vec![
                        Generic::VarDefault("B".into(), gen_ty(&mut self.rng, 1)),
                        Generic::PackDefault("P".into(), PackDefault::Pack(TyPack { types: vec![gen_ty(&mut self.rng, 1), gen_ty(&mut self.rng, 1)], variadic: None })),
                    ],
                    _ => vec![],
                };
                St::TypeDecl(self.rng.chance(1, 3), (*self.rng.pick(&["T", "Foo", "e1", "_K"])).to_owned(), generics, gen_ty(&mut self.rng, 3))
            };
        }
        match self.rng.below(kinds) {
            0 => {
                let n = 1 + self.rng.below(2);
                St::Assign((0..n).map(|_| self.variable(e)).collect(), self.exprs(e, 1, 3))
            }
            1 => {
                let n = 1 + self.rng.below(3);
                St::Local((0..n).map(|_| self.name()).collect(), self.exprs(e, 0, 3))
            }
            2 => St::CallSt(self.call(e)),
            3 => St::Compound(self.rng.below(8), self.variable(e), self.expr(e)),
            4 => St::Do(self.block(d1)),
            5 => {
                let n = 1 + self.rng.below(3);
                St::Function(
                    (0..n).map(|_| self.field_name()).collect(),
                    if self.rng.chance(1, 3) { Some(self.field_name()) } else { None },
                    self.func(d1),
                )
            }
            6 => {
                let n = 1 + self.rng.below(2);
                St::GFor((0..n).map(|_| self.name()).collect(), self.exprs(e, 1, 2), self.loop_block(d1))
            }
            7 => St::NFor(
                self.name(),
                self.expr(e),
                self.expr(e),
                if self.rng.chance(1, 2) { Some(self.expr(e)) } else { None },
                self.loop_block(d1),
            ),
            8 => {
                let n = 1 + self.rng.below(3);
                St::If(
                    (0..n).map(|_| (self.expr(e), self.block(d1))).collect(),
                    if self.rng.chance(1, 2) { Some(self.block(d1)) } else { None },
                )
            }
            9 => St::LocalFn(self.name(), self.func(d1)),
            10 => St::Repeat(self.loop_block(d1), self.expr(e)),
            _ => St::While(self.expr(e), self.loop_block(d1)),
        }
    }
    fn loop_block(&mut self, d: usize) -> Blk {
        let saved = std::mem::replace(&mut self.in_loop, true);
        let b = self.block(d);
        self.in_loop = saved;
        b
    }
    pub fn block(&mut self, d: usize) -> Blk {
        let n = self.rng.below(4);
        let stmts = (0..n).map(|_| self.stmt(d)).collect();
        let last = match self.rng.below(8) {
            0 | 1 => Some(Last::Return(self.exprs(2.min(d + 1), 0, 3))),
            2 if self.in_loop => Some(Last::Break),
            3 if self.in_loop => Some(Last::Continue),
            _ => None,
        };
        Blk { stmts, last }
    }
}

// ---------------------------------------------------------------- adjacency family

const KEYWORDS: [&str; 21] = [
    "and", "break", "do", "else", "elseif", "end", "false", "for", "function", "if", "in", "local", "nil",
    "not", "or", "repeat", "return", "then", "true", "until", "while",
];

fn is_word(c: char) -> bool {
    c.is_ascii_alphanumeric() || c == '_'
}

/// expressions whose dense text ENDS with `c1` (as the last character of the last push)
fn enders(c1: char) -> Vec<Ex> {
    let mut v = Vec::new();
    if is_word(c1) {
        v.push(id(&format!("x{}", c1)));
    }
    if let Some(d) = c1.to_digit(10) {
        v.push(num(d as f64));
        v.push(Ex::Num(Num::Hex(0x10 + d as u64, false)));
    }
    if ('a'..='f').contains(&c1) {
        v.push(Ex::Num(Num::Hex(c1.to_digit(16).unwrap() as u64, false)));
    }
    match c1 {
        'e' => v.push(Ex::True),
        'l' => v.push(Ex::Nil),
        'd' => v.push(Ex::Func(Box::new(Func { params: vec![], variadic: false, body: Blk::default(), sig: None }))),
        '.' => v.push(Ex::Varargs),
        ']' => v.push(Ex::Index(bx(id("t")), bx(num(1.0)))),
        _ => {}
    }
    v
}

/// identifier starting with `c2`, if there is one that is not a keyword
fn starter_name(c2: char) -> Option<String> {
    if c2.is_ascii_alphabetic() || c2 == '_' {
        let name = format!("{}x", c2);
        if KEYWORDS.contains(&name.as_str()) { None } else { Some(name) }
    } else {
        None
    }
}

/// Blocks in which the dense generator writes a token ending with `c1` directly followed (no
/// comma, operator symbol or bracket in between) by a token starting with `c2`, through
/// `push_str` / `push_char`, so that `should_break_with_space(c1, c2)` decides. `variant`
/// rotates the statement forms so that the whole family stays small; `all_forms` asks for
/// every form. Empty when the grammar never juxtaposes the two (see `unreachable_reason`).
pub fn adjacency_witnesses(c1: char, c2: char, variant: usize, all_forms: bool) -> Vec<Blk> {
    let mut out = Vec::new();
    let a = id("a");
    let empty = || Blk::default();
    let pick = |forms: Vec<Blk>, out: &mut Vec<Blk>| {
        if forms.is_empty() {
            return;
        }
        if all_forms {
            out.extend(forms);
        } else {
            out.push(forms[variant % forms.len()].clone());
        }
    };
    // (1) statement ending with an expression ending with c1, next statement starting with c2
    for e in enders(c1) {
        let ending_statements = |e: &Ex| -> Vec<St> {
            vec![
                St::Local(vec!["v".into()], vec![e.clone()]),
                St::Assign(vec![a.clone()], vec![num(1.5), e.clone()]),
                St::Compound(0, a.clone(), e.clone()),
                St::Repeat(empty(), e.clone()),
            ]
        };
        let mut forms: Vec<Blk> = Vec::new();
        if let Some(name) = starter_name(c2) {
            let nexts = vec![
                St::Assign(vec![id(&name)], vec![num(1.0)]),
                St::CallSt(call(id(&name), vec![])),
                St::Assign(vec![Ex::Field(bx(id(&name)), "f".into())], vec![num(2.0)]),
                St::CallSt(Ex::Call(bx(id(&name)), Some("m".into()), Args::Tuple(vec![]))),
            ];
            for (i, first) in ending_statements(&e).into_iter().enumerate() {
                forms.push(stmts(vec![first, nexts[i % nexts.len()].clone()]));
            }
            // expression followed by a keyword is (2); identifier after `return`/`not`… is (3)
        }
        // keyword-starting statements and clauses after the expression
        let keyword_followers: Vec<(char, Blk)> = vec![
            ('d', stmts(vec![St::Local(vec!["v".into()], vec![e.clone()]), St::Do(empty())])),
            ('l', stmts(vec![St::Local(vec!["v".into()], vec![e.clone()]), St::Local(vec!["w".into()], vec![])])),
            ('r', Blk { stmts: vec![St::Local(vec!["v".into()], vec![e.clone()])], last: Some(Last::Return(vec![])) }),
            ('r', stmts(vec![St::Local(vec!["v".into()], vec![e.clone()]), St::Repeat(empty(), a.clone())])),
            ('i', stmts(vec![St::Local(vec!["v".into()], vec![e.clone()]), St::If(vec![(a.clone(), empty())], None)])),
            ('w', stmts(vec![St::Local(vec!["v".into()], vec![e.clone()]), St::While(a.clone(), empty())])),
            ('f', stmts(vec![St::Local(vec!["v".into()], vec![e.clone()]), St::NFor("i".into(), num(1.0), num(2.0), None, empty())])),
            ('f', stmts(vec![St::Local(vec!["v".into()], vec![e.clone()]), St::Function(vec!["g".into()], None, Func { params: vec![], variadic: false, body: empty(), sig: None })])),
            ('a', ret(vec![bin(0, e.clone(), a.clone())])),
            ('o', ret(vec![bin(1, e.clone(), a.clone())])),
            ('t', stmts(vec![St::If(vec![(e.clone(), empty())], None)])),
            ('d', stmts(vec![St::While(e.clone(), empty())])),
            ('d', stmts(vec![St::NFor("i".into(), num(1.0), e.clone(), None, empty())])),
            ('d', stmts(vec![St::GFor(vec!["k".into()], vec![e.clone()], empty())])),
            ('e', stmts(vec![St::If(vec![(a.clone(), ret(vec![e.clone()]))], None)])),
            ('e', stmts(vec![St::If(vec![(a.clone(), ret(vec![e.clone()]))], Some(empty()))])),
            ('e', stmts(vec![St::If(vec![(a.clone(), ret(vec![e.clone()])), (a.clone(), empty())], None)])),
            ('e', stmts(vec![St::Do(stmts(vec![St::Local(vec!["v".into()], vec![e.clone()])]))])),
            ('u', stmts(vec![St::Repeat(stmts(vec![St::Local(vec!["v".into()], vec![e.clone()])]), a.clone())])),
            ('b', stmts(vec![St::While(a.clone(), Blk { stmts: vec![St::Local(vec!["v".into()], vec![e.clone()])], last: Some(Last::Break) })])),
            ('c', stmts(vec![St::While(a.clone(), Blk { stmts: vec![St::Local(vec!["v".into()], vec![e.clone()])], last: Some(Last::Continue) })])),
            ('e', ret(vec![Ex::IfExp(bx(a.clone()), bx(e.clone()), vec![], bx(a.clone()))])),
            ('t', ret(vec![Ex::IfExp(bx(e.clone()), bx(a.clone()), vec![(e.clone(), a.clone())], bx(a.clone()))])),
        ];
        for (first, blk) in keyword_followers {
            if first == c2 {
                forms.push(blk);
            }
        }
        pick(forms, &mut out);
    }
    // (2) keyword ending with c1 followed by an expression starting with c2
    let mut starters: Vec<Ex> = Vec::new();
    if let Some(name) = starter_name(c2) {
        starters.push(id(&name));
    }
    if let Some(d) = c2.to_digit(10) {
        starters.push(num(d as f64));
    }
    match c2 {
        't' => starters.push(Ex::True),
        'f' => {
            starters.push(Ex::False);
            starters.push(Ex::Func(Box::new(Func { params: vec![], variadic: false, body: Blk::default(), sig: None })));
        }
        'n' => {
            starters.push(Ex::Nil);
            starters.push(un(2, a.clone()));
        }
        'i' => starters.push(Ex::IfExp(bx(a.clone()), bx(a.clone()), vec![], bx(a.clone()))),
        _ => {}
    }
    for s in starters {
        let forms: Vec<(char, Blk)> = vec![
            ('n', ret(vec![s.clone()])),
            ('d', ret(vec![bin(0, a.clone(), s.clone())])),
            ('r', ret(vec![bin(1, a.clone(), s.clone())])),
            ('t', ret(vec![un(2, s.clone())])),
            ('l', stmts(vec![St::Repeat(empty(), s.clone())])),
            ('n', stmts(vec![St::GFor(vec!["k".into()], vec![s.clone()], empty())])),
            ('e', stmts(vec![St::While(s.clone(), empty())])),
            ('f', stmts(vec![St::If(vec![(s.clone(), empty())], None)])),
            ('f', stmts(vec![St::If(vec![(a.clone(), empty()), (s.clone(), empty())], None)])),
            ('n', ret(vec![Ex::IfExp(bx(a.clone()), bx(s.clone()), vec![], bx(a.clone()))])),
            ('e', ret(vec![Ex::IfExp(bx(a.clone()), bx(a.clone()), vec![], bx(s.clone()))])),
        ];
        let matching: Vec<Blk> = forms.into_iter().filter(|(last, _)| *last == c1).map(|(_, b)| b).collect();
        pick(matching, &mut out);
    }
    // (2b) keyword ending with c1 followed by a statement / name starting with c2
    if let Some(name) = starter_name(c2) {
        let assign = St::Assign(vec![id(&name)], vec![num(1.0)]);
        let callst = St::CallSt(call(id(&name), vec![]));
        let forms: Vec<(char, Blk)> = vec![
            ('o', stmts(vec![St::Do(stmts(vec![assign.clone()]))])),
            ('o', stmts(vec![St::While(a.clone(), stmts(vec![callst.clone()]))])),
            ('n', stmts(vec![St::If(vec![(a.clone(), stmts(vec![assign.clone()]))], None)])),
            ('e', stmts(vec![St::If(vec![(a.clone(), empty())], Some(stmts(vec![callst.clone()])))])),
            ('t', stmts(vec![St::Repeat(stmts(vec![assign.clone()]), a.clone())])),
            ('d', stmts(vec![St::Do(empty()), assign.clone()])),
            ('d', stmts(vec![St::While(a.clone(), empty()), callst.clone()])),
            ('l', stmts(vec![St::Local(vec![name.clone()], vec![])])),
            ('r', stmts(vec![St::NFor(name.clone(), num(1.0), num(2.0), None, empty())])),
            ('r', stmts(vec![St::GFor(vec![name.clone()], vec![a.clone()], empty())])),
            ('n', stmts(vec![St::Function(vec![name.clone()], None, Func { params: vec![], variadic: false, body: empty(), sig: None })])),
            ('n', stmts(vec![St::LocalFn(name.clone(), Func { params: vec![], variadic: false, body: empty(), sig: None })])),
        ];
        let matching: Vec<Blk> = forms.into_iter().filter(|(last, _)| *last == c1).map(|(_, b)| b).collect();
        pick(matching, &mut out);
    }
    // (3) symbol classes
    match (c1, c2) {
        ('-', '-') => {
            out.push(ret(vec![bin(9, a.clone(), num(-1.0))]));
            out.push(ret(vec![un(1, num(-2.5))]));
            out.push(ret(vec![bin(9, num(-1.0), num(-0.0))]));
        }
        ('.', d) if d.is_ascii_digit() => {
            let n = d.to_digit(10).unwrap() as f64;
            out.push(ret(vec![bin(CONCAT, a.clone(), num(n))]));
            out.push(ret(vec![bin(CONCAT, Ex::Varargs, num(n))]));
            out.push(stmts(vec![St::Compound(7, a.clone(), num(n))]));
        }
        (d, '.') if d.is_ascii_digit() => {
            // an identifier ending in a digit followed by `..=` (harmless either way: the
            // identifier ends at the dot), the only push_str/push_char route to digit·dot
            out.push(stmts(vec![St::Compound(7, id(&format!("x{}", d)), a.clone())]));
        }
        (']', ']') => {
            out.push(ret(vec![Ex::Index(bx(a.clone()), bx(Ex::Index(bx(id("b")), bx(num(1.0)))))]));
            out.push(ret(vec![Ex::Table(vec![Entry::Idx(Ex::Index(bx(a.clone()), bx(num(1.0))), num(2.0))])]));
            out.push(ret(vec![Ex::Index(bx(a.clone()), bx(Ex::Str(long_text(64))))]));
        }
        _ => {}
    }
    out
}

/// why no valid program of the core juxtaposes a token ending with `c1` and one starting with `c2`
pub fn unreachable_reason(c1: char, c2: char) -> &'static str {
    if c1.is_ascii_digit() && c2.is_ascii_digit() {
        "digit·digit: a numeral or an identifier ending in a digit is never directly followed by a numeral"
    } else if is_word(c1) && c2.is_ascii_digit() {
        "word·digit: only a keyword can be directly followed by a numeral, and no keyword ends with this character"
    } else if c1.is_ascii_digit() && c2 == '.' {
        "digit·dot: after a numeral the writers reach `..`/`...` only through break_concat / break_variable_arguments (an identifier ending in a digit before `..=` is the one push_str route)"
    } else if c1 == '.' && c2 == '.' {
        "dot·dot: after `..`/`...` only `...` starts with a dot, written through break_variable_arguments"
    } else if c1 == '[' && c2 == '[' {
        "[·[: after `[` only a long string starts with `[`, written through break_long_string"
    } else if c1 == '>' && c2 == '=' {
        "`>`·`=`: only with generic type parameters (`type T<A> =`), written through break_equal; Luau type syntax"
    } else {
        "no form of the core grammar juxtaposes these"
    }
}
