//! Luau type syntax in the harness's own tree: conversion to/from darklua type nodes (public
//! constructors / getters), S-expressions, comparison normal form, generator.
use super::sexp::Sx;
use super::tree::{from_expr, norm_expr, to_expr, Ex};
use crate::model::{hex, unhex};
use crate::rng::Rng;
use darklua_core::nodes as n;

#[derive(Clone, Debug, PartialEq)]
pub enum Ty {
    Name(String, Vec<TyArg>),
    Field(String, String, Vec<TyArg>),
    Nil,
    True,
    False,
    Str(Vec<u8>),
    Array(Box<Ty>),
    Table(Vec<TyEntry>),
    TypeOf(Box<Ex>),
    Paren(Box<Ty>),
    /// generic parameters, arguments (optional name), variadic argument, return
    Func(Vec<Generic>, Vec<(Option<String>, Ty)>, Option<Box<TyVar>>, Box<TyRet>),
    Optional(Box<Ty>),
    Union(Vec<Ty>),
    Inter(Vec<Ty>),
}

#[derive(Clone, Debug, PartialEq)]
pub enum Generic {
    Var(String),
    Pack(String),
    /// `P... = default` (type declarations only)
    PackDefault(String, PackDefault),
    /// `T = default` (type declarations only)
    VarDefault(String, Ty),
}

#[derive(Clone, Debug, PartialEq)]
pub enum PackDefault {
    Pack(TyPack),
    Var(TyVar),
}

#[derive(Clone, Debug, PartialEq)]
pub enum TyVar {
    /// `...T`
    Variadic(Ty),
    /// `T...`
    Generic(String),
}

#[derive(Clone, Debug, PartialEq)]
pub struct TyPack {
    pub types: Vec<Ty>,
    pub variadic: Option<TyVar>,
}

#[derive(Clone, Debug, PartialEq)]
pub enum TyArg {
    Ty(Ty),
    Pack(TyPack),
    Var(TyVar),
}

#[derive(Clone, Debug, PartialEq)]
pub enum TyRet {
    Ty(Ty),
    Pack(TyPack),
    Var(TyVar),
}

#[derive(Clone, Debug, PartialEq)]
pub enum TyEntry {
    Prop(String, Ty),
    Literal(Vec<u8>, Ty),
    Indexer(Ty, Ty),
    /// `read` (true) / `write` (false) modifier on an entry
    Mod(bool, Box<TyEntry>),
}

/// types of a function's signature
#[derive(Clone, Debug, PartialEq, Default)]
pub struct Sig {
    pub generics: Vec<Generic>,
    /// one per parameter
    pub param_types: Vec<Option<Ty>>,
    /// type of `...` (a type or a generic pack)
    pub variadic_type: Option<TyVar>,
    pub ret: Option<TyRet>,
    /// `@name` attributes in front of the function
    pub attrs: Vec<String>,
}

impl Sig {
    pub fn is_empty(&self) -> bool {
        self.generics.is_empty()
            && self.param_types.iter().all(|t| t.is_none())
            && self.variadic_type.is_none()
            && self.ret.is_none()
            && self.attrs.is_empty()
    }
}

pub fn tname(name: &str) -> Ty {
    Ty::Name(name.to_owned(), vec![])
}

// ---------------------------------------------------------------- to darklua

fn to_variadic_argument(v: &TyVar) -> n::VariadicArgumentType {
    match v {
        TyVar::Variadic(t) => n::VariadicTypePack::new(to_type(t)).into(),
        TyVar::Generic(name) => n::GenericTypePack::new(name.as_str()).into(),
    }
}

pub fn to_pack(p: &TyPack) -> n::TypePack {
    let mut pack = n::TypePack::default();
    for t in &p.types {
        pack = pack.with_type(to_type(t));
    }
    if let Some(v) = &p.variadic {
        pack = pack.with_variadic_type(to_variadic_argument(v));
    }
    pack
}

fn to_type_parameter(a: &TyArg) -> n::TypeParameter {
    match a {
        TyArg::Ty(t) => n::TypeParameter::Type(to_type(t)),
        TyArg::Pack(p) => n::TypeParameter::TypePack(to_pack(p)),
        TyArg::Var(TyVar::Variadic(t)) => n::TypeParameter::VariadicTypePack(n::VariadicTypePack::new(to_type(t))),
        TyArg::Var(TyVar::Generic(name)) => n::TypeParameter::GenericTypePack(n::GenericTypePack::new(name.as_str())),
    }
}

fn to_type_name(name: &str, args: &[TyArg]) -> n::TypeName {
    let mut type_name = n::TypeName::new(name);
    for a in args {
        type_name = type_name.with_type_parameter(to_type_parameter(a));
    }
    type_name
}

pub fn to_return(r: &TyRet) -> n::FunctionReturnType {
    match r {
        TyRet::Ty(t) => n::FunctionReturnType::Type(Box::new(to_type(t))),
        TyRet::Pack(p) => n::FunctionReturnType::TypePack(Box::new(to_pack(p))),
        TyRet::Var(TyVar::Variadic(t)) => n::FunctionReturnType::VariadicTypePack(n::VariadicTypePack::new(to_type(t))),
        TyRet::Var(TyVar::Generic(name)) => {
            n::FunctionReturnType::GenericTypePack(Box::new(n::GenericTypePack::new(name.as_str())))
        }
    }
}

pub fn to_generic_parameters(generics: &[Generic]) -> Option<n::GenericParameters> {
    let mut result: Option<n::GenericParameters> = None;
    // type variables first, then packs (the order the syntax imposes)
    for g in generics {
        if let Generic::Var(name) = g {
            result = Some(match result {
                None => n::GenericParameters::from_type_variable(name.as_str()),
                Some(p) => p.with_type_variable(name.as_str()),
            });
        }
    }
    for g in generics {
        if let Generic::Pack(name) = g {
            result = Some(match result {
                None => n::GenericParameters::from_generic_type_pack(n::GenericTypePack::new(name.as_str())),
                Some(mut p) => {
                    p.push_generic_type_pack(n::GenericTypePack::new(name.as_str()));
                    p
                }
            });
        }
    }
    result
}

pub fn to_function_variadic(v: &TyVar) -> n::FunctionVariadicType {
    match v {
        TyVar::Variadic(t) => n::FunctionVariadicType::Type(Box::new(to_type(t))),
        TyVar::Generic(name) => n::FunctionVariadicType::GenericTypePack(n::GenericTypePack::new(name.as_str())),
    }
}

pub fn to_type(t: &Ty) -> n::Type {
    match t {
        Ty::Name(name, args) => to_type_name(name, args).into(),
        Ty::Field(ns, name, args) => n::TypeField::new(ns.as_str(), to_type_name(name, args)).into(),
        Ty::Nil => n::Type::Nil(None),
        Ty::True => n::Type::True(None),
        Ty::False => n::Type::False(None),
        Ty::Str(s) => n::StringType::from_value(String::from_utf8_lossy(s).into_owned()).into(),
        Ty::Array(e) => n::ArrayType::new(to_type(e)).into(),
        Ty::Table(entries) => {
            let mut table = n::TableType::default();
            for e in entries {
                let (modifier, e) = match e {
                    TyEntry::Mod(read, inner) => (
                        Some(if *read { n::TablePropertyModifier::Read } else { n::TablePropertyModifier::Write }),
                        &**inner,
                    ),
                    other => (None, other),
                };
                match e {
                    TyEntry::Prop(name, t) => {
                        let mut p = n::TablePropertyType::new(name.as_str(), to_type(t));
                        if let Some(m) = modifier {
                            p = p.with_modifier(m);
                        }
                        table.push_property(p);
                    }
                    TyEntry::Literal(s, t) => {
                        let mut p = n::TableLiteralPropertyType::new(
                            n::StringType::from_value(String::from_utf8_lossy(s).into_owned()),
                            to_type(t),
                        );
                        if let Some(m) = modifier {
                            p = p.with_modifier(m);
                        }
                        table.push_property(p);
                    }
                    TyEntry::Indexer(k, v) => {
                        let mut p = n::TableIndexerType::new(to_type(k), to_type(v));
                        if let Some(m) = modifier {
                            p = p.with_modifier(m);
                        }
                        table.set_indexer_type(p);
                    }
                    TyEntry::Mod(..) => {}
                }
            }
            table.into()
        }
        Ty::TypeOf(e) => n::ExpressionType::new(to_expr(e)).into(),
        Ty::Paren(t) => n::ParentheseType::new(to_type(t)).into(),
        Ty::Func(generics, args, variadic, ret) => {
            let mut f = n::FunctionType::new(to_return(ret));
            if let Some(g) = to_generic_parameters(generics) {
                f = f.with_generic_parameters(g);
            }
            for (name, t) in args {
                let mut arg = n::FunctionArgumentType::new(to_type(t));
                if let Some(name) = name {
                    arg = arg.with_name(name.as_str());
                }
                f = f.with_argument(arg);
            }
            if let Some(v) = variadic {
                f = f.with_variadic_type(to_variadic_argument(v));
            }
            f.into()
        }
        Ty::Optional(t) => n::OptionalType::new(to_type(t)).into(),
        Ty::Union(ts) => n::UnionType::from(ts.iter().map(to_type).collect::<Vec<_>>()).into(),
        Ty::Inter(ts) => n::IntersectionType::from(ts.iter().map(to_type).collect::<Vec<_>>()).into(),
    }
}

// ---------------------------------------------------------------- from darklua

fn from_variadic_argument(v: &n::VariadicArgumentType) -> Result<TyVar, String> {
    Ok(match v {
        n::VariadicArgumentType::VariadicTypePack(p) => TyVar::Variadic(from_type(p.get_type())?),
        n::VariadicArgumentType::GenericTypePack(g) => TyVar::Generic(g.get_name().get_name().clone()),
    })
}

pub fn from_pack(p: &n::TypePack) -> Result<TyPack, String> {
    Ok(TyPack {
        types: p.iter().map(from_type).collect::<Result<_, _>>()?,
        variadic: match p.get_variadic_type() {
            Some(v) => Some(from_variadic_argument(v)?),
            None => None,
        },
    })
}

fn from_args(name: &n::TypeName) -> Result<Vec<TyArg>, String> {
    match name.get_type_parameters() {
        None => Ok(vec![]),
        Some(params) => params
            .iter()
            .map(|p| {
                Ok(match p {
                    n::TypeParameter::Type(t) => TyArg::Ty(from_type(t)?),
                    n::TypeParameter::TypePack(p) => TyArg::Pack(from_pack(p)?),
                    n::TypeParameter::VariadicTypePack(v) => TyArg::Var(TyVar::Variadic(from_type(v.get_type())?)),
                    n::TypeParameter::GenericTypePack(g) => TyArg::Var(TyVar::Generic(g.get_name().get_name().clone())),
                })
            })
            .collect(),
    }
}

pub fn from_return(r: &n::FunctionReturnType) -> Result<TyRet, String> {
    Ok(match r {
        n::FunctionReturnType::Type(t) => TyRet::Ty(from_type(t)?),
        n::FunctionReturnType::TypePack(p) => TyRet::Pack(from_pack(p)?),
        n::FunctionReturnType::VariadicTypePack(v) => TyRet::Var(TyVar::Variadic(from_type(v.get_type())?)),
        n::FunctionReturnType::GenericTypePack(g) => TyRet::Var(TyVar::Generic(g.get_name().get_name().clone())),
    })
}

pub fn from_generic_parameters(g: Option<&n::GenericParameters>) -> Vec<Generic> {
    match g {
        None => vec![],
        Some(g) => g
            .iter_type_variable()
            .map(|v| Generic::Var(v.get_name().clone()))
            .chain(g.iter_generic_type_pack().map(|p| Generic::Pack(p.get_name().get_name().clone())))
            .collect(),
    }
}

pub fn from_function_variadic(v: &n::FunctionVariadicType) -> Result<TyVar, String> {
    Ok(match v {
        n::FunctionVariadicType::Type(t) => TyVar::Variadic(from_type(t)?),
        n::FunctionVariadicType::GenericTypePack(g) => TyVar::Generic(g.get_name().get_name().clone()),
    })
}

pub fn from_type(t: &n::Type) -> Result<Ty, String> {
    Ok(match t {
        n::Type::Name(name) => Ty::Name(name.get_type_name().get_name().clone(), from_args(name)?),
        n::Type::Field(f) => Ty::Field(
            f.get_namespace().get_name().clone(),
            f.get_type_name().get_type_name().get_name().clone(),
            from_args(f.get_type_name())?,
        ),
        n::Type::Nil(_) => Ty::Nil,
        n::Type::True(_) => Ty::True,
        n::Type::False(_) => Ty::False,
        n::Type::String(s) => Ty::Str(s.get_value().to_vec()),
        n::Type::Array(a) => Ty::Array(Box::new(from_type(a.get_element_type())?)),
        n::Type::Table(table) => Ty::Table(
            table
                .iter_entries()
                .map(|e| {
                    let modifier = e.get_modifier().map(|m| matches!(m, n::TablePropertyModifier::Read));
                    let wrap = |entry: TyEntry| match modifier {
                        Some(read) => TyEntry::Mod(read, Box::new(entry)),
                        None => entry,
                    };
                    Ok::<TyEntry, String>(wrap(match e {
                        n::TableEntryType::Property(p) => {
                            TyEntry::Prop(p.get_identifier().get_name().clone(), from_type(p.get_type())?)
                        }
                        n::TableEntryType::Literal(p) => {
                            TyEntry::Literal(p.get_string().get_value().to_vec(), from_type(p.get_type())?)
                        }
                        n::TableEntryType::Indexer(i) => {
                            TyEntry::Indexer(from_type(i.get_key_type())?, from_type(i.get_value_type())?)
                        }
                    }))
                })
                .collect::<Result<_, _>>()?,
        ),
        n::Type::TypeOf(e) => Ty::TypeOf(Box::new(from_expr(e.get_expression())?)),
        n::Type::Parenthese(p) => Ty::Paren(Box::new(from_type(p.get_inner_type())?)),
        n::Type::Function(f) => Ty::Func(
            from_generic_parameters(f.get_generic_parameters()),
            f.iter_arguments()
                .map(|a| Ok((a.get_name().map(|i| i.get_name().clone()), from_type(a.get_type())?)))
                .collect::<Result<Vec<_>, String>>()?,
            match f.get_variadic_argument_type() {
                Some(v) => Some(Box::new(from_variadic_argument(v)?)),
                None => None,
            },
            Box::new(from_return(f.get_return_type())?),
        ),
        n::Type::Optional(o) => Ty::Optional(Box::new(from_type(o.get_inner_type())?)),
        n::Type::Union(u) => Ty::Union(u.iter_types().map(from_type).collect::<Result<_, _>>()?),
        n::Type::Intersection(u) => Ty::Inter(u.iter_types().map(from_type).collect::<Result<_, _>>()?),
    })
}

// ---------------------------------------------------------------- normal form

fn strip(t: Ty) -> Ty {
    match t {
        Ty::Paren(inner) => strip(*inner),
        other => other,
    }
}

fn norm_var(v: &TyVar) -> TyVar {
    match v {
        TyVar::Variadic(t) => TyVar::Variadic(norm_ty(t)),
        TyVar::Generic(n) => TyVar::Generic(n.clone()),
    }
}
fn norm_pack(p: &TyPack) -> TyPack {
    TyPack { types: p.types.iter().map(norm_ty).collect(), variadic: p.variadic.as_ref().map(norm_var) }
}
fn norm_args(args: &[TyArg]) -> Vec<TyArg> {
    args.iter()
        .map(|a| match a {
            // `(T)` in type-argument position is a type pack of one type for every Luau parser
            TyArg::Ty(Ty::Paren(t)) => TyArg::Pack(TyPack { types: vec![norm_ty(t)], variadic: None }),
            TyArg::Ty(t) => TyArg::Ty(norm_ty(t)),
            TyArg::Pack(p) => TyArg::Pack(norm_pack(p)),
            TyArg::Var(v) => TyArg::Var(norm_var(v)),
        })
        .collect()
}
pub fn norm_ret(r: &TyRet) -> TyRet {
    match r {
        // `-> (T)`: a parenthesised return type is a type pack of one type
        TyRet::Ty(Ty::Paren(t)) => TyRet::Pack(TyPack { types: vec![norm_ty(t)], variadic: None }),
        TyRet::Ty(t) => TyRet::Ty(norm_ty(t)),
        TyRet::Pack(p) => TyRet::Pack(norm_pack(p)),
        TyRet::Var(v) => TyRet::Var(norm_var(v)),
    }
}
pub fn norm_generics(g: &[Generic]) -> Vec<Generic> {
    g.iter()
        .map(|g| match g {
            Generic::VarDefault(n, t) => Generic::VarDefault(n.clone(), norm_ty(t)),
            Generic::PackDefault(n, PackDefault::Pack(p)) => Generic::PackDefault(n.clone(), PackDefault::Pack(norm_pack(p))),
            Generic::PackDefault(n, PackDefault::Var(v)) => Generic::PackDefault(n.clone(), PackDefault::Var(norm_var(v))),
            other => other.clone(),
        })
        .collect()
}

/// Types modulo parentheses that are the direct operand of `?`, `|`, `&` or an indexer key
/// (grouping only; the printer adds them there). Parentheses elsewhere are kept.
pub fn norm_ty(t: &Ty) -> Ty {
    let operand = |t: &Ty| strip(norm_ty(t));
    match t {
        Ty::Name(n, a) => Ty::Name(n.clone(), norm_args(a)),
        Ty::Field(ns, n, a) => Ty::Field(ns.clone(), n.clone(), norm_args(a)),
        Ty::Nil | Ty::True | Ty::False | Ty::Str(_) => t.clone(),
        Ty::Array(e) => Ty::Array(Box::new(norm_ty(e))),
        Ty::Table(entries) => Ty::Table(
            entries
                .iter()
                .map(|e| norm_entry(e))
                .collect(),
        ),
        Ty::TypeOf(e) => Ty::TypeOf(Box::new(norm_expr(e))),
        Ty::Paren(t) => Ty::Paren(Box::new(norm_ty(t))),
        Ty::Func(g, args, v, r) => Ty::Func(
            norm_generics(g),
            args.iter().map(|(n, t)| (n.clone(), norm_ty(t))).collect(),
            v.as_ref().map(|v| Box::new(norm_var(v))),
            Box::new(norm_ret(r)),
        ),
        Ty::Optional(t) => Ty::Optional(Box::new(operand(t))),
        Ty::Union(ts) => Ty::Union(ts.iter().map(operand).collect()),
        Ty::Inter(ts) => Ty::Inter(ts.iter().map(operand).collect()),
    }
}

fn norm_entry(e: &TyEntry) -> TyEntry {
    let operand = |t: &Ty| strip(norm_ty(t));
    match e {
        TyEntry::Mod(r, inner) => TyEntry::Mod(*r, Box::new(norm_entry(inner))),
        TyEntry::Prop(n, t) => TyEntry::Prop(n.clone(), norm_ty(t)),
        TyEntry::Literal(s, t) => TyEntry::Literal(s.clone(), norm_ty(t)),
        // `["s"]: T` is the one syntax for a string-literal property and for an indexer whose
        // key type is the singleton string type: read as the property
        TyEntry::Indexer(Ty::Str(s), v) => TyEntry::Literal(s.clone(), norm_ty(v)),
        TyEntry::Indexer(k, v) => TyEntry::Indexer(operand(k), norm_ty(v)),
    }
}

pub fn norm_sig(s: &Sig) -> Sig {
    Sig {
        generics: norm_generics(&s.generics),
        param_types: if s.param_types.iter().all(|t| t.is_none()) {
            Vec::new()
        } else {
            s.param_types.iter().map(|t| t.as_ref().map(norm_ty)).collect()
        },
        variadic_type: s.variadic_type.as_ref().map(norm_var),
        ret: s.ret.as_ref().map(norm_ret),
        attrs: s.attrs.clone(),
    }
}

// ---------------------------------------------------------------- S-expressions

fn var_str(v: &TyVar) -> String {
    match v {
        TyVar::Variadic(t) => format!("(tvariadic {})", ty_str(t)),
        TyVar::Generic(n) => format!("(tgeneric {})", n),
    }
}
fn pack_str(p: &TyPack) -> String {
    format!(
        "(tpack ({}) {})",
        p.types.iter().map(ty_str).collect::<Vec<_>>().join(" "),
        p.variadic.as_ref().map_or("-".to_owned(), var_str)
    )
}
fn args_str(args: &[TyArg]) -> String {
    args.iter()
        .map(|a| match a {
            TyArg::Ty(t) => ty_str(t),
            TyArg::Pack(p) => pack_str(p),
            TyArg::Var(v) => var_str(v),
        })
        .map(|s| format!(" {}", s))
        .collect()
}
pub fn ret_str(r: &TyRet) -> String {
    match r {
        TyRet::Ty(t) => ty_str(t),
        TyRet::Pack(p) => pack_str(p),
        TyRet::Var(v) => var_str(v),
    }
}
pub fn generics_str(g: &[Generic]) -> String {
    format!(
        "({})",
        g.iter()
            .map(|g| match g {
                Generic::Var(n) => n.clone(),
                Generic::Pack(n) => format!("(pack {})", n),
                Generic::VarDefault(n, t) => format!("(def {} {})", n, ty_str(t)),
                Generic::PackDefault(n, PackDefault::Pack(p)) => format!("(packdef {} {})", n, pack_str(p)),
                Generic::PackDefault(n, PackDefault::Var(v)) => format!("(packdef {} {})", n, var_str(v)),
            })
            .collect::<Vec<_>>()
            .join(" ")
    )
}
fn entry_str(e: &TyEntry) -> String {
    match e {
        TyEntry::Prop(n, t) => format!("(prop {} {})", n, ty_str(t)),
        TyEntry::Literal(s, t) => format!("(lit {} {})", hex(s), ty_str(t)),
        TyEntry::Indexer(k, v) => format!("(indexer {} {})", ty_str(k), ty_str(v)),
        TyEntry::Mod(read, inner) => format!("(mod {} {})", if *read { "read" } else { "write" }, entry_str(inner)),
    }
}

fn to_entry(e: &Sx) -> Option<TyEntry> {
    match head(e)? {
        ("prop", [n, t]) => Some(TyEntry::Prop(atom(n)?.to_owned(), to_ty(t)?)),
        ("lit", [v, t]) => Some(TyEntry::Literal(unhex(atom(v)?)?, to_ty(t)?)),
        ("indexer", [k, v]) => Some(TyEntry::Indexer(to_ty(k)?, to_ty(v)?)),
        ("mod", [m, inner]) => Some(TyEntry::Mod(atom(m)? == "read", Box::new(to_entry(inner)?))),
        _ => None,
    }
}

pub fn ty_str(t: &Ty) -> String {
    match t {
        Ty::Name(n, a) => format!("(tname {}{})", n, args_str(a)),
        Ty::Field(ns, n, a) => format!("(tfield {} {}{})", ns, n, args_str(a)),
        Ty::Nil => "tnil".into(),
        Ty::True => "ttrue".into(),
        Ty::False => "tfalse".into(),
        Ty::Str(s) => format!("(tstr {})", hex(s)),
        Ty::Array(e) => format!("(tarray {})", ty_str(e)),
        Ty::Table(entries) => format!(
            "(ttable{})",
            entries.iter().map(|e| format!(" {}", entry_str(e))).collect::<String>()
        ),
        Ty::TypeOf(e) => format!("(ttypeof {})", super::sexp::ex_str(e)),
        Ty::Paren(t) => format!("(tparen {})", ty_str(t)),
        Ty::Func(g, args, v, r) => format!(
            "(tfunc {} ({}) {} {})",
            generics_str(g),
            args.iter()
                .map(|(n, t)| format!("(arg {} {})", n.as_deref().unwrap_or("-"), ty_str(t)))
                .collect::<Vec<_>>()
                .join(" "),
            v.as_ref().map_or("-".to_owned(), |v| var_str(v)),
            ret_str(r)
        ),
        Ty::Optional(t) => format!("(topt {})", ty_str(t)),
        Ty::Union(ts) => format!("(tunion {})", ts.iter().map(ty_str).collect::<Vec<_>>().join(" ")),
        Ty::Inter(ts) => format!("(tinter {})", ts.iter().map(ty_str).collect::<Vec<_>>().join(" ")),
    }
}

fn atom(s: &Sx) -> Option<&str> {
    match s {
        Sx::A(a) => Some(a),
        _ => None,
    }
}
fn head(s: &Sx) -> Option<(&str, &[Sx])> {
    match s {
        Sx::L(l) => Some((atom(l.first()?)?, &l[1..])),
        _ => None,
    }
}
fn list(s: &Sx) -> Option<&[Sx]> {
    match s {
        Sx::L(l) => Some(l),
        _ => None,
    }
}

pub fn to_var(s: &Sx) -> Option<TyVar> {
    match head(s)? {
        ("tvariadic", [t]) => Some(TyVar::Variadic(to_ty(t)?)),
        ("tgeneric", [n]) => Some(TyVar::Generic(atom(n)?.to_owned())),
        _ => None,
    }
}
fn to_opt_var(s: &Sx) -> Option<Option<TyVar>> {
    if atom(s) == Some("-") { Some(None) } else { to_var(s).map(Some) }
}
pub fn to_pack_sx(s: &Sx) -> Option<TyPack> {
    match head(s)? {
        ("tpack", [types, v]) => Some(TyPack {
            types: list(types)?.iter().map(to_ty).collect::<Option<_>>()?,
            variadic: to_opt_var(v)?,
        }),
        _ => None,
    }
}
fn to_args(items: &[Sx]) -> Option<Vec<TyArg>> {
    items
        .iter()
        .map(|s| {
            if let Some(p) = to_pack_sx(s) {
                Some(TyArg::Pack(p))
            } else if let Some(v) = to_var(s) {
                Some(TyArg::Var(v))
            } else {
                to_ty(s).map(TyArg::Ty)
            }
        })
        .collect()
}
pub fn to_ret(s: &Sx) -> Option<TyRet> {
    if let Some(p) = to_pack_sx(s) {
        Some(TyRet::Pack(p))
    } else if let Some(v) = to_var(s) {
        Some(TyRet::Var(v))
    } else {
        to_ty(s).map(TyRet::Ty)
    }
}
pub fn to_generics(s: &Sx) -> Option<Vec<Generic>> {
    list(s)?
        .iter()
        .map(|g| {
            if let Some(n) = atom(g) {
                return Some(Generic::Var(n.to_owned()));
            }
            match head(g)? {
                ("pack", [n]) => Some(Generic::Pack(atom(n)?.to_owned())),
                ("def", [n, t]) => Some(Generic::VarDefault(atom(n)?.to_owned(), to_ty(t)?)),
                ("packdef", [n, d]) => Some(Generic::PackDefault(
                    atom(n)?.to_owned(),
                    match to_pack_sx(d) {
                        Some(p) => PackDefault::Pack(p),
                        None => PackDefault::Var(to_var(d)?),
                    },
                )),
                _ => None,
            }
        })
        .collect()
}
pub fn to_ty(s: &Sx) -> Option<Ty> {
    if let Some(a) = atom(s) {
        return match a {
            "tnil" => Some(Ty::Nil),
            "ttrue" => Some(Ty::True),
            "tfalse" => Some(Ty::False),
            _ => None,
        };
    }
    let (h, rest) = head(s)?;
    Some(match (h, rest) {
        ("tname", [n, args @ ..]) => Ty::Name(atom(n)?.to_owned(), to_args(args)?),
        ("tfield", [ns, n, args @ ..]) => Ty::Field(atom(ns)?.to_owned(), atom(n)?.to_owned(), to_args(args)?),
        ("tstr", [v]) => Ty::Str(unhex(atom(v)?)?),
        ("tarray", [t]) => Ty::Array(Box::new(to_ty(t)?)),
        ("ttable", entries) => Ty::Table(
            entries.iter().map(to_entry).collect::<Option<_>>()?,
        ),
        ("ttypeof", [e]) => Ty::TypeOf(Box::new(super::sexp::to_ex(e)?)),
        ("tparen", [t]) => Ty::Paren(Box::new(to_ty(t)?)),
        ("tfunc", [g, args, v, r]) => Ty::Func(
            to_generics(g)?,
            list(args)?
                .iter()
                .map(|a| match head(a)? {
                    ("arg", [n, t]) => Some((
                        if atom(n) == Some("-") { None } else { Some(atom(n)?.to_owned()) },
                        to_ty(t)?,
                    )),
                    _ => None,
                })
                .collect::<Option<_>>()?,
            to_opt_var(v)?.map(Box::new),
            Box::new(to_ret(r)?),
        ),
        ("topt", [t]) => Ty::Optional(Box::new(to_ty(t)?)),
        ("tunion", ts) if ts.len() >= 2 => Ty::Union(ts.iter().map(to_ty).collect::<Option<_>>()?),
        ("tinter", ts) if ts.len() >= 2 => Ty::Inter(ts.iter().map(to_ty).collect::<Option<_>>()?),
        _ => return None,
    })
}

// ---------------------------------------------------------------- generator

const TYPE_NAMES: [&str; 6] = ["T", "number", "Foo", "string", "e1", "_K"];

pub fn gen_ty(rng: &mut Rng, d: usize) -> Ty {
    let name = |rng: &mut Rng| (*rng.pick(&TYPE_NAMES)).to_owned();
    if d == 0 {
        return match rng.below(8) {
            0 => Ty::Nil,
            1 => Ty::True,
            2 => Ty::False,
            3 => Ty::Str(rng.pick(&[&b"s"[..], b"", b"it's", b"a\nb"]).to_vec()),
            _ => Ty::Name(name(rng), vec![]),
        };
    }
    let d1 = d - 1;
    match rng.below(16) {
        0..=2 => gen_ty(rng, 0),
        3 => {
            let n = 1 + rng.below(2);
            Ty::Name(name(rng), (0..n).map(|_| gen_arg(rng, d1)).collect())
        }
        4 => Ty::Field(name(rng), name(rng), if rng.chance(1, 2) { vec![gen_arg(rng, d1)] } else { vec![] }),
        5 => Ty::Array(Box::new(gen_ty(rng, d1))),
        6 | 7 => {
            let n = rng.below(4);
            let mut entries: Vec<TyEntry> = (0..n)
                .map(|_| {
                    if rng.chance(1, 4) {
                        TyEntry::Literal(rng.pick(&[&b"k"[..], b"a b", b"]]"]).to_vec(), gen_ty(rng, d1))
                    } else {
                        TyEntry::Prop(name(rng), gen_ty(rng, d1))
                    }
                })
                .collect();
            if rng.chance(1, 3) {
                entries.push(TyEntry::Indexer(gen_ty(rng, d1), gen_ty(rng, d1)));
            }
            let entries = entries
                .into_iter()
                .map(|e| if rng.chance(1, 5) { TyEntry::Mod(rng.chance(1, 2), Box::new(e)) } else { e })
                .collect();
            Ty::Table(entries)
        }
        8 => Ty::TypeOf(Box::new(Ex::Id("a".into()))),
        9 => Ty::Paren(Box::new(gen_ty(rng, d1))),
        10 | 11 => {
            let n = rng.below(3);
            let generics = if rng.chance(1, 4) {
                vec![Generic::Var("G".into()), Generic::Pack("P".into())][..1 + rng.below(2)].to_vec()
            } else {
                vec![]
            };
            Ty::Func(
                generics,
                (0..n)
                    .map(|_| (if rng.chance(1, 2) { Some(name(rng)) } else { None }, gen_ty(rng, d1)))
                    .collect(),
                if rng.chance(1, 3) { Some(Box::new(gen_var(rng, d1))) } else { None },
                Box::new(gen_ret(rng, d1)),
            )
        }
        12 => Ty::Optional(Box::new(gen_ty(rng, d1))),
        13 | 14 => {
            let n = 2 + rng.below(2);
            Ty::Union((0..n).map(|_| gen_ty(rng, d1)).collect())
        }
        _ => {
            let n = 2 + rng.below(2);
            Ty::Inter((0..n).map(|_| gen_ty(rng, d1)).collect())
        }
    }
}

pub fn gen_var(rng: &mut Rng, d: usize) -> TyVar {
    if rng.chance(1, 2) { TyVar::Variadic(gen_ty(rng, d)) } else { TyVar::Generic("P".into()) }
}

fn gen_pack(rng: &mut Rng, d: usize) -> TyPack {
    // a pack of exactly one type and no variadic part reads as a parenthesised type: avoided
    let n = rng.below(4);
    let variadic = if rng.chance(1, 3) || n == 1 { Some(gen_var(rng, d)) } else { None };
    TyPack { types: (0..n).map(|_| gen_ty(rng, d)).collect(), variadic }
}

fn gen_arg(rng: &mut Rng, d: usize) -> TyArg {
    match rng.below(6) {
        0 => TyArg::Pack(gen_pack(rng, d)),
        1 => TyArg::Var(gen_var(rng, d)),
        _ => TyArg::Ty(gen_ty(rng, d)),
    }
}

pub fn gen_ret(rng: &mut Rng, d: usize) -> TyRet {
    match rng.below(6) {
        0 | 1 => TyRet::Pack(gen_pack(rng, d)),
        2 => TyRet::Var(gen_var(rng, d)),
        _ => TyRet::Ty(gen_ty(rng, d)),
    }
}
