//! The harness's own syntax tree for the Lua 5.1 ∩ Luau core, independent of darklua's nodes:
//! conversion to darklua nodes (public constructors only), from darklua nodes (getters only),
//! from the S-expressions printed by the Lean parser, and the comparison normal form.
use super::types::*;
use darklua_core::nodes as n;

#[derive(Clone, Debug, PartialEq)]
pub enum Num {
    Dec(f64),
    /// decimal with an explicit exponent form `with_exponent(e, uppercase)`
    DecExp(f64, i64, bool),
    Hex(u64, bool),
    Bin(u64, bool),
    /// exact value `m * 10^e`, m not divisible by 10 (or 0,0): what a parser reports
    Exact(u128, i32),
    /// something that has no exact small representation (compares by bits)
    Other(u64),
}

pub const UNOPS: [&str; 3] = ["len", "neg", "not"];
pub const BINOPS: [&str; 16] = [
    "and", "or", "eq", "ne", "lt", "le", "gt", "ge", "add", "sub", "mul", "div", "idiv", "mod", "pow",
    "concat",
];
pub const COMPOUND: [&str; 8] = ["add", "sub", "mul", "div", "idiv", "mod", "pow", "concat"];

#[derive(Clone, Debug, PartialEq)]
pub enum Args {
    Tuple(Vec<Ex>),
    Str(Vec<u8>),
    Table(Vec<Entry>),
}

#[derive(Clone, Debug, PartialEq)]
pub enum Entry {
    Val(Ex),
    Fld(String, Ex),
    Idx(Ex, Ex),
}

#[derive(Clone, Debug, PartialEq)]
pub struct Func {
    pub params: Vec<String>,
    pub variadic: bool,
    pub body: Blk,
    /// Luau types of the signature, when there are any
    pub sig: Option<Box<Sig>>,
}

#[derive(Clone, Debug, PartialEq)]
pub enum Ex {
    Nil,
    True,
    False,
    Varargs,
    Num(Num),
    Str(Vec<u8>),
    Id(String),
    Paren(Box<Ex>),
    Un(usize, Box<Ex>),
    Bin(usize, Box<Ex>, Box<Ex>),
    Field(Box<Ex>, String),
    Index(Box<Ex>, Box<Ex>),
    Call(Box<Ex>, Option<String>, Args),
    Func(Box<Func>),
    Table(Vec<Entry>),
    /// condition, result, elseif branches, else result
    IfExp(Box<Ex>, Box<Ex>, Vec<(Ex, Ex)>, Box<Ex>),
    /// `e :: Type`
    Cast(Box<Ex>, Ty),
    /// explicit type instantiation `prefix<<T, ...>>`
    Inst(Box<Ex>, Vec<Ty>),
    /// `prefix:method<<T, ...>>(args)`
    MethodInst(Box<Ex>, String, Vec<Ty>, Args),
    /// interpolated string: literal segments and `{value}` segments
    Interp(Vec<Seg>),
}

#[derive(Clone, Debug, PartialEq)]
pub enum Seg {
    Str(Vec<u8>),
    Val(Ex),
}

#[derive(Clone, Debug, PartialEq)]
pub enum St {
    Assign(Vec<Ex>, Vec<Ex>),
    Local(Vec<String>, Vec<Ex>),
    /// `local a: T, b = ...` (at least one annotation)
    LocalT(Vec<(String, Option<Ty>)>, Vec<Ex>),
    /// `const a[: T], b = ...` (Luau; AssignmentKind::Const). The generators pad it: `nil`
    /// values when there are more names than values and the last value is neither a call nor
    /// `...`; throwaway names when there are more values than names.
    Const(Vec<(String, Option<Ty>)>, Vec<Ex>),
    /// exported?, name, generic parameters, type
    TypeDecl(bool, String, Vec<Generic>, Ty),
    /// `[export] type function name(...) ... end`
    TypeFunction(bool, String, Func),
    /// generic for with at least one annotated variable
    GForT(Vec<(String, Option<Ty>)>, Vec<Ex>, Blk),
    /// numeric for with an annotated variable
    NForT(String, Ty, Ex, Ex, Option<Ex>, Blk),
    Do(Blk),
    CallSt(Ex),
    Compound(usize, Ex, Ex),
    Function(Vec<String>, Option<String>, Func),
    GFor(Vec<String>, Vec<Ex>, Blk),
    NFor(String, Ex, Ex, Option<Ex>, Blk),
    If(Vec<(Ex, Blk)>, Option<Blk>),
    LocalFn(String, Func),
    Repeat(Blk, Ex),
    While(Ex, Blk),
}

#[derive(Clone, Debug, PartialEq)]
pub enum Last {
    Return(Vec<Ex>),
    Break,
    Continue,
}

#[derive(Clone, Debug, PartialEq, Default)]
pub struct Blk {
    pub stmts: Vec<St>,
    pub last: Option<Last>,
}

// ---------------------------------------------------------------- numbers: exact value

fn norm10(mut m: u128, mut e: i32) -> Num {
    if m == 0 {
        return Num::Exact(0, 0);
    }
    while m % 10 == 0 {
        m /= 10;
        e += 1;
    }
    Num::Exact(m, e)
}

/// exact decimal value of a non-negative finite double, when it is small enough
pub fn exact_of_f64(v: f64) -> Num {
    if !v.is_finite() || v < 0.0 {
        return Num::Other(v.to_bits());
    }
    if v == 0.0 {
        return Num::Exact(0, 0);
    }
    let bits = v.to_bits();
    let exp = ((bits >> 52) & 0x7ff) as i32;
    let frac = bits & ((1u64 << 52) - 1);
    let (mut mant, mut e2) = if exp == 0 { (frac, -1074) } else { (frac | (1u64 << 52), exp - 1075) };
    while mant % 2 == 0 && e2 < 0 {
        mant /= 2;
        e2 += 1;
    }
    if e2 >= 0 {
        if e2 > 60 {
            return Num::Other(bits);
        }
        return norm10((mant as u128) << e2, 0);
    }
    let n = -e2;
    if n > 30 {
        return Num::Other(bits);
    }
    // mant / 2^n = mant * 5^n / 10^n
    let mut m = mant as u128;
    for _ in 0..n {
        m = match m.checked_mul(5) {
            Some(x) => x,
            None => return Num::Other(bits),
        };
    }
    norm10(m, -n)
}

impl Num {
    pub fn value(&self) -> f64 {
        match self {
            Num::Dec(v) | Num::DecExp(v, _, _) => *v,
            Num::Hex(v, _) | Num::Bin(v, _) => *v as f64,
            Num::Exact(m, e) => (*m as f64) * 10f64.powi(*e),
            Num::Other(b) => f64::from_bits(*b),
        }
    }
    pub fn is_negative(&self) -> bool {
        match self {
            Num::Dec(v) | Num::DecExp(v, _, _) => *v < 0.0 || (*v == 0.0 && v.is_sign_negative()),
            _ => false,
        }
    }
    /// the absolute value as a double, by bit pattern: number leaves are compared as
    /// correctly-rounded doubles (the source node's value against what each re-reader reads:
    /// the Lean parser rounds the literal with exact integer arithmetic, `ratToFloat`)
    pub fn bits_abs(&self) -> Num {
        let v = match self {
            Num::Dec(v) | Num::DecExp(v, _, _) => v.abs(),
            Num::Hex(v, _) | Num::Bin(v, _) => *v as f64,
            Num::Exact(m, e) => format!("{}e{}", m, e).parse::<f64>().unwrap_or(f64::NAN),
            Num::Other(b) => f64::from_bits(*b).abs(),
        };
        Num::Other(v.to_bits())
    }
    /// the value as an exact decimal (absolute value)
    pub fn exact_abs(&self) -> Num {
        match self {
            Num::Dec(v) | Num::DecExp(v, _, _) => exact_of_f64(v.abs()),
            Num::Hex(v, _) | Num::Bin(v, _) => norm10(*v as u128, 0),
            Num::Exact(m, e) => norm10(*m, *e),
            Num::Other(b) => Num::Other(*b),
        }
    }
}

// ---------------------------------------------------------------- to darklua nodes

fn binop(i: usize) -> n::BinaryOperator {
    use n::BinaryOperator::*;
    [
        And, Or, Equal, NotEqual, LowerThan, LowerOrEqualThan, GreaterThan, GreaterOrEqualThan, Plus,
        Minus, Asterisk, Slash, DoubleSlash, Percent, Caret, Concat,
    ][i]
}
pub fn binop_index(op: n::BinaryOperator) -> usize {
    (0..16).find(|i| binop(*i) == op).unwrap()
}
fn unop(i: usize) -> n::UnaryOperator {
    use n::UnaryOperator::*;
    [Length, Minus, Not][i]
}
fn unop_index(op: n::UnaryOperator) -> usize {
    (0..3).find(|i| unop(*i) == op).unwrap()
}
fn compound(i: usize) -> n::CompoundOperator {
    use n::CompoundOperator::*;
    [Plus, Minus, Asterisk, Slash, DoubleSlash, Percent, Caret, Concat][i]
}
fn compound_index(op: n::CompoundOperator) -> usize {
    (0..8).find(|i| compound(*i) == op).unwrap()
}

pub fn number_node(num: &Num) -> n::NumberExpression {
    match num {
        Num::Dec(v) => n::DecimalNumber::new(*v).into(),
        Num::DecExp(v, e, up) => n::DecimalNumber::new(*v).with_exponent(*e, *up).into(),
        Num::Hex(v, up) => n::HexNumber::new(*v, *up).into(),
        Num::Bin(v, up) => n::BinaryNumber::new(*v, *up).into(),
        Num::Exact(..) | Num::Other(..) => n::DecimalNumber::new(num.value()).into(),
    }
}

fn to_prefix(e: &Ex) -> n::Prefix {
    match e {
        Ex::Id(name) => n::Prefix::from_name(name.as_str()),
        Ex::Paren(inner) => n::ParentheseExpression::new(to_expr(inner)).into(),
        Ex::Field(p, name) => n::FieldExpression::new(to_prefix(p), name.as_str()).into(),
        Ex::Index(p, k) => n::IndexExpression::new(to_prefix(p), to_expr(k)).into(),
        Ex::Call(..) | Ex::MethodInst(..) => to_call(e).into(),
        Ex::Inst(p, types) => n::TypeInstantiationExpression::new(to_prefix(p), types.iter().map(to_type).collect()).into(),
        // anything else is not a prefix expression: wrap (generators never produce this)
        other => n::ParentheseExpression::new(to_expr(other)).into(),
    }
}

fn to_table(entries: &[Entry]) -> n::TableExpression {
    n::TableExpression::new(
        entries
            .iter()
            .map(|entry| match entry {
                Entry::Val(v) => n::TableEntry::from_value(to_expr(v)),
                Entry::Fld(name, v) => n::TableFieldEntry::new(name.as_str(), to_expr(v)).into(),
                Entry::Idx(k, v) => n::TableIndexEntry::new(to_expr(k), to_expr(v)).into(),
            })
            .collect(),
    )
}

fn to_call(e: &Ex) -> n::FunctionCall {
    match e {
        Ex::Call(p, method, args) => {
            let arguments: n::Arguments = match args {
                Args::Tuple(values) => {
                    n::TupleArguments::new(values.iter().map(to_expr).collect()).into()
                }
                Args::Str(s) => n::Arguments::String(n::StringExpression::from_value(s.clone())),
                Args::Table(entries) => n::Arguments::Table(to_table(entries)),
            };
            n::FunctionCall::new(
                to_prefix(p),
                arguments,
                method.as_ref().map(|m| n::Identifier::new(m.as_str())),
            )
        }
        Ex::MethodInst(p, method, types, args) => {
            let arguments: n::Arguments = match args {
                Args::Tuple(values) => n::TupleArguments::new(values.iter().map(to_expr).collect()).into(),
                Args::Str(s) => n::Arguments::String(n::StringExpression::from_value(s.clone())),
                Args::Table(entries) => n::Arguments::Table(to_table(entries)),
            };
            n::FunctionCall::new(to_prefix(p), arguments, None)
                .with_type_instantiation_method(method.as_str(), types.iter().map(to_type).collect())
        }
        _ => panic!("to_call on a non-call"),
    }
}

fn typed(names: &[String]) -> Vec<n::TypedIdentifier> {
    names.iter().map(|s| n::TypedIdentifier::new(s.as_str())).collect()
}

fn typed_params(f: &Func) -> Vec<n::TypedIdentifier> {
    f.params
        .iter()
        .enumerate()
        .map(|(i, name)| {
            let id = n::TypedIdentifier::new(name.as_str());
            match f.sig.as_ref().and_then(|s| s.param_types.get(i)).and_then(|t| t.as_ref()) {
                Some(t) => id.with_type(to_type(t)),
                None => id,
            }
        })
        .collect()
}

fn to_function(f: &Func) -> n::FunctionExpression {
    let mut node = n::FunctionExpression::new(to_block(&f.body), typed_params(f), f.variadic);
    if let Some(sig) = &f.sig {
        if let Some(g) = to_generic_parameters(&sig.generics) {
            node = node.with_generic_parameters(g);
        }
        if let Some(v) = &sig.variadic_type {
            node = node.with_variadic_type(to_function_variadic(v));
        }
        if let Some(r) = &sig.ret {
            node = node.with_return_type(to_return(r));
        }
        for a in &sig.attrs {
            node = node.with_attribute(n::NamedAttribute::new(a.as_str()));
        }
    }
    node
}

pub fn to_expr(e: &Ex) -> n::Expression {
    match e {
        Ex::Nil => n::Expression::nil(),
        Ex::True => n::Expression::from(true),
        Ex::False => n::Expression::from(false),
        Ex::Varargs => n::Expression::variable_arguments(),
        Ex::Num(num) => number_node(num).into(),
        Ex::Str(s) => n::StringExpression::from_value(s.clone()).into(),
        Ex::Id(name) => n::Expression::identifier(name.as_str()),
        Ex::Paren(inner) => n::ParentheseExpression::new(to_expr(inner)).into(),
        Ex::Un(op, x) => n::UnaryExpression::new(unop(*op), to_expr(x)).into(),
        Ex::Bin(op, l, r) => n::BinaryExpression::new(binop(*op), to_expr(l), to_expr(r)).into(),
        Ex::Field(p, name) => n::FieldExpression::new(to_prefix(p), name.as_str()).into(),
        Ex::Index(p, k) => n::IndexExpression::new(to_prefix(p), to_expr(k)).into(),
        Ex::Call(..) => to_call(e).into(),
        Ex::Func(f) => to_function(f).into(),
        Ex::Table(entries) => to_table(entries).into(),
        Ex::IfExp(c, r, branches, e) => {
            let mut node = n::IfExpression::new(to_expr(c), to_expr(r), to_expr(e));
            for (bc, br) in branches {
                node = node.with_branch(to_expr(bc), to_expr(br));
            }
            node.into()
        }
        Ex::Cast(inner, ty) => n::TypeCastExpression::new(to_expr(inner), to_type(ty)).into(),
        Ex::Inst(p, types) => n::TypeInstantiationExpression::new(to_prefix(p), types.iter().map(to_type).collect()).into(),
        Ex::MethodInst(..) => to_call(e).into(),
        Ex::Interp(segments) => {
            let mut node = n::InterpolatedStringExpression::empty();
            for seg in segments {
                node = match seg {
                    Seg::Str(s) => node.with_segment(n::StringSegment::from_value(s.clone())),
                    Seg::Val(v) => node.with_segment(n::ValueSegment::new(to_expr(v))),
                };
            }
            node.into()
        }
    }
}

fn to_variable(e: &Ex) -> n::Variable {
    match e {
        Ex::Id(name) => n::Variable::new(name.as_str()),
        Ex::Field(p, name) => n::FieldExpression::new(to_prefix(p), name.as_str()).into(),
        Ex::Index(p, k) => n::IndexExpression::new(to_prefix(p), to_expr(k)).into(),
        _ => panic!("not a variable"),
    }
}

pub fn to_statement(s: &St) -> n::Statement {
    match s {
        St::Assign(vars, vals) => n::AssignStatement::new(
            vars.iter().map(to_variable).collect(),
            vals.iter().map(to_expr).collect(),
        )
        .into(),
        St::Local(names, vals) => {
            n::VariableAssignment::new(typed(names), vals.iter().map(to_expr).collect()).into()
        }
        St::Const(names, vals) => n::VariableAssignment::new(
            names
                .iter()
                .map(|(name, t)| {
                    let id = n::TypedIdentifier::new(name.as_str());
                    match t {
                        Some(t) => id.with_type(to_type(t)),
                        None => id,
                    }
                })
                .collect(),
            vals.iter().map(to_expr).collect(),
        )
        .with_assignment_kind(n::AssignmentKind::Const)
        .into(),
        St::LocalT(names, vals) => n::VariableAssignment::new(
            names
                .iter()
                .map(|(name, t)| {
                    let id = n::TypedIdentifier::new(name.as_str());
                    match t {
                        Some(t) => id.with_type(to_type(t)),
                        None => id,
                    }
                })
                .collect(),
            vals.iter().map(to_expr).collect(),
        )
        .into(),
        St::TypeDecl(exported, name, generics, ty) => {
            let mut node = n::TypeDeclarationStatement::new(name.as_str(), to_type(ty));
            let mut params: Option<n::GenericParametersWithDefaults> = None;
            for g in generics {
                params = Some(match (g, params) {
                    (Generic::Var(v), None) => n::GenericParametersWithDefaults::from_type_variable(v.as_str()),
                    (Generic::Var(v), Some(p)) => p.with_type_variable(v.as_str()),
                    (Generic::VarDefault(v, t), None) => {
                        n::GenericParametersWithDefaults::from_type_variable_with_default(n::TypeVariableWithDefault::new(v.as_str(), to_type(t)))
                    }
                    (Generic::VarDefault(v, t), Some(p)) => {
                        p.with_type_variable_with_default(n::TypeVariableWithDefault::new(v.as_str(), to_type(t))).expect("generic default order")
                    }
                    (Generic::Pack(v), None) => {
                        n::GenericParametersWithDefaults::from_generic_type_pack(n::GenericTypePack::new(v.as_str()))
                    }
                    (Generic::Pack(v), Some(p)) => {
                        p.with_generic_type_pack(n::GenericTypePack::new(v.as_str())).expect("generic pack order")
                    }
                    (Generic::PackDefault(v, d), previous) => {
                        let default: n::GenericTypePackDefault = match d {
                            PackDefault::Pack(pack) => n::GenericTypePackDefault::TypePack(Box::new(to_pack(pack))),
                            PackDefault::Var(TyVar::Variadic(t)) => {
                                n::GenericTypePackDefault::VariadicTypePack(n::VariadicTypePack::new(to_type(t)))
                            }
                            PackDefault::Var(TyVar::Generic(g)) => {
                                n::GenericTypePackDefault::GenericTypePack(n::GenericTypePack::new(g.as_str()))
                            }
                        };
                        let with_default = n::GenericTypePackWithDefault::new(n::GenericTypePack::new(v.as_str()), default);
                        match previous {
                            None => n::GenericParametersWithDefaults::from_generic_type_pack_with_default(with_default),
                            Some(p) => p.with_generic_type_pack_with_default(with_default),
                        }
                    }
                });
            }
            if let Some(p) = params {
                node = node.with_generic_parameters(p);
            }
            if *exported {
                node = node.export();
            }
            node.into()
        }
        St::TypeFunction(exported, name, f) => {
            let mut node = n::TypeFunctionStatement::new(name.as_str(), to_block(&f.body), typed_params(f), f.variadic);
            if let Some(sig) = &f.sig {
                if let Some(g) = to_generic_parameters(&sig.generics) {
                    node = node.with_generic_parameters(g);
                }
                if let Some(v) = &sig.variadic_type {
                    node = node.with_variadic_type(to_function_variadic(v));
                }
                if let Some(r) = &sig.ret {
                    node = node.with_return_type(to_return(r));
                }
            }
            if *exported {
                node = node.export();
            }
            node.into()
        }
        St::GForT(names, exprs, b) => n::GenericForStatement::new(
            names
                .iter()
                .map(|(name, t)| {
                    let id = n::TypedIdentifier::new(name.as_str());
                    match t {
                        Some(t) => id.with_type(to_type(t)),
                        None => id,
                    }
                })
                .collect(),
            exprs.iter().map(to_expr).collect(),
            to_block(b),
        )
        .into(),
        St::NForT(name, t, a, b, step, body) => n::NumericForStatement::new(
            n::TypedIdentifier::new(name.as_str()).with_type(to_type(t)),
            to_expr(a),
            to_expr(b),
            step.as_ref().map(to_expr),
            to_block(body),
        )
        .into(),
        St::Do(b) => n::DoStatement::new(to_block(b)).into(),
        St::CallSt(c) => to_call(c).into(),
        St::Compound(op, var, val) => {
            n::CompoundAssignStatement::new(compound(*op), to_variable(var), to_expr(val)).into()
        }
        St::Function(names, method, f) => {
            let name = n::FunctionName::new(
                n::Identifier::new(names[0].as_str()),
                names[1..].iter().map(|s| n::Identifier::new(s.as_str())).collect(),
                method.as_ref().map(|m| n::Identifier::new(m.as_str())),
            );
            let mut node = n::FunctionStatement::new(name, to_block(&f.body), typed_params(f), f.variadic);
            if let Some(sig) = &f.sig {
                if let Some(g) = to_generic_parameters(&sig.generics) {
                    node = node.with_generic_parameters(g);
                }
                if let Some(v) = &sig.variadic_type {
                    node = node.with_variadic_type(to_function_variadic(v));
                }
                if let Some(r) = &sig.ret {
                    node = node.with_return_type(to_return(r));
                }
                for a in &sig.attrs {
                    node = node.with_attribute(n::NamedAttribute::new(a.as_str()));
                }
            }
            node.into()
        }
        St::GFor(names, exprs, b) => {
            n::GenericForStatement::new(typed(names), exprs.iter().map(to_expr).collect(), to_block(b))
                .into()
        }
        St::NFor(name, a, b, step, body) => n::NumericForStatement::new(
            n::TypedIdentifier::new(name.as_str()),
            to_expr(a),
            to_expr(b),
            step.as_ref().map(to_expr),
            to_block(body),
        )
        .into(),
        St::If(branches, else_block) => n::IfStatement::new(
            branches.iter().map(|(c, b)| n::IfBranch::new(to_expr(c), to_block(b))).collect(),
            else_block.as_ref().map(to_block),
        )
        .into(),
        St::LocalFn(name, f) => {
            let mut node =
                n::FunctionAssignment::new(n::Identifier::new(name.as_str()), to_block(&f.body), typed_params(f), f.variadic);
            if let Some(sig) = &f.sig {
                if let Some(g) = to_generic_parameters(&sig.generics) {
                    node = node.with_generic_parameters(g);
                }
                if let Some(v) = &sig.variadic_type {
                    node = node.with_variadic_type(to_function_variadic(v));
                }
                if let Some(r) = &sig.ret {
                    node = node.with_return_type(to_return(r));
                }
                for a in &sig.attrs {
                    node = node.with_attribute(n::NamedAttribute::new(a.as_str()));
                }
            }
            node.into()
        }
        St::Repeat(b, c) => n::RepeatStatement::new(to_block(b), to_expr(c)).into(),
        St::While(c, b) => n::WhileStatement::new(to_block(b), to_expr(c)).into(),
    }
}

pub fn to_block(b: &Blk) -> n::Block {
    let last: Option<n::LastStatement> = b.last.as_ref().map(|l| match l {
        Last::Return(values) => n::ReturnStatement::new(values.iter().map(to_expr).collect()).into(),
        Last::Break => n::LastStatement::new_break(),
        Last::Continue => n::LastStatement::new_continue(),
    });
    n::Block::new(b.stmts.iter().map(to_statement).collect(), last)
}

// ---------------------------------------------------------------- from darklua nodes

/// `Err(what)` when the node is outside the harness's core (types, attributes, ...).
pub fn from_expr(e: &n::Expression) -> Result<Ex, String> {
    use n::Expression as X;
    Ok(match e {
        X::Nil(_) => Ex::Nil,
        X::True(_) => Ex::True,
        X::False(_) => Ex::False,
        X::VariableArguments(_) => Ex::Varargs,
        X::Number(num) => Ex::Num(match num {
            n::NumberExpression::Decimal(d) => Num::Dec(d.compute_value()),
            n::NumberExpression::Hex(h) => {
                if h.get_exponent().is_some() {
                    Num::Dec(h.compute_value())
                } else {
                    Num::Hex(h.get_raw_integer(), h.is_x_uppercase())
                }
            }
            n::NumberExpression::Binary(b) => Num::Bin(b.get_raw_value(), b.is_b_uppercase()),
        }),
        X::String(s) => Ex::Str(s.get_value().to_vec()),
        X::Identifier(id) => Ex::Id(id.get_name().clone()),
        X::Parenthese(p) => Ex::Paren(Box::new(from_expr(p.inner_expression())?)),
        X::Unary(u) => Ex::Un(unop_index(u.operator()), Box::new(from_expr(u.get_expression())?)),
        X::Binary(b) => Ex::Bin(
            binop_index(b.operator()),
            Box::new(from_expr(b.left())?),
            Box::new(from_expr(b.right())?),
        ),
        X::Field(f) => from_field(f)?,
        X::Index(i) => from_index(i)?,
        X::Call(c) => from_call(c)?,
        X::Function(f) => {
            Ex::Func(Box::new(Func {
                params: f.iter_parameters().map(|p| p.get_name().clone()).collect(),
                variadic: f.is_variadic(),
                body: from_block(f.get_block())?,
                sig: sig_of(f.iter_parameters(), f.get_generic_parameters(), f.get_variadic_type(), f.get_return_type(), Some(f.attributes()))?,
            }))
        }
        X::Table(t) => Ex::Table(from_entries(t)?),
        X::If(i) => Ex::IfExp(
            Box::new(from_expr(i.get_condition())?),
            Box::new(from_expr(i.get_result())?),
            i.iter_branches()
                .map(|b| Ok((from_expr(b.get_condition())?, from_expr(b.get_result())?)))
                .collect::<Result<Vec<_>, String>>()?,
            Box::new(from_expr(i.get_else_result())?),
        ),
        X::TypeCast(c) => Ex::Cast(Box::new(from_expr(c.get_expression())?), from_type(c.get_type())?),
        X::InterpolatedString(i) => Ex::Interp(
            i.iter_segments()
                .map(|seg| {
                    Ok(match seg {
                        n::InterpolationSegment::String(s) => Seg::Str(s.get_value().to_vec()),
                        n::InterpolationSegment::Value(v) => Seg::Val(from_expr(v.get_expression())?),
                    })
                })
                .collect::<Result<_, String>>()?,
        ),
        X::TypeInstantiation(t) => from_inst(t)?,
    })
}

fn from_entries(t: &n::TableExpression) -> Result<Vec<Entry>, String> {
    t.iter_entries()
        .map(|entry| {
            Ok(match entry {
                n::TableEntry::Value(v) => Entry::Val(from_expr(v)?),
                n::TableEntry::Field(f) => {
                    Entry::Fld(f.get_field().get_name().clone(), from_expr(f.get_value())?)
                }
                n::TableEntry::Index(i) => Entry::Idx(from_expr(i.get_key())?, from_expr(i.get_value())?),
            })
        })
        .collect()
}

fn from_prefix(p: &n::Prefix) -> Result<Ex, String> {
    Ok(match p {
        n::Prefix::Identifier(id) => Ex::Id(id.get_name().clone()),
        n::Prefix::Parenthese(p) => Ex::Paren(Box::new(from_expr(p.inner_expression())?)),
        n::Prefix::Field(f) => from_field(f)?,
        n::Prefix::Index(i) => from_index(i)?,
        n::Prefix::Call(c) => from_call(c)?,
        n::Prefix::TypeInstantiation(t) => from_inst(t)?,
    })
}

fn from_inst(t: &n::TypeInstantiationExpression) -> Result<Ex, String> {
    Ok(Ex::Inst(Box::new(from_prefix(t.get_prefix())?), t.iter_types().map(from_type).collect::<Result<_, _>>()?))
}

fn from_field(f: &n::FieldExpression) -> Result<Ex, String> {
    Ok(Ex::Field(Box::new(from_prefix(f.get_prefix())?), f.get_field().get_name().clone()))
}
fn from_index(i: &n::IndexExpression) -> Result<Ex, String> {
    Ok(Ex::Index(Box::new(from_prefix(i.get_prefix())?), Box::new(from_expr(i.get_index())?)))
}
fn from_call(c: &n::FunctionCall) -> Result<Ex, String> {
    let args = match c.get_arguments() {
        n::Arguments::Tuple(t) => Args::Tuple(t.iter_values().map(from_expr).collect::<Result<_, _>>()?),
        n::Arguments::String(s) => Args::Str(s.get_value().to_vec()),
        n::Arguments::Table(t) => Args::Table(from_entries(t)?),
    };
    if c.has_method_type_instantiation() {
        return Ok(Ex::MethodInst(
            Box::new(from_prefix(c.get_prefix())?),
            c.get_method().map(|m| m.get_name().clone()).unwrap_or_default(),
            c.get_method_type_instantiation().map(from_type).collect::<Result<_, _>>()?,
            args,
        ));
    }
    Ok(Ex::Call(
        Box::new(from_prefix(c.get_prefix())?),
        c.get_method().map(|m| m.get_name().clone()),
        args,
    ))
}

fn sig_of<'a>(
    params: impl Iterator<Item = &'a n::TypedIdentifier>,
    generics: Option<&n::GenericParameters>,
    variadic: Option<&n::FunctionVariadicType>,
    ret: Option<&n::FunctionReturnType>,
    attributes: Option<&n::Attributes>,
) -> Result<Option<Box<Sig>>, String> {
    let mut attrs = Vec::new();
    if let Some(attributes) = attributes {
        for a in attributes.iter_attributes() {
            match a {
                n::Attribute::Name(named) => attrs.push(named.get_identifier().get_name().clone()),
                n::Attribute::Group(_) => return Err("attribute group".into()),
            }
        }
    }
    let sig = Sig {
        attrs,
        generics: from_generic_parameters(generics),
        param_types: params
            .map(|p| match p.get_type() {
                Some(t) => from_type(t).map(Some),
                None => Ok(None),
            })
            .collect::<Result<_, _>>()?,
        variadic_type: match variadic {
            Some(v) => Some(from_function_variadic(v)?),
            None => None,
        },
        ret: match ret {
            Some(r) => Some(from_return(r)?),
            None => None,
        },
    };
    Ok(if sig.is_empty() { None } else { Some(Box::new(sig)) })
}

fn plain_names<'a>(ids: impl Iterator<Item = &'a n::TypedIdentifier>) -> Vec<String> {
    ids.map(|p| p.get_name().clone()).collect()
}

fn names_of<'a>(ids: impl Iterator<Item = &'a n::TypedIdentifier>) -> Result<Vec<String>, String> {
    ids.map(|p| if p.has_type() { Err("typed identifier".to_owned()) } else { Ok(p.get_name().clone()) })
        .collect()
}

fn from_variable(v: &n::Variable) -> Result<Ex, String> {
    match v {
        n::Variable::Identifier(id) => Ok(Ex::Id(id.get_name().clone())),
        n::Variable::Field(f) => from_field(f),
        n::Variable::Index(i) => from_index(i),
    }
}

pub fn from_statement(s: &n::Statement) -> Result<St, String> {
    use n::Statement as S;
    Ok(match s {
        S::Assign(a) => St::Assign(
            a.get_variables().iter().map(from_variable).collect::<Result<_, _>>()?,
            a.iter_values().map(from_expr).collect::<Result<_, _>>()?,
        ),
        S::LocalAssign(a) => {
            let values = a.iter_values().map(from_expr).collect::<Result<_, _>>()?;
            if a.get_assignment_kind() != n::AssignmentKind::Local {
                return Ok(St::Const(
                    a.iter_variables()
                        .map(|v| {
                            Ok((
                                v.get_name().clone(),
                                match v.get_type() {
                                    Some(t) => Some(from_type(t)?),
                                    None => None,
                                },
                            ))
                        })
                        .collect::<Result<_, String>>()?,
                    values,
                ));
            }
            if a.iter_variables().any(|v| v.has_type()) {
                St::LocalT(
                    a.iter_variables()
                        .map(|v| {
                            Ok((
                                v.get_name().clone(),
                                match v.get_type() {
                                    Some(t) => Some(from_type(t)?),
                                    None => None,
                                },
                            ))
                        })
                        .collect::<Result<_, String>>()?,
                    values,
                )
            } else {
                St::Local(plain_names(a.iter_variables()), values)
            }
        }
        S::Do(d) => St::Do(from_block(d.get_block())?),
        S::Call(c) => St::CallSt(from_call(c)?),
        S::CompoundAssign(c) => St::Compound(
            compound_index(c.get_operator()),
            from_variable(c.get_variable())?,
            from_expr(c.get_value())?,
        ),
        S::Function(f) => {
            let name = f.get_name();
            let mut names = vec![name.get_name().get_name().clone()];
            names.extend(name.get_field_names().iter().map(|i| i.get_name().clone()));
            St::Function(
                names,
                name.get_method().map(|m| m.get_name().clone()),
                Func {
                    params: plain_names(f.iter_parameters()),
                    variadic: f.is_variadic(),
                    body: from_block(f.get_block())?,
                    sig: sig_of(f.iter_parameters(), f.get_generic_parameters(), f.get_variadic_type(), f.get_return_type(), Some(f.attributes()))?,
                },
            )
        }
        S::GenericFor(g) => {
            let exprs = g.iter_expressions().map(from_expr).collect::<Result<_, _>>()?;
            let body = from_block(g.get_block())?;
            if g.iter_identifiers().any(|i| i.has_type()) {
                St::GForT(
                    g.iter_identifiers()
                        .map(|v| {
                            Ok((
                                v.get_name().clone(),
                                match v.get_type() {
                                    Some(t) => Some(from_type(t)?),
                                    None => None,
                                },
                            ))
                        })
                        .collect::<Result<_, String>>()?,
                    exprs,
                    body,
                )
            } else {
                St::GFor(plain_names(g.iter_identifiers()), exprs, body)
            }
        }
        S::NumericFor(f) => {
            let step = match f.get_step() {
                Some(s) => Some(from_expr(s)?),
                None => None,
            };
            let name = f.get_identifier().get_name().clone();
            match f.get_identifier().get_type() {
                Some(t) => St::NForT(name, from_type(t)?, from_expr(f.get_start())?, from_expr(f.get_end())?, step, from_block(f.get_block())?),
                None => St::NFor(name, from_expr(f.get_start())?, from_expr(f.get_end())?, step, from_block(f.get_block())?),
            }
        }
        S::If(i) => St::If(
            i.iter_branches()
                .map(|b| Ok((from_expr(b.get_condition())?, from_block(b.get_block())?)))
                .collect::<Result<Vec<_>, String>>()?,
            match i.get_else_block() {
                Some(b) => Some(from_block(b)?),
                None => None,
            },
        ),
        S::LocalFunction(f) => {
            St::LocalFn(
                f.get_name().to_owned(),
                Func {
                    params: plain_names(f.iter_parameters()),
                    variadic: f.is_variadic(),
                    body: from_block(f.get_block())?,
                    sig: sig_of(f.iter_parameters(), f.get_generic_parameters(), f.get_variadic_type(), f.get_return_type(), Some(f.attributes()))?,
                },
            )
        }
        S::Repeat(r) => St::Repeat(from_block(r.get_block())?, from_expr(r.get_condition())?),
        S::While(w) => St::While(from_expr(w.get_condition())?, from_block(w.get_block())?),
        S::TypeDeclaration(t) => {
            let mut generics = Vec::new();
            if let Some(params) = t.get_generic_parameters() {
                for p in params.iter() {
                    generics.push(match p {
                        n::GenericParameterRef::TypeVariable(v) => Generic::Var(v.get_name().clone()),
                        n::GenericParameterRef::TypeVariableWithDefault(v) => {
                            Generic::VarDefault(v.get_type_variable().get_name().clone(), from_type(v.get_default_type())?)
                        }
                        n::GenericParameterRef::GenericTypePack(p) => Generic::Pack(p.get_name().get_name().clone()),
                        n::GenericParameterRef::GenericTypePackWithDefault(p) => Generic::PackDefault(
                            p.get_generic_type_pack().get_name().get_name().clone(),
                            match p.get_default_type() {
                                n::GenericTypePackDefault::TypePack(pack) => PackDefault::Pack(from_pack(pack)?),
                                n::GenericTypePackDefault::VariadicTypePack(v) => {
                                    PackDefault::Var(TyVar::Variadic(from_type(v.get_type())?))
                                }
                                n::GenericTypePackDefault::GenericTypePack(g) => {
                                    PackDefault::Var(TyVar::Generic(g.get_name().get_name().clone()))
                                }
                            },
                        ),
                    });
                }
            }
            St::TypeDecl(t.is_exported(), t.get_name().get_name().clone(), generics, from_type(t.get_type())?)
        }
        S::TypeFunction(f) => St::TypeFunction(
            f.is_exported(),
            f.get_identifier().get_name().clone(),
            Func {
                params: plain_names(f.iter_parameters()),
                variadic: f.is_variadic(),
                body: from_block(f.get_block())?,
                sig: sig_of(f.iter_parameters(), f.get_generic_parameters(), f.get_variadic_type(), f.get_return_type(), None)?,
            },
        ),
    })
}

pub fn from_block(b: &n::Block) -> Result<Blk, String> {
    let stmts = b.iter_statements().map(from_statement).collect::<Result<Vec<_>, _>>()?;
    let last = match b.get_last_statement() {
        None => None,
        Some(n::LastStatement::Break(_)) => Some(Last::Break),
        Some(n::LastStatement::Continue(_)) => Some(Last::Continue),
        Some(n::LastStatement::Return(r)) => {
            Some(Last::Return(r.iter_expressions().map(from_expr).collect::<Result<_, _>>()?))
        }
    };
    Ok(Blk { stmts, last })
}

// ---------------------------------------------------------------- comparison normal form

fn strip(e: Ex) -> Ex {
    match e {
        Ex::Paren(inner) => strip(*inner),
        other => other,
    }
}

/// Normal form for comparison: numbers by exact value (a negative literal is a unary minus on
/// its absolute value, as every lexer reads it), and parentheses that are the direct operand
/// of a unary/binary operator or of a type assertion removed (single-value positions).
/// Parentheses anywhere else are kept.
pub fn norm_expr(e: &Ex) -> Ex {
    let operand = |x: &Ex| Box::new(strip(norm_expr(x)));
    match e {
        Ex::Nil | Ex::True | Ex::False | Ex::Varargs | Ex::Str(_) | Ex::Id(_) => e.clone(),
        Ex::Num(num) => {
            if num.is_negative() {
                Ex::Un(1, Box::new(Ex::Num(num.bits_abs())))
            } else {
                Ex::Num(num.bits_abs())
            }
        }
        Ex::Paren(x) => Ex::Paren(Box::new(norm_expr(x))),
        Ex::Un(op, x) => Ex::Un(*op, operand(x)),
        Ex::Bin(op, l, r) => Ex::Bin(*op, operand(l), operand(r)),
        Ex::Field(p, name) => Ex::Field(Box::new(norm_expr(p)), name.clone()),
        Ex::Index(p, k) => Ex::Index(Box::new(norm_expr(p)), Box::new(norm_expr(k))),
        Ex::Call(p, m, args) => Ex::Call(Box::new(norm_expr(p)), m.clone(), norm_args(args)),
        Ex::Func(f) => Ex::Func(Box::new(norm_func(f))),
        Ex::Table(entries) => Ex::Table(norm_entries(entries)),
        Ex::IfExp(c, r, branches, e) => Ex::IfExp(
            Box::new(norm_expr(c)),
            Box::new(norm_expr(r)),
            branches.iter().map(|(a, b)| (norm_expr(a), norm_expr(b))).collect(),
            Box::new(norm_expr(e)),
        ),
        Ex::Cast(x, ty) => Ex::Cast(operand(x), norm_ty(ty)),
        Ex::Inst(p, types) => Ex::Inst(Box::new(norm_expr(p)), types.iter().map(norm_ty).collect()),
        Ex::MethodInst(p, m, types, args) => {
            Ex::MethodInst(Box::new(norm_expr(p)), m.clone(), types.iter().map(norm_ty).collect(), norm_args(args))
        }
        // adjacent literal segments and empty ones are one literal for every reader
        Ex::Interp(segments) => {
            let mut out: Vec<Seg> = Vec::new();
            for seg in segments {
                match seg {
                    Seg::Str(s) if s.is_empty() => {}
                    Seg::Str(s) => {
                        if let Some(Seg::Str(last)) = out.last_mut() {
                            last.extend_from_slice(s);
                        } else {
                            out.push(Seg::Str(s.clone()));
                        }
                    }
                    Seg::Val(v) => out.push(Seg::Val(norm_expr(v))),
                }
            }
            Ex::Interp(out)
        }
    }
}

fn norm_entries(entries: &[Entry]) -> Vec<Entry> {
    entries
        .iter()
        .map(|entry| match entry {
            Entry::Val(v) => Entry::Val(norm_expr(v)),
            Entry::Fld(n, v) => Entry::Fld(n.clone(), norm_expr(v)),
            Entry::Idx(k, v) => Entry::Idx(norm_expr(k), norm_expr(v)),
        })
        .collect()
}

fn norm_args(args: &Args) -> Args {
    match args {
        Args::Tuple(values) => Args::Tuple(values.iter().map(norm_expr).collect()),
        Args::Str(s) => Args::Str(s.clone()),
        Args::Table(entries) => Args::Table(norm_entries(entries)),
    }
}

fn norm_func(f: &Func) -> Func {
    Func {
        params: f.params.clone(),
        variadic: f.variadic,
        body: norm_block(&f.body),
        sig: f.sig.as_ref().filter(|s| !s.is_empty()).map(|s| Box::new(norm_sig(s))),
    }
}

pub fn norm_block(b: &Blk) -> Blk {
    let exprs = |v: &Vec<Ex>| v.iter().map(norm_expr).collect::<Vec<_>>();
    Blk {
        stmts: b
            .stmts
            .iter()
            .map(|s| match s {
                St::Assign(a, v) => St::Assign(exprs(a), exprs(v)),
                St::Local(n, v) => St::Local(n.clone(), exprs(v)),
                St::LocalT(n, v) => {
                    if n.iter().all(|(_, t)| t.is_none()) {
                        St::Local(n.iter().map(|(name, _)| name.clone()).collect(), exprs(v))
                    } else {
                        St::LocalT(n.iter().map(|(name, t)| (name.clone(), t.as_ref().map(norm_ty))).collect(), exprs(v))
                    }
                }
                // the text of a `const` declaration is the PADDED declaration (see St::Const)
                St::Const(n, v) => {
                    let mut names: Vec<(String, Option<Ty>)> =
                        n.iter().map(|(name, t)| (name.clone(), t.as_ref().map(norm_ty))).collect();
                    let mut values = exprs(v);
                    if values.len() > names.len() {
                        while names.len() < values.len() {
                            names.push(("____darklua_throwaway_var".to_owned(), None));
                        }
                    } else if names.len() > values.len()
                        && !matches!(v.last(), Some(Ex::Call(..)) | Some(Ex::MethodInst(..)) | Some(Ex::Varargs))
                    {
                        while values.len() < names.len() {
                            values.push(Ex::Nil);
                        }
                    }
                    St::Const(names, values)
                }
                St::TypeDecl(e, name, g, t) => St::TypeDecl(*e, name.clone(), norm_generics(g), norm_ty(t)),
                St::TypeFunction(e, name, f) => St::TypeFunction(*e, name.clone(), norm_func(f)),
                St::GForT(n, e, b) => {
                    if n.iter().all(|(_, t)| t.is_none()) {
                        St::GFor(n.iter().map(|(name, _)| name.clone()).collect(), exprs(e), norm_block(b))
                    } else {
                        St::GForT(n.iter().map(|(name, t)| (name.clone(), t.as_ref().map(norm_ty))).collect(), exprs(e), norm_block(b))
                    }
                }
                St::NForT(n, t, a, b, s, body) => {
                    St::NForT(n.clone(), norm_ty(t), norm_expr(a), norm_expr(b), s.as_ref().map(norm_expr), norm_block(body))
                }
                St::Do(b) => St::Do(norm_block(b)),
                St::CallSt(c) => St::CallSt(norm_expr(c)),
                St::Compound(op, var, val) => St::Compound(*op, norm_expr(var), norm_expr(val)),
                St::Function(n, m, f) => St::Function(n.clone(), m.clone(), norm_func(f)),
                St::GFor(n, e, b) => St::GFor(n.clone(), exprs(e), norm_block(b)),
                St::NFor(n, a, b, s, body) => St::NFor(
                    n.clone(),
                    norm_expr(a),
                    norm_expr(b),
                    s.as_ref().map(norm_expr),
                    norm_block(body),
                ),
                St::If(br, e) => St::If(
                    br.iter().map(|(c, b)| (norm_expr(c), norm_block(b))).collect(),
                    e.as_ref().map(norm_block),
                ),
                St::LocalFn(n, f) => St::LocalFn(n.clone(), norm_func(f)),
                St::Repeat(b, c) => St::Repeat(norm_block(b), norm_expr(c)),
                St::While(c, b) => St::While(norm_expr(c), norm_block(b)),
            })
            .collect(),
        last: b.last.as_ref().map(|l| match l {
            Last::Return(v) => Last::Return(exprs(v)),
            other => other.clone(),
        }),
    }
}

// ---------------------------------------------------------------- trace shape

/// number of calls with a tuple argument list `( ... )` in the tree (each must be opened by
/// `merge_char('(')` in the dense generator, which keeps the `(` on the callee's line)
pub fn count_tuple_arguments(b: &Blk) -> usize {
    fn entries(t: &[Entry]) -> usize {
        t.iter()
            .map(|e| match e {
                Entry::Val(v) | Entry::Fld(_, v) => ex(v),
                Entry::Idx(k, v) => ex(k) + ex(v),
            })
            .sum()
    }
    fn ty(t: &Ty) -> usize {
        // only `typeof(e)` holds expressions
        match t {
            Ty::TypeOf(e) => ex(e),
            _ => 0,
        }
    }
    fn func(f: &Func) -> usize {
        count_tuple_arguments(&f.body)
    }
    fn ex(e: &Ex) -> usize {
        match e {
            Ex::Nil | Ex::True | Ex::False | Ex::Varargs | Ex::Str(_) | Ex::Id(_) | Ex::Num(_) => 0,
            Ex::Paren(x) | Ex::Un(_, x) | Ex::Field(x, _) => ex(x),
            Ex::Cast(x, t) => ex(x) + ty(t),
            Ex::Inst(p, types) => ex(p) + types.iter().map(ty).sum::<usize>(),
            Ex::Interp(segments) => segments
                .iter()
                .map(|s| match s {
                    Seg::Str(_) => 0,
                    Seg::Val(v) => ex(v),
                })
                .sum(),
            Ex::Bin(_, l, r) | Ex::Index(l, r) => ex(l) + ex(r),
            Ex::Call(p, _, a) | Ex::MethodInst(p, _, _, a) => {
                ex(p)
                    + match a {
                        Args::Tuple(v) => 1 + v.iter().map(ex).sum::<usize>(),
                        Args::Str(_) => 0,
                        Args::Table(t) => entries(t),
                    }
            }
            Ex::Func(f) => func(f),
            Ex::Table(t) => entries(t),
            Ex::IfExp(c, r, br, e) => ex(c) + ex(r) + ex(e) + br.iter().map(|(a, b)| ex(a) + ex(b)).sum::<usize>(),
        }
    }
    let exs = |v: &Vec<Ex>| v.iter().map(ex).sum::<usize>();
    b.stmts
        .iter()
        .map(|s| match s {
            St::Assign(a, v) => exs(a) + exs(v),
            St::Local(_, v) | St::LocalT(_, v) | St::Const(_, v) => exs(v),
            St::TypeDecl(..) => 0,
            St::TypeFunction(_, _, f) => func(f),
            St::GForT(_, e, b) => exs(e) + count_tuple_arguments(b),
            St::NForT(_, _, a, b2, s, body) => ex(a) + ex(b2) + s.as_ref().map_or(0, ex) + count_tuple_arguments(body),
            St::Do(b) => count_tuple_arguments(b),
            St::CallSt(c) => ex(c),
            St::Compound(_, a, b) => ex(a) + ex(b),
            St::Function(_, _, f) | St::LocalFn(_, f) => func(f),
            St::GFor(_, e, b) => exs(e) + count_tuple_arguments(b),
            St::NFor(_, a, b2, s, body) => ex(a) + ex(b2) + s.as_ref().map_or(0, ex) + count_tuple_arguments(body),
            St::If(br, e) => br.iter().map(|(c, b)| ex(c) + count_tuple_arguments(b)).sum::<usize>() + e.as_ref().map_or(0, count_tuple_arguments),
            St::Repeat(b, c) => count_tuple_arguments(b) + ex(c),
            St::While(c, b) => ex(c) + count_tuple_arguments(b),
        })
        .sum::<usize>()
        + match &b.last {
            Some(Last::Return(v)) => exs(v),
            _ => 0,
        }
}
