// included by c05.rs: the checks on one rendered graph, shrinking, known findings, `run`

#[derive(Clone, Debug)]
pub struct Failure {
    pub kind: &'static str,
    pub check: String,
    pub what: String,
    pub detail: Value,
}

#[derive(Clone, Copy, Debug)]
pub struct Combo {
    pub generator: &'static str,
    pub rules: bool,
}

pub const GENERATORS: [&str; 3] = ["readable", "dense", "retain_lines"];

#[derive(Default)]
pub struct Stats {
    pub counts: BTreeMap<String, u64>,
}
impl Stats {
    fn add(&mut self, k: &str) {
        *self.counts.entry(k.to_owned()).or_default() += 1;
    }
}

fn errors_agree(_r: &Rendered, model: &[(String, Vec<String>)], real: &[(String, Vec<String>)]) -> bool {
    model.len() == real.len()
        && model.iter().zip(real.iter()).all(|(m, x)| {
            m.0 == x.0 && m.1 == x.1
        })
}

/// every check on one graph. `combos[0]` must have `rules == false` (structure is compared there).
pub fn check_rendered(model: &mut Model, stats: &mut Stats, r: &Rendered, combos: &[Combo]) -> Vec<Failure> {
    let mut failures = Vec::new();
    let exp = expectation(r);
    let mb = match model_inline(model, r) {
        Ok(mb) => mb,
        Err(e) => {
            failures.push(Failure { kind: "correspondence", check: "model:protocol".into(), what: format!("model answer unreadable: {}", e), detail: json!({}) });
            return failures;
        }
    };
    if mb.errors.iter().any(|e| e.0 == "fuel") {
        failures.push(Failure { kind: "correspondence", check: "model:fuel".into(), what: "the model ran out of fuel".into(), detail: json!({}) });
    }
    let mut reference_outcome: Option<String> = None;
    for (ci, combo) in combos.iter().enumerate() {
        let rules: &[&str] = if combo.rules { &DEFAULT_RULES } else { &[] };
        let real = if exp.cyclic { stats.add("isolated_in_child_process"); run_real_isolated(r, combo.generator, rules) } else { run_real(r, combo.generator, rules) };
        let tag = format!("{}{}", combo.generator, if combo.rules { "+rules" } else { "" });
        match &real {
            Real::Panic(msg) => {
                failures.push(Failure { kind: "oracle", check: "crash".into(), what: format!("the bundler panicked: {}", msg), detail: json!({"combo": tag}) });
                continue;
            }
            Real::Timeout => {
                failures.push(Failure { kind: "oracle", check: "hang".into(), what: "the bundler did not return within 300 s".into(), detail: json!({"combo": tag}) });
                continue;
            }
            _ => {}
        }
        // ---------------- correspondence with the Lean model
        match &real {
            Real::Ok(output) => {
                stats.add("real_ok");
                if !mb.errors.is_empty() {
                    failures.push(Failure { kind: "correspondence", check: "outcome".into(), what: "real bundling succeeds, the model collects errors".into(), detail: json!({"combo": tag, "model_errors": format!("{:?}", mb.errors)}) });
                } else if ci == 0 {
                    match (exec::parse(output), expected_bundle(model, r, &mb)) {
                        (Ok(block), Ok(expected)) => {
                            stats.add("structure_compared");
                            let got = astsexp::block_to_sexp(&block);
                            if got != expected {
                                let common = got.bytes().zip(expected.bytes()).take_while(|(a, b)| a == b).count();
                                let window = |s: &str| s.chars().skip(common.saturating_sub(80)).take(260).collect::<String>();
                                failures.push(Failure { kind: "correspondence", check: "structure".into(), what: "the re-parsed real bundle is not the model's assemble(…) of the rewritten sources (definitions, order, names, accessor template or a call-site rewrite differ)".into(), detail: json!({"combo": tag, "real_at_difference": window(&got), "model_at_difference": window(&expected), "output": output}) });
                            }
                        }
                        (Err(e), _) => failures.push(Failure { kind: "oracle", check: "reparse".into(), what: format!("the bundle does not parse: {}", e), detail: json!({"combo": tag, "output": output}) }),
                        (_, Err(e)) => failures.push(Failure { kind: "correspondence", check: "structure:sites".into(), what: format!("cannot build the model's bundle: {}", e), detail: json!({"combo": tag}) }),
                    }
                }
            }
            Real::Errors(message) => {
                stats.add("real_errors");
                let real_errors = parse_real_errors(message);
                if mb.errors.is_empty() {
                    failures.push(Failure { kind: "correspondence", check: "outcome".into(), what: "real bundling fails, the model reports no error".into(), detail: json!({"combo": tag, "message": message}) });
                } else if !errors_agree(r, &mb.errors, &real_errors) {
                    failures.push(Failure { kind: "correspondence", check: "errors".into(), what: "error list (kinds, named files, order) differs between the model and the real bundler".into(), detail: json!({"combo": tag, "message": message, "real": format!("{:?}", real_errors), "model": format!("{:?}", mb.errors)}) });
                } else {
                    stats.add("errors_compared");
                }
            }
            _ => {}
        }
        // ---------------- the property itself
        if exp.module_shadow {
            // F8 is fixed: shadowing inside required modules is judged like everything else
            stats.add("module_level_shadowing");
        }
        if !exp.clean() {
            match &real {
                Real::Ok(output) => failures.push(Failure { kind: "oracle", check: "defect-accepted".into(), what: format!("a cyclic / missing / malformed graph was bundled without error (must name {:?}, cyclic={})", exp.must_name, exp.cyclic), detail: json!({"combo": tag, "output": output}) }),
                Real::Errors(message) => {
                    for path in &exp.must_name {
                        if !message.contains(&format!("`{}`", path)) {
                            failures.push(Failure { kind: "oracle", check: "error-names-files".into(), what: format!("the error does not name `{}`", path), detail: json!({"combo": tag, "message": message}) });
                        }
                    }
                    if exp.cyclic {
                        let cycles: Vec<_> = parse_real_errors(message).into_iter().filter(|e| e.0 == "cyclic").collect();
                        if cycles.is_empty() {
                            failures.push(Failure { kind: "oracle", check: "cycle-reported".into(), what: "a cycle is reachable from the entry but no cyclic-require error is reported".into(), detail: json!({"combo": tag, "message": message}) });
                        }
                        for (_, paths) in cycles {
                            if paths.len() < 2 || paths.first() != paths.last() || paths.iter().any(|p| !exp.on_cycle.contains(p)) {
                                failures.push(Failure { kind: "oracle", check: "cycle-names".into(), what: format!("the reported cycle {:?} is not a cycle of the graph", paths), detail: json!({"combo": tag, "message": message}) });
                            }
                        }
                    } else if message.contains("cyclic require detected") {
                        failures.push(Failure { kind: "oracle", check: "false-cycle".into(), what: "a cyclic require is reported on an acyclic graph".into(), detail: json!({"combo": tag, "message": message}) });
                    }
                    stats.add("defect_reported");
                }
                _ => {}
            }
            continue;
        }
        // clean graph: must bundle and behave like the reference
        let output = match &real {
            Real::Ok(output) => output,
            Real::Errors(message) => {
                failures.push(Failure { kind: "oracle", check: "clean-rejected".into(), what: "an acyclic graph of well-formed modules is rejected".into(), detail: json!({"combo": tag, "message": message}) });
                continue;
            }
            _ => continue,
        };
        let reference = match &r.reference {
            Some(t) => t,
            None => continue,
        };
        if reference_outcome.is_none() {
            reference_outcome = Some(run_text(model, reference).unwrap_or_else(|e| format!("harness-parse-error {}", e)));
        }
        let expected = reference_outcome.clone().unwrap();
        if !expected.starts_with("(ok ") {
            stats.add(if expected == "timeout" { "reference_timeout" } else { "reference_not_error_free" });
            continue;
        }
        let got = match run_text(model, output) {
            Ok(o) => o,
            Err(e) => {
                failures.push(Failure { kind: "oracle", check: "reparse".into(), what: format!("the bundle does not parse: {}", e), detail: json!({"combo": tag, "output": output}) });
                continue;
            }
        };
        stats.add("executions_compared");
        if got != expected {
            if combo.rules {
                // is it the rules alone? apply them to the reference program without bundling
                if let Real::Ok(processed) = process_plain(reference, combo.generator, rules) {
                    if run_text(model, &processed).ok().as_deref() != Some(expected.as_str()) {
                        stats.add("rule_defect_independent_of_bundling");
                        continue;
                    }
                }
            }
            failures.push(Failure { kind: "oracle", check: format!("behaviour:{}", if combo.rules { "rules" } else { "bundle" }), what: "the executed bundle differs from the program run with a textbook require (trace or returned values)".into(), detail: json!({"combo": tag, "output": output, "bundle_outcome": got, "reference_outcome": expected}) });
        }
    }
    failures
}

// ------------------------------------------------------------------ shrinking (on the abstract case)

fn shrink_candidates(case: &Case) -> Vec<Case> {
    let mut out = Vec::new();
    for i in (1..case.files.len()).rev() {
        let mut c = case.clone();
        c.files.remove(i);
        out.push(c);
    }
    for i in 0..case.files.len() {
        if let FileKind::Lua { prefix, items, .. } = &case.files[i].kind {
            if !prefix.is_empty() {
                let mut c = case.clone();
                if let FileKind::Lua { prefix, .. } = &mut c.files[i].kind {
                    prefix.clear();
                }
                out.push(c);
            }
            for k in 0..items.len() {
                let mut c = case.clone();
                if let FileKind::Lua { items, .. } = &mut c.files[i].kind {
                    items.remove(k);
                }
                out.push(c);
            }
            for k in 0..items.len() {
                if let Item::Site { form, .. } = &items[k] {
                    if *form != g::Form::LocalParen {
                        let mut c = case.clone();
                        if let FileKind::Lua { items, .. } = &mut c.files[i].kind {
                            if let Item::Site { form, .. } = &mut items[k] {
                                *form = g::Form::LocalParen;
                            }
                        }
                        out.push(c);
                    }
                }
            }
        }
    }
    if !case.excludes.is_empty() {
        let mut c = case.clone();
        c.excludes.clear();
        out.push(c);
    }
    out
}

fn shrink(model: &mut Model, case: &Case, combos: &[Combo], check: &str) -> Case {
    let mut current = case.clone();
    let mut budget: usize = std::env::var("C05_SHRINK_BUDGET").ok().and_then(|v| v.parse().ok()).unwrap_or(120);
    let mut scratch = Stats::default();
    loop {
        let mut progressed = false;
        for candidate in shrink_candidates(&current) {
            if budget == 0 {
                return current;
            }
            budget -= 1;
            let rendered = g::render(&candidate);
            if check_rendered(model, &mut scratch, &rendered, combos).iter().any(|f| f.check == check) {
                current = candidate;
                progressed = true;
                break;
            }
        }
        if !progressed {
            return current;
        }
    }
}

fn report_failures(model: &mut Model, report: &mut Report, case: Option<&Case>, rendered: &Rendered, combos: &[Combo], failures: Vec<Failure>) {
    // a correspondence break next to an oracle failure on the same input: the oracle failure is the finding
    let oracle_failed = failures.iter().any(|f| f.kind == "oracle");
    let mut seen = BTreeSet::new();
    for f in failures {
        if !seen.insert(f.check.clone()) {
            continue;
        }
        let (small, small_failure) = match case {
            Some(case) => {
                let small_case = shrink(model, case, combos, &f.check);
                let small = g::render(&small_case);
                let mut scratch = Stats::default();
                let again = check_rendered(model, &mut scratch, &small, combos).into_iter().find(|x| x.check == f.check);
                (small, again.unwrap_or_else(|| f.clone()))
            }
            None => (rendered.clone(), f.clone()),
        };
        report.violation(Violation {
            kind: small_failure.kind.to_owned(),
            check: small_failure.check.clone(),
            what: small_failure.what.clone(),
            input: json!({"graph": rendered_json(&small), "detail": small_failure.detail}),
            failing_input_found: small_failure.kind == "oracle" || oracle_failed,
        });
    }
}

// ------------------------------------------------------------------ known findings

fn lua_file(path: &str, text: &str) -> (String, String) {
    (path.to_owned(), text.to_owned())
}

/// the witnesses recorded in known_findings.json (also used to produce that file: C05_DUMP_WITNESSES=1)
pub fn witnesses() -> Vec<(&'static str, Value)> {
    let site = |lit: &str, shadowed: bool, target: &str| SiteInfo { literal: lit.into(), string_form: false, shadowed, target: target.into() };
    // F8: module-local `require` is not seen as shadowing inside a REQUIRED module
    let f8 = Rendered {
        mode: "path".into(),
        entry: "src/main.lua".into(),
        files: vec![
            lua_file("src/main.lua", "local a = require('./a')\nemitv(a)\nreturn a\n"),
            lua_file("src/a.lua", "local require = function(p) return p end\nlocal x = require('./n')\nreturn x\n"),
            lua_file("src/n.lua", "emit('n loaded')\nreturn 5\n"),
        ],
        sites: vec![vec![site("./a", false, "file:src/a.lua")], vec![site("./n", true, "file:src/n.lua")], vec![]],
        shapes: vec!["lua:one".into(), "lua:one".into(), "lua:one".into()],
        reference: Some("local __ref_loaded, __ref_modules = {}, {}\nlocal function __ref_require(name)\n  local box = __ref_loaded[name]\n  if box == nil then\n    box = { value = (__ref_modules[name]()) }\n    __ref_loaded[name] = box\n  end\n  return box.value\nend\n__ref_modules[\"src/a.lua\"] = function()\nlocal require = function(p) return p end\nlocal x = require('./n')\nreturn x\nend\n__ref_modules[\"src/n.lua\"] = function()\nemit('n loaded')\nreturn 5\nend\nlocal a = __ref_require(\"src/a.lua\")\nemitv(a)\nreturn a\n".into()),
        ..Default::default()
    };
    // extension-less file reached by a require: `unreachable!("extension should be defined")`
    let noext = Rendered {
        mode: "path".into(),
        entry: "src/main.lua".into(),
        files: vec![lua_file("src/main.lua", "local a = require('./noext')\nreturn a\n"), lua_file("src/noext", "return 1\n")],
        sites: vec![vec![site("./noext", false, "file:src/noext")], vec![]],
        shapes: vec!["lua:one".into(), "bad-ext".into()],
        ..Default::default()
    };
    // malformed data file: the error does not name it
    let mut unnamed = Rendered {
        mode: "path".into(),
        entry: "src/main.lua".into(),
        files: vec![lua_file("src/main.lua", "local c = require('./c.json')\nreturn c\n"), lua_file("src/c.json", "{ \"a\": ")],
        sites: vec![vec![site("./c.json", false, "file:src/c.json")], vec![]],
        shapes: vec!["lua:one".into(), "parse-error".into()],
        ..Default::default()
    };
    unnamed.data_lua.insert("src/c.json".into(), "return nil\n".into());
    vec![
        ("exec-differs", rendered_json(&f8)),
        ("panic", rendered_json(&noext)),
        ("unnamed", rendered_json(&unnamed)),
    ]
}

fn replay_known(model: &mut Model, report: &mut Report) {
    for entry in crate::report::known_findings("C05") {
        let id = entry["id"].as_str().unwrap_or("?").to_owned();
        if entry["status"] == "fixed" {
            // nothing is excused any more: the witness lives in corpus/C05 and must pass
            continue;
        }
        let witness = &entry["witness"];
        let rendered = match rendered_from_json(&witness["graph"]) {
            Some(r) => r,
            None => {
                report.notes.push(format!("known finding {}: unreadable witness", id));
                continue;
            }
        };
        let real = run_real(&rendered, "readable", &[]);
        let still = match witness["expect"].as_str().unwrap_or("") {
            "panic" => matches!(real, Real::Panic(_)),
            "unnamed" => match &real {
                Real::Errors(message) => !rendered.data_lua.keys().any(|p| message.contains(p.as_str())),
                _ => false,
            },
            "exec-differs" => match (&real, &rendered.reference) {
                (Real::Ok(output), Some(reference)) => {
                    let a = run_text(model, output).unwrap_or_default();
                    let b = run_text(model, reference).unwrap_or_default();
                    b.starts_with("(ok ") && a != b
                }
                _ => false,
            },
            _ => false,
        };
        if still {
            report.known_finding(&id, entry["expected_wrong"].as_str().unwrap_or(""));
        }
        report.count("known_findings_replayed", 1);
    }
}

// ------------------------------------------------------------------ run

fn combos_for(rng: &mut Rng, thorough: bool) -> Vec<Combo> {
    let mut combos = vec![Combo { generator: *rng.pick(&GENERATORS), rules: false }];
    if thorough {
        for gname in GENERATORS {
            if gname != combos[0].generator {
                combos.push(Combo { generator: gname, rules: false });
            }
            combos.push(Combo { generator: gname, rules: true });
        }
    } else {
        combos.push(Combo { generator: *rng.pick(&GENERATORS), rules: true });
    }
    combos
}

fn case_stats(r: &mut Report, case: &Case, rendered: &Rendered) {
    r.hist("mode", &rendered.mode);
    r.hist("files", &format!("{:02}", case.files.len()));
    for f in &case.files {
        match &f.kind {
            FileKind::Lua { items, kind, ret, syntax_error, prefix } => {
                r.hist("module_value", &format!("{:?}", kind));
                if *ret != g::Ret::One { r.hist("defects", &format!("ret:{:?}", ret)); }
                if *syntax_error { r.hist("defects", "syntax-error"); }
                if !prefix.is_empty() { r.hist("module_prefix", "progen"); }
                for item in items {
                    match item {
                        Item::Site { form, shadow_block, .. } => {
                            let name = format!("{:?}", form);
                            r.hist("site_form", name.split('(').next().unwrap_or(""));
                            if *shadow_block { r.hist("site_form", "shadowed-in-block(entry)"); }
                        }
                        Item::Decoy { decoy, .. } => r.hist("decoy", &format!("{:?}", decoy)),
                        Item::ShadowHere => r.hist("site_form", "file-level-shadow"),
                    }
                }
            }
            FileKind::Data { malformed, .. } => {
                r.hist("data_file", g::extension(&f.path).unwrap_or(""));
                if *malformed { r.hist("defects", "malformed-data"); }
            }
            FileKind::Other => r.hist("defects", "bad-extension"),
        }
    }
    for ss in &rendered.sites {
        for s in ss {
            r.hist("site_target", s.target.split(':').next().unwrap_or(""));
            if s.literal.starts_with("@self") { r.hist("spelling", "@self"); }
            else if !s.literal.starts_with('.') && s.target != "excluded" { r.hist("spelling", "alias"); }
            if s.literal.contains("/../") || s.literal.contains("/./") { r.hist("spelling", "noisy"); }
            else if s.literal.ends_with(".lua") || s.literal.ends_with(".luau") { r.hist("spelling", "with-extension"); }
            else { r.hist("spelling", "bare"); }
        }
    }
}

pub fn run(report: &mut Report, replay: Option<&str>) {
    report.rule = "module graphs on memory resources: random DAGs (1–8 Lua modules + data files json/json5/yaml/yml/toml/txt; diamonds; the same file \
        under several spellings ./a, ./a.lua, ./sub/../a, directory modules; requires in 16 syntactic positions incl. nested functions, loops, prefixes, \
        string-call form; decoys that must stay untouched; modules returning nil/false/number/string/table/function with identically named locals; \
        excluded patterns; entry-level shadowing of require) × require mode path/luau × generator × default rules after bundling, plus graphs with \
        defects (cycles, missing files, syntax errors, no/multiple return values, bad extensions, malformed data) and EVERY digraph on ≤3 (quick) / ≤4 (thorough) \
        files. Each graph: Lean `inlineAll`+`assemble` vs the real bundler (error list or whole output tree), and the real bundle executed on the \
        reference semantics vs a textbook-require reference program. Non-trivial = at least one require was inlined or one error raised; distinct by file contents."
        .to_owned();
    let thorough = report.is_thorough();
    let seed = report.seed;
    if std::env::var("C05_DUMP_WITNESSES").is_ok() {
        for (expect, graph) in witnesses() {
            println!("{}", json!({"expect": expect, "graph": graph}));
        }
    }
    if let Ok(n) = std::env::var("C05_SHOW") {
        let mut model = Model::spawn();
        let mut rng = Rng::new(n.parse().unwrap_or(0));
        let mut prefix_gen = |_: &mut Rng| String::new();
        let case = g::gen_case(&mut rng, &GenOptions { defects: false, cycles: false, module_shadow: false }, &mut prefix_gen);
        let rendered = g::render(&case);
        for (p, c) in &rendered.files { println!("=== {}\n{}", p, c); }
        println!("=== REFERENCE\n{}", rendered.reference.clone().unwrap());
        let real = run_real(&rendered, "readable", &[]);
        println!("=== REAL\n{:?}", real);
        if let Real::Ok(o) = &real { println!("{}\n=== bundle outcome {}", o, run_text(&mut model, o).unwrap()); }
        println!("=== reference outcome {}", run_text(&mut model, rendered.reference.as_ref().unwrap()).unwrap());
        println!("=== model {:?}", model_inline(&mut model, &rendered));
        return;
    }
    if let Some(path) = replay.and_then(|p| p.strip_prefix("child:")) {
        child_main(report, path);
        return;
    }
    if let Some(path) = replay {
        let text = std::fs::read_to_string(path).expect("replay file");
        let v: Value = serde_json::from_str(&text).expect("replay json");
        let graph = if v["input"]["graph"].is_object() { &v["input"]["graph"] } else { &v["witness"]["graph"] };
        if let Some(rendered) = rendered_from_json(graph) {
            let mut model = Model::spawn();
            let mut combos = vec![Combo { generator: "readable", rules: false }];
            for gname in GENERATORS {
                if gname != "readable" { combos.push(Combo { generator: gname, rules: false }); }
                combos.push(Combo { generator: gname, rules: true });
            }
            let mut stats = Stats::default();
            let failures = check_rendered(&mut model, &mut stats, &rendered, &combos);
            report.case(Some(&text));
            report_failures(&mut model, report, None, &rendered, &combos, failures);
        } else {
            report.notes.push("replay: no graph in the file".to_owned());
        }
        return;
    }
    {
        let mut model = Model::spawn();
        replay_known(&mut model, report);
        // corpus: minimised past disagreements
        let corpus = concat!(env!("CARGO_MANIFEST_DIR"), "/../corpus/C05");
        if let Ok(dir) = std::fs::read_dir(corpus) {
            let mut paths: Vec<_> = dir.filter_map(|e| e.ok().map(|e| e.path())).collect();
            paths.sort();
            for p in paths {
                let v: Value = match std::fs::read_to_string(&p).ok().and_then(|t| serde_json::from_str(&t).ok()) { Some(v) => v, None => continue };
                if v["known_finding"].is_string() { continue; }
                if let Some(rendered) = rendered_from_json(&v["graph"]) {
                    let combos = [Combo { generator: "readable", rules: false }, Combo { generator: "dense", rules: true }];
                    let mut stats = Stats::default();
                    let failures = check_rendered(&mut model, &mut stats, &rendered, &combos);
                    report.count("corpus_replayed", 1);
                    report_failures(&mut model, report, None, &rendered, &combos, failures);
                }
            }
        }
    }
    // ---- every digraph on n files (node 0 = entry; self loops and edges back to the entry included)
    let threads = 12usize;
    let exhaustive_n: usize = if thorough { 4 } else { 3 };
    for n in 1..=exhaustive_n {
        let total: u32 = 1u32 << (n * n);
        report.parallel(threads, |tid, r| {
            let mut model = Model::spawn();
            let mut stats = Stats::default();
            let mut mask = tid as u32;
            while mask < total {
                let mode = if mask % 2 == 0 { Mode::Path } else { Mode::Luau };
                let case = g::small_graph(n, mask, mode);
                let rendered = g::render(&case);
                let combos = [Combo { generator: GENERATORS[(mask as usize / 2) % 3], rules: false }];
                let failures = check_rendered(&mut model, &mut stats, &rendered, &combos);
                let exp = expectation(&rendered);
                r.hist("small_graphs", if exp.cyclic { "cyclic" } else { "acyclic" });
                r.case(Some(("small", n, mask)));
                if !failures.is_empty() {
                    report_failures(&mut model, r, Some(&case), &rendered, &combos, failures);
                }
                mask += threads as u32;
            }
            for (k, v) in stats.counts { r.count(&format!("small:{}", k), v); }
        });
        report.exhaustive.insert(format!("all digraphs on {} files (entry + {} modules)", n, n - 1), true);
    }
    if !thorough {
        // a sample of the 4-file digraphs
        report.parallel(threads, |tid, r| {
            let mut model = Model::spawn();
            let mut stats = Stats::default();
            let mut rng = Rng::new(seed.wrapping_mul(77).wrapping_add(tid as u64));
            for _ in 0..150 {
                let mask = (rng.next_u64() & 0xffff) as u32;
                let case = g::small_graph(4, mask, if rng.chance(1, 2) { Mode::Path } else { Mode::Luau });
                let rendered = g::render(&case);
                let combos = [Combo { generator: *rng.pick(&GENERATORS), rules: false }];
                let failures = check_rendered(&mut model, &mut stats, &rendered, &combos);
                r.case(Some(("small", 4usize, mask)));
                if !failures.is_empty() {
                    report_failures(&mut model, r, Some(&case), &rendered, &combos, failures);
                }
            }
            for (k, v) in stats.counts { r.count(&format!("small:{}", k), v); }
        });
    }
    // ---- Luau mode: the same non-relative / relative literal from several directories
    let twins_per_thread: usize = if thorough { 60 } else { 10 };
    report.parallel(threads, |tid, r| {
        let mut model = Model::spawn();
        let mut stats = Stats::default();
        let mut rng = Rng::new(seed.wrapping_mul(313).wrapping_add(tid as u64));
        for _ in 0..twins_per_thread {
            let case = g::self_twins(&mut rng);
            let rendered = g::render(&case);
            let combos = combos_for(&mut rng, thorough);
            case_stats(r, &case, &rendered);
            r.hist("family", "same-literal-different-directories");
            let failures = check_rendered(&mut model, &mut stats, &rendered, &combos);
            r.case(Some(&rendered.files));
            if !failures.is_empty() {
                report_failures(&mut model, r, Some(&case), &rendered, &combos, failures);
            }
        }
        for (k, v) in stats.counts { r.count(&format!("twins:{}", k), v); }
    });
    // ---- Luau mode: `init` and its siblings in ONE directory writing the same relative literal
    let siblings_per_thread: usize = if thorough { 60 } else { 12 };
    report.parallel(threads, |tid, r| {
        let mut model = Model::spawn();
        let mut stats = Stats::default();
        let mut rng = Rng::new(seed.wrapping_mul(919).wrapping_add(tid as u64));
        for _ in 0..siblings_per_thread {
            let case = g::init_siblings(&mut rng);
            let rendered = g::render(&case);
            let combos = combos_for(&mut rng, thorough);
            case_stats(r, &case, &rendered);
            r.hist("family", "init-and-siblings-same-literal");
            let failures = check_rendered(&mut model, &mut stats, &rendered, &combos);
            r.case(Some(&rendered.files));
            if !failures.is_empty() {
                report_failures(&mut model, r, Some(&case), &rendered, &combos, failures);
            }
        }
        for (k, v) in stats.counts { r.count(&format!("siblings:{}", k), v); }
    });
    // ---- enumerated: the final statement of a module around "exactly one value"
    {
        let mut model = Model::spawn();
        let mut stats = Stats::default();
        let mut rng = Rng::new(seed.wrapping_mul(17));
        for case in g::return_shapes() {
            let rendered = g::render(&case);
            let combos = combos_for(&mut rng, thorough);
            case_stats(report, &case, &rendered);
            report.hist("family", "return-shapes");
            let failures = check_rendered(&mut model, &mut stats, &rendered, &combos);
            report.case(Some(&rendered.files));
            if !failures.is_empty() {
                report_failures(&mut model, report, Some(&case), &rendered, &combos, failures);
            }
        }
        for (k, v) in stats.counts { report.count(&format!("return-shapes:{}", k), v); }
        report.exhaustive.insert("module final statement: none / return with 0, 2, 3 values × direct or nested × once or twice × mode".to_owned(), true);
    }
    // ---- paths that are component-wise suffixes of one another (a root directory name nested again)
    let nested_per_thread: usize = if thorough { 50 } else { 10 };
    report.parallel(threads, |tid, r| {
        let mut model = Model::spawn();
        let mut stats = Stats::default();
        let mut rng = Rng::new(seed.wrapping_mul(613).wrapping_add(tid as u64));
        for _ in 0..nested_per_thread {
            let case = g::nested_roots(&mut rng);
            let rendered = g::render(&case);
            let combos = combos_for(&mut rng, thorough);
            case_stats(r, &case, &rendered);
            r.hist("family", "nested-root-suffix-paths");
            let failures = check_rendered(&mut model, &mut stats, &rendered, &combos);
            r.case(Some(&rendered.files));
            if !failures.is_empty() {
                report_failures(&mut model, r, Some(&case), &rendered, &combos, failures);
            }
        }
        for (k, v) in stats.counts { r.count(&format!("nested:{}", k), v); }
    });
    // every digraph on ≤ 3 files laid out as nested suffixes
    for n in 2..=3usize {
        let total: u32 = 1u32 << (n * n);
        report.parallel(threads, |tid, r| {
            let mut model = Model::spawn();
            let mut stats = Stats::default();
            let mut mask = tid as u32;
            while mask < total {
                let mode = if mask % 2 == 0 { Mode::Path } else { Mode::Luau };
                let case = g::small_graph_nested(n, mask, mode);
                let rendered = g::render(&case);
                let combos = [Combo { generator: GENERATORS[(mask as usize / 2) % 3], rules: false }];
                let failures = check_rendered(&mut model, &mut stats, &rendered, &combos);
                r.case(Some(("small-nested", n, mask)));
                if !failures.is_empty() {
                    report_failures(&mut model, r, Some(&case), &rendered, &combos, failures);
                }
                mask += threads as u32;
            }
            for (k, v) in stats.counts { r.count(&format!("small-nested:{}", k), v); }
        });
        report.exhaustive.insert(format!("all digraphs on {} files with nested-suffix paths", n), true);
    }
    // ---- enumerated: numeric boundary values in bundled data files
    {
        let mut model = Model::spawn();
        let mut stats = Stats::default();
        let mut rng = Rng::new(seed.wrapping_mul(23));
        for case in g::data_boundaries() {
            let rendered = g::render(&case);
            let combos = combos_for(&mut rng, thorough);
            case_stats(report, &case, &rendered);
            report.hist("family", "data-boundaries");
            let failures = check_rendered(&mut model, &mut stats, &rendered, &combos);
            report.case(Some(&rendered.files));
            if !failures.is_empty() {
                report_failures(&mut model, report, Some(&case), &rendered, &combos, failures);
            }
        }
        for (k, v) in stats.counts { report.count(&format!("data-boundaries:{}", k), v); }
        report.exhaustive.insert("numeric boundary values (i64/u64/f64 extremes, 2^53±1) × json/json5/yaml/yml/toml × mode".to_owned(), true);
    }
    // ---- `.luaurc` trees: a `.luaurc` under src/ and a different one in a module folder; every Lua file of the tree
    //      is an entry of ONE darklua run (use_luau_configuration at its default), in three processing orders
    {
        let mut model = Model::spawn();
        let mut stats = Stats::default();
        let mut rng = Rng::new(seed.wrapping_mul(4099).wrapping_add(17));
        let trees: usize = if thorough { 40 } else { 8 };
        for _ in 0..trees {
            for rendered in g::luaurc_batches(&mut rng) {
                let combos = [Combo { generator: *rng.pick(&GENERATORS), rules: false }];
                report.hist("family", "luaurc-batches");
                let failures = check_rendered(&mut model, &mut stats, &rendered, &combos);
                report.case(Some((&rendered.files, rendered.batch.as_ref().map(|b| b.entries.clone()))));
                if !failures.is_empty() {
                    report_failures(&mut model, report, None, &rendered, &combos, failures);
                }
            }
        }
        for (k, v) in stats.counts { report.count(&format!("luaurc-batches:{}", k), v); }
    }
    // ---- enumerated: long strings (long-bracket form of the string writers) in bundled data files, every generator
    {
        let mut model = Model::spawn();
        let mut stats = Stats::default();
        for case in g::long_strings() {
            let rendered = g::render(&case);
            let combos = [Combo { generator: "readable", rules: false }, Combo { generator: "dense", rules: false }, Combo { generator: "retain_lines", rules: false }];
            case_stats(report, &case, &rendered);
            report.hist("family", "long-strings");
            let failures = check_rendered(&mut model, &mut stats, &rendered, &combos);
            report.case(Some(&rendered.files));
            if !failures.is_empty() {
                report_failures(&mut model, report, Some(&case), &rendered, &combos, failures);
            }
        }
        for (k, v) in stats.counts { report.count(&format!("long-strings:{}", k), v); }
        report.exhaustive.insert("long strings (CRLF, lone CR, leading LF, closing brackets, tabs; ≥ 60 bytes or ≥ 20 bytes with ≥ 6 LF) × txt/json/json5/yaml/yml/toml × three generators".to_owned(), true);
    }
    // ---- random graphs
    let per_thread: usize = if thorough { 260 } else { 40 };
    report.parallel(threads, |tid, r| {
        let mut model = Model::spawn();
        let mut stats = Stats::default();
        let mut rng = Rng::new(seed.wrapping_mul(1000).wrapping_add(tid as u64));
        for i in 0..per_thread {
            let opts = match i % 4 {
                0 => GenOptions { defects: false, cycles: false, module_shadow: false },
                1 => GenOptions { defects: false, cycles: false, module_shadow: true },
                2 => GenOptions { defects: true, cycles: false, module_shadow: false },
                _ => GenOptions { defects: i % 8 == 3, cycles: true, module_shadow: i % 8 == 7 },
            };
            let mut prefix_gen = |rng: &mut Rng| -> String {
                let feat = if rng.chance(1, 4) { Features { luau: true, types: false, metatables: true, dead_code: true, methods: true } } else { Features::lua51() };
                let (code, _) = progen::generate(&mut rng.fork(), feat, 25);
                match code.rfind("\nreturn") {
                    Some(at) => code[..at].to_owned(),
                    None => String::new(),
                }
            };
            let case = g::gen_case(&mut rng, &opts, &mut prefix_gen);
            let rendered = g::render(&case);
            let combos = combos_for(&mut rng, thorough);
            case_stats(r, &case, &rendered);
            let failures = check_rendered(&mut model, &mut stats, &rendered, &combos);
            let exp = expectation(&rendered);
            r.hist("graph_class", if exp.cyclic { "cyclic" } else if !exp.clean() { "defective" } else { "clean" });
            let nontrivial = rendered.sites.iter().any(|ss| ss.iter().any(|s| !s.shadowed && s.target != "excluded"));
            if nontrivial {
                r.case(Some(&rendered.files));
            } else {
                r.case(None::<u8>);
            }
            if i < 2 && exp.clean() {
                r.sample(json!({"mode": rendered.mode, "files": rendered.files.iter().map(|(p, _)| p.clone()).collect::<Vec<_>>(), "entry_source": rendered.files[0].1}));
            }
            if !failures.is_empty() {
                report_failures(&mut model, r, Some(&case), &rendered, &combos, failures);
            }
        }
        for (k, v) in stats.counts { r.count(&k, v); }
    });
}
