//! Property C10: incremental reprocessing (`WorkerTree` driven as `--watch` drives it) equals
//! processing from scratch.
//!
//! Real side: `darklua_core::{WorkerTree, Resources::from_memory, process, Options, Configuration}`.
//! A history is a list of watcher-level operations (what `cli/utils/file_watcher.rs:
//! process_events` turns file-system events into):
//!   edit p v   = write p; `source_changed(p)`          (Modify(Data) event; p a source or a dependency)
//!   add p v    = write p; has_created = true            (Create event)
//!   rm p       = delete p; `remove_source(p)`           (Remove(File))
//!   rmdir d    = delete everything under d; `remove_source(d)`   (Remove(Folder))
//!   cfg k      = the configuration used by the following passes
//!   collect    = `collect_work` (what an `Any` event forces)
//!   process    = if has_created { `collect_work` }; `WorkerTree::process`   (end of a debounced batch)
//! Every history starts with `darklua_core::process` (as `FileWatcher::start` does) and ends with
//! a `process`.
//! A leading `init k` marker starts the session from a variant of the project in which a
//! dependency is missing (an item then fails on the first run, without a previous output).
//! Besides the histories, the run covers: every pair of configurations that differ in exactly
//! one respect (`CONFIG_PAIRS`), both directions; a second project whose bundle entry sits at
//! the root of the working directory (fresh-run oracle only); runs with a user rule that puts
//! items on hold (`Rule::require_content`).
//!
//! (a) correspondence: after every `process` the output tree, success/error counts and the
//!     set of watched external dependencies equal the Lean model's (`c10.run`), where the model's
//!     per-file transformation `T` is a table measured from real single-file fresh darklua runs.
//! (b) oracle (model-free): the output tree equals a real fresh run over the final inputs
//!     (new `Resources`, `darklua_core::process`), foreign files kept, no panic, no hang.
use crate::model::Model;
use crate::report::{known_findings, Report, Violation};
use crate::rng::Rng;
use darklua_core::{Configuration, Options, Resources, WorkerTree};
use serde_json::{json, Value};
use std::collections::{BTreeMap, BTreeSet, HashMap};
use std::panic::{catch_unwind, AssertUnwindSafe};
use std::sync::atomic::{AtomicBool, AtomicU64, Ordering};
use std::sync::{mpsc, Arc, Mutex, OnceLock};
use std::time::{Duration, Instant};

// ---------------------------------------------------------------------------------------
// the fixed project

const INPUT: &str = "src";
const OUTPUT: &str = "out";

/// (path, content variants, initially present)
const FILES: &[(&str, &[&str], bool)] = &[
    ("src/a.lua", &["local x = 1 + 1\nreturn x -- a0\n", "return 'a1'\n", "local = 1\n"], true),
    ("src/b.lua", &["if DEBUG then\n    return 'dbg'\nend\nreturn 'b0'\n", "return require(\"./bundle/data.json\").v\n"], true),
    ("src/sub/c.lua", &["local function f() return 2 * 3 end\nreturn f()\n", "return 'c1'\n"], true),
    (
        "src/bundle/entry.lua",
        &[
            "local m1 = require(\"./m1\")\nlocal d = require(\"./data.json\")\nreturn m1.x + d.v\n",
            "local m1 = require(\"./m1\")\nreturn m1.x\n",
        ],
        true,
    ),
    (
        "src/bundle/m1.lua",
        &["local m2 = require(\"../../lib/m2\")\nreturn { x = m2 }\n", "return { x = 5 }\n"],
        true,
    ),
    ("src/bundle/data.json", &["{\"v\": 1}", "{\"v\": 2}"], true),
    ("lib/m2.lua", &["return 1\n", "return 2\n"], true),
    ("src/new.lua", &["return 'new0'\n", "return require(\"./late\")\n"], false),
    ("src/late.lua", &["return 'late0'\n", "return 'late1'\n"], false),
];
const F_A: usize = 0;
const F_B: usize = 1;
const F_C: usize = 2;
const F_ENTRY: usize = 3;
const F_M1: usize = 4;
const F_DATA: usize = 5;
const F_M2: usize = 6;
const F_NEW: usize = 7;
const F_LATE: usize = 8;

/// files that exist in the output folder before the first run and belong to no source
const FOREIGN: &[(&str, &str)] = &[("out/foreign.txt", "keep me"), ("out/sub/readme.md", "keep me too")];

const DIRS: &[&str] = &["src/bundle", "src/sub"];

/// configurations (json5); every way a configuration can change is represented by a pair that
/// differs in exactly that respect, and every pair yields different outputs for at least one
/// source (checked at start-up), so a fingerprint that misses the difference leaves stale output:
///   0 / 1   generator (retain_lines / dense)            1 / 9   generator parameter (column_span)
///   0 / 2   skip_files on a property-less rule (F13)    0 / 6   apply_to_files on a property-less rule
///   0 / 12  a rule removed / added                      4 / 5   a rule property value
///   0 / 3   the bundle section (NO dependencies at all under 3)   0 / 13, 0 / 14, 13 / 14  bundle excludes
///           (these change WHICH FILES an item pulls in: the links that survive `reset` matter)
///   7 / 8   the order of two rules                      0 / 10  a bundle setting
///   4 / 11  a filter on a rule that has properties
/// (Root-level `skip_files` / `apply_to_files` are left to C19/C20: a source they exclude finishes
/// successfully WITHOUT writing an output, which the abstraction `T` (success = an output) cannot express.)
const CONFIGS: &[&str] = &[
    "{ rules: ['remove_comments', 'compute_expression'], bundle: { require_mode: 'path' } }",
    "{ rules: ['remove_comments', 'compute_expression'], bundle: { require_mode: 'path' }, generator: 'dense' }",
    "{ rules: ['remove_comments', { rule: 'compute_expression', skip_files: ['**/a.lua'] }], bundle: { require_mode: 'path' } }",
    "{ rules: ['remove_comments', 'compute_expression'] }",
    "{ rules: ['remove_comments', 'compute_expression', { rule: 'inject_global_value', identifier: 'DEBUG', value: true }], bundle: { require_mode: 'path' } }",
    "{ rules: ['remove_comments', 'compute_expression', { rule: 'inject_global_value', identifier: 'DEBUG', value: false }], bundle: { require_mode: 'path' } }",
    "{ rules: ['remove_comments', { rule: 'compute_expression', apply_to_files: ['**/sub/**'] }], bundle: { require_mode: 'path' } }",
    "{ rules: [{ rule: 'inject_global_value', identifier: 'DEBUG', value: true }, 'remove_unused_if_branch'], bundle: { require_mode: 'path' } }",
    "{ rules: ['remove_unused_if_branch', { rule: 'inject_global_value', identifier: 'DEBUG', value: true }], bundle: { require_mode: 'path' } }",
    "{ rules: ['remove_comments', 'compute_expression'], bundle: { require_mode: 'path' }, generator: { name: 'dense', column_span: 20 } }",
    "{ rules: ['remove_comments', 'compute_expression'], bundle: { require_mode: 'path', modules_identifier: '__M' } }",
    "{ rules: ['remove_comments', 'compute_expression', { rule: 'inject_global_value', identifier: 'DEBUG', value: true, skip_files: ['**/b.lua'] }], bundle: { require_mode: 'path' } }",
    "{ rules: ['remove_comments'], bundle: { require_mode: 'path' } }",
    "{ rules: ['remove_comments', 'compute_expression'], bundle: { require_mode: 'path', excludes: ['**/lib/**'] } }",
    "{ rules: ['remove_comments', 'compute_expression'], bundle: { require_mode: 'path', excludes: ['./m1'] } }",
];

/// the pairs that differ in exactly one respect (see above); both directions are run
const CONFIG_PAIRS: &[(usize, usize, &str)] = &[
    (0, 1, "generator"),
    (1, 9, "generator parameter"),
    (0, 2, "skip_files of a property-less rule"),
    (0, 6, "apply_to_files of a property-less rule"),
    (0, 3, "bundle section (the dependency set of every item changes)"),
    (0, 12, "rule list"),
    (0, 13, "bundle excludes (a nested dependency is no longer pulled in)"),
    (0, 14, "bundle excludes (a direct dependency is no longer pulled in)"),
    (13, 14, "bundle excludes value"),
    (4, 5, "rule property value"),
    (7, 8, "rule order"),
    (0, 10, "bundle setting"),
    (4, 11, "filter of a rule with properties"),
];

fn config(k: usize) -> Configuration {
    json5::from_str(CONFIGS[k]).expect("configuration text is valid")
}

fn config_hash_text(k: usize) -> Vec<u8> {
    // what `WorkerTree::has_configuration_changed` hashes
    serde_json::to_vec(&config(k)).unwrap_or_default()
}

fn options(k: usize) -> Options {
    Options::new(INPUT).with_output(OUTPUT).with_configuration(config(k))
}

fn is_source(path: &str) -> bool {
    path.starts_with("src/") && (path.ends_with(".lua") || path.ends_with(".luau"))
}

fn out_path(path: &str) -> String {
    format!("{}/{}", OUTPUT, &path[INPUT.len() + 1..])
}

// ---------------------------------------------------------------------------------------
// operations

#[derive(Clone, Copy, Debug, PartialEq, Eq, Hash, PartialOrd, Ord)]
pub enum Op {
    /// only as the first element: the watch session starts from initial variant k (files absent)
    Init(usize),
    Edit(usize, usize),
    Add(usize, usize),
    Rm(usize),
    RmDir(usize),
    Cfg(usize),
    Collect,
    Process,
}

impl Op {
    fn text(&self) -> String {
        match *self {
            Op::Init(k) => format!("init {}", k),
            Op::Edit(f, v) => format!("edit {} {}", FILES[f].0, v),
            Op::Add(f, v) => format!("add {} {}", FILES[f].0, v),
            Op::Rm(f) => format!("rm {}", FILES[f].0),
            Op::RmDir(d) => format!("rmdir {}", DIRS[d]),
            Op::Cfg(k) => format!("cfg {}", k),
            Op::Collect => "collect".to_owned(),
            Op::Process => "process".to_owned(),
        }
    }
    fn parse(s: &str) -> Option<Op> {
        let parts: Vec<&str> = s.split_whitespace().collect();
        let file = |p: &str| FILES.iter().position(|f| f.0 == p);
        match parts.as_slice() {
            ["init", k] => Some(Op::Init(k.parse().ok().filter(|k| *k < INIT_VARIANTS.len())?)),
            ["edit", p, v] => Some(Op::Edit(file(p)?, v.parse().ok()?)),
            ["add", p, v] => Some(Op::Add(file(p)?, v.parse().ok()?)),
            ["rm", p] => Some(Op::Rm(file(p)?)),
            ["rmdir", d] => Some(Op::RmDir(DIRS.iter().position(|x| x == d)?)),
            ["cfg", k] => Some(Op::Cfg(k.parse().ok().filter(|k| *k < CONFIGS.len())?)),
            ["collect"] => Some(Op::Collect),
            ["process"] => Some(Op::Process),
            _ => None,
        }
    }
    fn kind(&self) -> &'static str {
        match self {
            Op::Edit(f, _) => {
                if is_source(FILES[*f].0) {
                    "edit"
                } else {
                    "editDep"
                }
            }
            Op::Init(_) => "init",
            Op::Add(..) => "add",
            Op::Rm(_) => "removeFile",
            Op::RmDir(_) => "removeDir",
            Op::Cfg(_) => "setConfig",
            Op::Collect => "collectWork",
            Op::Process => "process",
        }
    }
}

fn history_json(h: &[Op]) -> Value {
    Value::Array(h.iter().map(|o| Value::String(o.text())).collect())
}

fn history_from_json(v: &Value) -> Option<Vec<Op>> {
    v.as_array()?.iter().map(|x| x.as_str().and_then(Op::parse)).collect()
}

/// the input side of the file system: variant index per file (None = absent)
type FsState = Vec<Option<usize>>;

/// initial variants: the files that are absent when the session starts (besides the late files).
/// With a dependency missing from the start an item fails on the FIRST run, without a previous
/// output, which keeps "fail, then repair" histories short and inside H10.
const INIT_VARIANTS: &[&[usize]] = &[&[], &[F_M2], &[F_DATA], &[F_M1]];

fn initial_state_of(h: &[Op]) -> FsState {
    let mut state = initial_state();
    if let Some(Op::Init(k)) = h.first() {
        for &f in INIT_VARIANTS[*k] {
            state[f] = None;
        }
    }
    state
}

fn initial_state() -> FsState {
    FILES.iter().map(|f| if f.2 { Some(0) } else { None }).collect()
}

/// Is `op` meaningful in `state` (edit/remove of an existing file, add of a missing one)?
fn op_valid(state: &FsState, op: Op) -> bool {
    match op {
        Op::Edit(f, v) => state[f].is_some() && v < FILES[f].1.len(),
        Op::Add(f, v) => state[f].is_none() && v < FILES[f].1.len(),
        Op::Rm(f) => state[f].is_some(),
        Op::RmDir(d) => (0..FILES.len()).any(|f| state[f].is_some() && FILES[f].0.starts_with(&format!("{}/", DIRS[d]))),
        Op::Cfg(_) | Op::Collect | Op::Process => true,
        Op::Init(_) => false,
    }
}

fn apply_to_state(state: &mut FsState, op: Op) {
    match op {
        Op::Edit(f, v) | Op::Add(f, v) => state[f] = Some(v),
        Op::Rm(f) => state[f] = None,
        Op::RmDir(d) => {
            for f in 0..FILES.len() {
                if FILES[f].0.starts_with(&format!("{}/", DIRS[d])) {
                    state[f] = None;
                }
            }
        }
        _ => {}
    }
}

/// drop the operations that are not valid where they stand; always end with `process`
fn canonical(h: &[Op]) -> Vec<Op> {
    let mut state = initial_state_of(h);
    let mut out = Vec::new();
    if let Some(Op::Init(k)) = h.first() {
        if *k != 0 {
            out.push(Op::Init(*k));
        }
    }
    for &op in h {
        if op_valid(&state, op) {
            apply_to_state(&mut state, op);
            out.push(op);
        }
    }
    if out.last() != Some(&Op::Process) {
        out.push(Op::Process);
    }
    out
}

// ---------------------------------------------------------------------------------------
// the real worker

/// what is observed after a `process`
#[derive(Clone, Debug, PartialEq, Eq)]
pub struct Obs {
    tree: BTreeMap<String, String>,
    success: usize,
    errors: usize,
    ext: BTreeSet<String>,
}

#[derive(Clone, Debug, PartialEq, Eq)]
pub enum Step {
    Obs(Obs),
    Panic(String),
}

fn out_tree(res: &Resources) -> BTreeMap<String, String> {
    res.walk(OUTPUT)
        .map(|p| {
            let content = res.get(&p).unwrap_or_default();
            (p.to_string_lossy().replace('\\', "/"), content)
        })
        .collect()
}

fn input_tree(res: &Resources) -> BTreeMap<String, String> {
    let mut t = BTreeMap::new();
    for dir in ["src", "lib"] {
        for p in res.walk(dir) {
            let content = res.get(&p).unwrap_or_default();
            t.insert(p.to_string_lossy().replace('\\', "/"), content);
        }
    }
    t
}

fn populate(res: &Resources, state: &FsState, with_foreign: bool) {
    for (f, v) in state.iter().enumerate() {
        if let Some(v) = v {
            res.write(FILES[f].0, FILES[f].1[*v]).unwrap();
        }
    }
    if with_foreign {
        for (p, c) in FOREIGN {
            res.write(p, c).unwrap();
        }
    }
}

struct Real {
    res: Resources,
    tree: Option<WorkerTree>,
    cfg: usize,
    has_created: bool,
    state: FsState,
}

impl Real {
    fn start(state: FsState) -> Real {
        let res = Resources::from_memory();
        populate(&res, &state, true);
        // FileWatcher::start -> run_worker_tree -> darklua_core::process
        let tree = darklua_core::process(&res, options(0)).ok();
        Real { res, tree, cfg: 0, has_created: false, state }
    }

    fn observe(&self) -> Obs {
        let tree = self.tree.as_ref().unwrap();
        Obs {
            tree: out_tree(&self.res),
            success: tree.success_count(),
            errors: tree.collect_errors().len(),
            ext: tree
                .iter_external_dependencies()
                .map(|p| p.to_string_lossy().replace('\\', "/"))
                .collect(),
        }
    }

    /// one operation; Some(observation) after a `process`
    fn apply(&mut self, op: Op) -> Option<Obs> {
        let tree = self.tree.as_mut().expect("initial run succeeded");
        match op {
            Op::Init(_) => {}
            Op::Edit(f, v) => {
                self.res.write(FILES[f].0, FILES[f].1[v]).unwrap();
                tree.source_changed(FILES[f].0);
            }
            Op::Add(f, v) => {
                self.res.write(FILES[f].0, FILES[f].1[v]).unwrap();
                self.has_created = true;
            }
            Op::Rm(f) => {
                self.res.remove(FILES[f].0).unwrap();
                tree.remove_source(FILES[f].0);
            }
            Op::RmDir(d) => {
                for f in 0..FILES.len() {
                    if self.state[f].is_some() && FILES[f].0.starts_with(&format!("{}/", DIRS[d])) {
                        self.res.remove(FILES[f].0).unwrap();
                    }
                }
                tree.remove_source(DIRS[d]);
            }
            Op::Cfg(k) => self.cfg = k,
            Op::Collect => {
                let _ = tree.collect_work(&self.res, &options(self.cfg));
            }
            Op::Process => {
                if self.has_created {
                    let _ = tree.collect_work(&self.res, &options(self.cfg));
                    self.has_created = false;
                }
                let _ = tree.process(&self.res, options(self.cfg));
                apply_to_state(&mut self.state, op);
                return Some(self.observe());
            }
        }
        apply_to_state(&mut self.state, op);
        None
    }
}

/// Run a history on the real worker: one `Step` per `process`, stopping at the first panic.
fn run_real(h: &[Op]) -> (Vec<Step>, FsState, usize, BTreeMap<String, String>) {
    let init = initial_state_of(h);
    let mut real = match catch_unwind(|| Real::start(init.clone())) {
        Ok(r) => r,
        Err(e) => return (vec![Step::Panic(panic_text(e))], init, 0, BTreeMap::new()),
    };
    let mut steps = Vec::new();
    for &op in h {
        let r = catch_unwind(AssertUnwindSafe(|| real.apply(op)));
        match r {
            Ok(Some(obs)) => steps.push(Step::Obs(obs)),
            Ok(None) => {}
            Err(e) => {
                steps.push(Step::Panic(format!("{} at `{}`", panic_text(e), op.text())));
                break;
            }
        }
    }
    let inputs = catch_unwind(AssertUnwindSafe(|| input_tree(&real.res))).unwrap_or_default();
    (steps, real.state.clone(), real.cfg, inputs)
}

fn panic_text(e: Box<dyn std::any::Any + Send>) -> String {
    if let Some(s) = e.downcast_ref::<&str>() {
        (*s).to_owned()
    } else if let Some(s) = e.downcast_ref::<String>() {
        s.clone()
    } else {
        "panic".to_owned()
    }
}

// ---------------------------------------------------------------------------------------
// reference artefacts measured on the real code: fresh runs and the single-file table T

type Tree = BTreeMap<String, String>;

fn fresh_cache() -> &'static Mutex<HashMap<(usize, FsState), Arc<Result<Tree, String>>>> {
    static C: OnceLock<Mutex<HashMap<(usize, FsState), Arc<Result<Tree, String>>>>> = OnceLock::new();
    C.get_or_init(Default::default)
}

/// ORACLE: a real fresh run (new resources with the final inputs and the foreign files, new worker)
fn fresh(cfg: usize, state: &FsState) -> Arc<Result<Tree, String>> {
    if let Some(t) = fresh_cache().lock().unwrap().get(&(cfg, state.clone())) {
        return t.clone();
    }
    let r = catch_unwind(|| {
        let res = Resources::from_memory();
        populate(&res, state, true);
        let _ = darklua_core::process(&res, options(cfg));
        out_tree(&res)
    })
    .map_err(panic_text);
    let r = Arc::new(r);
    fresh_cache().lock().unwrap().insert((cfg, state.clone()), r.clone());
    r
}

#[derive(Clone, Debug, PartialEq, Eq)]
struct TRes {
    out: Option<String>,
    deps: Vec<String>,
}

fn t_cache() -> &'static Mutex<HashMap<(usize, FsState, usize), Arc<TRes>>> {
    static C: OnceLock<Mutex<HashMap<(usize, FsState, usize), Arc<TRes>>>> = OnceLock::new();
    C.get_or_init(Default::default)
}

/// T cfg fs p, measured: darklua on the single file p in fresh resources holding the inputs `state`.
fn measure_t(cfg: usize, state: &FsState, f: usize) -> Arc<TRes> {
    let key = (cfg, state.clone(), f);
    if let Some(t) = t_cache().lock().unwrap().get(&key) {
        return t.clone();
    }
    let path = FILES[f].0;
    let out = out_path(path);
    let r = catch_unwind(|| {
        let res = Resources::from_memory();
        populate(&res, state, false);
        let opts = Options::new(path).with_output(&out).with_configuration(config(cfg));
        let deps: Vec<String> = match darklua_core::process(&res, opts) {
            Ok(tree) => {
                let mut d: Vec<String> = tree
                    .iter_external_dependencies()
                    .map(|p| p.to_string_lossy().replace('\\', "/"))
                    .collect();
                d.sort();
                d
            }
            Err(_) => Vec::new(),
        };
        TRes { out: res.get(&out).ok(), deps }
    })
    .unwrap_or(TRes { out: None, deps: Vec::new() });
    let r = Arc::new(r);
    t_cache().lock().unwrap().insert(key, r.clone());
    r
}

// ---------------------------------------------------------------------------------------
// the Lean model side (`c10.run`)

struct Interner {
    ids: HashMap<String, usize>,
    names: Vec<String>,
}

impl Interner {
    fn new() -> Self {
        Interner { ids: HashMap::new(), names: Vec::new() }
    }
    fn id(&mut self, s: &str) -> usize {
        if let Some(i) = self.ids.get(s) {
            return *i;
        }
        let i = self.names.len();
        self.ids.insert(s.to_owned(), i);
        self.names.push(s.to_owned());
        i
    }
}

struct Codec {
    comps: Interner,
    contents: Interner,
    hashes: Interner,
}

impl Codec {
    fn new() -> Self {
        Codec { comps: Interner::new(), contents: Interner::new(), hashes: Interner::new() }
    }
    fn path(&mut self, p: &str) -> String {
        let ids: Vec<String> = p.split('/').map(|c| self.comps.id(c).to_string()).collect();
        format!("(p {})", ids.join(" "))
    }
    fn unpath(&self, s: &Sx) -> Option<String> {
        let items = s.list()?;
        if items.first()?.atom()? != "p" {
            return None;
        }
        let comps: Option<Vec<String>> = items[1..]
            .iter()
            .map(|c| c.atom()?.parse::<usize>().ok().and_then(|i| self.comps.names.get(i).cloned()))
            .collect();
        Some(comps?.join("/"))
    }
}

/// minimal S-expression reader for the model's answers
#[derive(Clone, Debug)]
enum Sx {
    Atom(String),
    List(Vec<Sx>),
}

impl Sx {
    fn atom(&self) -> Option<&str> {
        match self {
            Sx::Atom(s) => Some(s),
            _ => None,
        }
    }
    fn list(&self) -> Option<&[Sx]> {
        match self {
            Sx::List(v) => Some(v),
            _ => None,
        }
    }
    fn tagged(&self, tag: &str) -> Option<&[Sx]> {
        let l = self.list()?;
        if l.first()?.atom()? == tag {
            Some(&l[1..])
        } else {
            None
        }
    }
    fn parse(s: &str) -> Option<Sx> {
        let mut stack: Vec<Vec<Sx>> = vec![Vec::new()];
        let mut tok = String::new();
        let flush = |tok: &mut String, stack: &mut Vec<Vec<Sx>>| {
            if !tok.is_empty() {
                stack.last_mut().unwrap().push(Sx::Atom(std::mem::take(tok)));
            }
        };
        for c in s.chars() {
            match c {
                '(' => {
                    flush(&mut tok, &mut stack);
                    stack.push(Vec::new());
                }
                ')' => {
                    flush(&mut tok, &mut stack);
                    let top = stack.pop()?;
                    stack.last_mut()?.push(Sx::List(top));
                }
                c if c.is_whitespace() => flush(&mut tok, &mut stack),
                c => tok.push(c),
            }
        }
        flush(&mut tok, &mut stack);
        if stack.len() != 1 || stack[0].len() != 1 {
            return None;
        }
        stack.pop()?.pop()
    }
}

/// The model's verdict on a history
#[derive(Clone, Debug)]
struct ModelRun {
    steps: Vec<Step>,
    /// None = inside the proved region H10; Some(region) = first excluded region met
    region: Option<String>,
    /// index of the operation that entered it
    region_at: Option<usize>,
    /// every excluded region met, in order
    hits: Vec<String>,
    /// the model's own final state equals the model-level `freshOut` spec
    fresh_same: Option<bool>,
    raw: String,
}

/// Build the `c10.run` request: the project, the measured T table for every (configuration,
/// input state, source) the history can meet at a `process`, the measured configuration hashes.
fn model_request(h: &[Op]) -> (String, Codec) {
    let mut cx = Codec::new();
    let mut s = String::from("c10.run (req");
    s.push_str(&format!(" (in {})", cx.path(INPUT)));
    s.push_str(&format!(" (out {})", cx.path(OUTPUT)));
    // every path of the universe, so that component ids are fixed
    let univ: Vec<String> = FILES.iter().map(|f| cx.path(f.0)).collect();
    let lua: Vec<String> = cx
        .comps
        .names
        .iter()
        .enumerate()
        .filter(|(_, n)| n.ends_with(".lua") || n.ends_with(".luau"))
        .map(|(i, _)| i.to_string())
        .collect();
    s.push_str(&format!(" (lua {})", lua.join(" ")));
    s.push_str(&format!(" (univ {})", univ.join(" ")));
    // initial file system: inputs + foreign files
    let mut init = Vec::new();
    let init_state = initial_state_of(h);
    for (i, f) in FILES.iter().enumerate() {
        if let Some(v) = init_state[i] {
            let p = cx.path(f.0);
            init.push(format!("(f {} {})", p, cx.contents.id(f.1[v])));
        }
    }
    for (p, c) in FOREIGN {
        let p = cx.path(p);
        init.push(format!("(f {} {})", p, cx.contents.id(c)));
    }
    s.push_str(&format!(" (init {})", init.join(" ")));
    let hashes: Vec<String> = (0..CONFIGS.len())
        .map(|k| {
            let text = String::from_utf8_lossy(&config_hash_text(k)).into_owned();
            format!("(h {} {})", k, cx.hashes.id(&text))
        })
        .collect();
    s.push_str(&format!(" (hashes {})", hashes.join(" ")));
    // T table: at each `process` (and the initial run) for the current configuration and inputs
    let mut table: BTreeMap<(usize, FsState, usize), Arc<TRes>> = BTreeMap::new();
    // every (configuration of the history, input state after each operation, present source):
    // the model evaluates T at `process` and inside the H10 monitor (`staleAfter`)
    let mut cfgs: BTreeSet<usize> = BTreeSet::new();
    cfgs.insert(0);
    for op in h {
        if let Op::Cfg(k) = op {
            cfgs.insert(*k);
        }
    }
    let mut state = initial_state_of(h);
    let note = |state: &FsState, table: &mut BTreeMap<(usize, FsState, usize), Arc<TRes>>| {
        for &cfg in cfgs.iter() {
            for f in 0..FILES.len() {
                if state[f].is_some() && is_source(FILES[f].0) {
                    table.entry((cfg, state.clone(), f)).or_insert_with(|| measure_t(cfg, state, f));
                }
            }
        }
    };
    note(&state, &mut table);
    for &op in h {
        apply_to_state(&mut state, op);
        note(&state, &mut table);
    }
    let mut entries = Vec::new();
    for ((k, st, f), t) in table.iter() {
        let fs: Vec<String> = st
            .iter()
            .enumerate()
            .map(|(g, v)| match v {
                Some(v) => cx.contents.id(FILES[g].1[*v]).to_string(),
                None => "n".to_owned(),
            })
            .collect();
        let out = match &t.out {
            Some(c) => format!("(ok {})", cx.contents.id(c)),
            None => "err".to_owned(),
        };
        let deps: Vec<String> = t.deps.iter().map(|d| cx.path(d)).collect();
        entries.push(format!("(e {} (fs {}) {} {} (deps {}))", k, fs.join(" "), cx.path(FILES[*f].0), out, deps.join(" ")));
    }
    s.push_str(&format!(" (T {})", entries.join(" ")));
    let ops: Vec<String> = h
        .iter()
        .filter(|op| !matches!(op, Op::Init(_)))
        .map(|op| match *op {
            Op::Init(_) => String::new(),
            Op::Edit(f, v) => format!("(edit {} {})", cx.path(FILES[f].0), cx.contents.id(FILES[f].1[v])),
            Op::Add(f, v) => format!("(add {} {})", cx.path(FILES[f].0), cx.contents.id(FILES[f].1[v])),
            Op::Rm(f) => format!("(rm {})", cx.path(FILES[f].0)),
            Op::RmDir(d) => format!("(rmdir {})", cx.path(DIRS[d])),
            Op::Cfg(k) => format!("(cfg {})", k),
            Op::Collect => "collect".to_owned(),
            Op::Process => "process".to_owned(),
        })
        .collect();
    s.push_str(&format!(" (hist {})", ops.join(" ")));
    s.push(')');
    (s, cx)
}

fn decode_model(answer: &str, cx: &Codec) -> Option<ModelRun> {
    let sx = Sx::parse(answer)?;
    let items = sx.tagged("run")?;
    let mut steps = Vec::new();
    let mut region = None;
    let mut region_at = None;
    let mut hits = Vec::new();
    let mut fresh_same = None;
    for it in items {
        if let Some(rest) = it.tagged("steps") {
            for st in rest {
                if st.atom() == Some("panic") {
                    steps.push(Step::Panic("model".to_owned()));
                } else {
                    let parts = st.tagged("ok")?;
                    let mut obs = Obs { tree: BTreeMap::new(), success: 0, errors: 0, ext: BTreeSet::new() };
                    for part in parts {
                        if let Some(files) = part.tagged("tree") {
                            for f in files {
                                let f = f.tagged("f")?;
                                let p = cx.unpath(&f[0])?;
                                let c = f[1].atom()?.parse::<usize>().ok()?;
                                obs.tree.insert(p, cx.contents.names.get(c)?.clone());
                            }
                        } else if let Some(n) = part.tagged("succ") {
                            obs.success = n[0].atom()?.parse().ok()?;
                        } else if let Some(n) = part.tagged("errs") {
                            obs.errors = n[0].atom()?.parse().ok()?;
                        } else if let Some(ps) = part.tagged("ext") {
                            for p in ps {
                                obs.ext.insert(cx.unpath(p)?);
                            }
                        }
                    }
                    steps.push(Step::Obs(obs));
                }
            }
        } else if let Some(r) = it.tagged("h10") {
            let name = r[0].atom()?;
            region = if name == "ok" { None } else { Some(name.to_owned()) };
            region_at = r.get(1).and_then(|x| x.atom()).and_then(|x| x.parse().ok());
        } else if let Some(r) = it.tagged("hits") {
            hits = r.iter().filter_map(|x| x.atom().map(str::to_owned)).collect();
        } else if let Some(r) = it.tagged("fresh") {
            fresh_same = match r[0].atom()? {
                "same" => Some(true),
                "differs" => Some(false),
                _ => None,
            };
        }
    }
    Some(ModelRun { steps, region, region_at, hits, fresh_same, raw: answer.to_owned() })
}

fn run_model(model: &mut Model, h: &[Op]) -> Result<ModelRun, String> {
    let (req, cx) = model_request(h);
    let answer = model.ask(&req);
    decode_model(&answer, &cx).ok_or_else(|| format!("unreadable model answer: {}", &answer[..answer.len().min(200)]))
}

// ---------------------------------------------------------------------------------------
// judging one history

#[derive(Clone, Debug)]
struct Verdict {
    /// the real run breaks the property (vs the real fresh run / panic): description
    oracle: Option<String>,
    /// model and real differ: description
    correspondence: Option<String>,
    region: Option<String>,
    processed: usize,
    /// correspondence not judged (slot-allocation dependent tail of an F10 history)
    skipped: bool,
}

fn first_diff(a: &Tree, b: &Tree) -> String {
    let keys: BTreeSet<&String> = a.keys().chain(b.keys()).collect();
    for k in keys {
        if a.get(k) != b.get(k) {
            return format!("{}: {:?} vs {:?}", k, a.get(k), b.get(k));
        }
    }
    "equal".to_owned()
}

/// ORACLE only (no model): first step at which the real worker differs from a real fresh run
fn judge_oracle(h: &[Op]) -> Option<String> {
    let r = run_real(h);
    judge_oracle_on(h, &r.0, &r.3)
}

fn judge_oracle_on(h: &[Op], steps: &[Step], inputs: &BTreeMap<String, String>) -> Option<String> {
    let mut state = initial_state_of(h);
    let mut cfg = 0;
    let mut it = steps.iter();
    let mut n = 0;
    for &op in h {
        apply_to_state(&mut state, op);
        if let Op::Cfg(k) = op {
            cfg = k;
        }
        if op == Op::Process {
            n += 1;
            match it.next() {
                Some(Step::Obs(obs)) => match &*fresh(cfg, &state) {
                    Ok(t) => {
                        if *t != obs.tree {
                            return Some(format!(
                                "after process #{} the output tree differs from a fresh run: {}",
                                n,
                                first_diff(&obs.tree, t)
                            ));
                        }
                    }
                    Err(e) => return Some(format!("the fresh run panics: {}", e)),
                },
                Some(Step::Panic(msg)) => return Some(format!("panic: {}", msg)),
                None => break,
            }
        }
    }
    if let Some(Step::Panic(msg)) = it.next() {
        return Some(format!("panic: {}", msg));
    }
    if let Some(Step::Panic(msg)) = steps.last() {
        return Some(format!("panic: {}", msg));
    }
    // the worker must never touch its inputs
    let mut expected = Tree::new();
    for (f, v) in state.iter().enumerate() {
        if let Some(v) = v {
            expected.insert(FILES[f].0.to_owned(), FILES[f].1[*v].to_owned());
        }
    }
    if !inputs.is_empty() && *inputs != expected {
        return Some(format!("input files were modified: {}", first_diff(inputs, &expected)));
    }
    None
}

fn judge(model: &mut Model, h: &[Op]) -> Verdict {
    let (real_steps, _, _, inputs) = run_real(h);
    let oracle = judge_oracle_on(h, &real_steps, &inputs);
    let processed = real_steps.len();
    match run_model(model, h) {
        Err(e) => Verdict { oracle, correspondence: Some(e), region: None, processed, skipped: false },
        Ok(m) => {
            let mut corr = None;
            if m.region.is_none() && m.fresh_same == Some(false) {
                corr = Some("the model itself leaves H10-history outputs different from its fresh spec (theorem contradicted)".to_owned());
            }
            if corr.is_some() {
            } else if m.steps.len() != real_steps.len() {
                corr = Some(format!("model reports {} steps, real {}", m.steps.len(), real_steps.len()));
            } else {
                for (i, (a, b)) in m.steps.iter().zip(real_steps.iter()).enumerate() {
                    match (a, b) {
                        (Step::Panic(_), Step::Panic(_)) => {}
                        (Step::Obs(a), Step::Obs(b)) => {
                            if a != b {
                                corr = Some(if a.tree != b.tree {
                                    format!("process #{}: tree (model vs real) {}", i + 1, first_diff(&a.tree, &b.tree))
                                } else {
                                    format!(
                                        "process #{}: model (succ {}, errs {}, ext {:?}) real (succ {}, errs {}, ext {:?})",
                                        i + 1, a.success, a.errors, a.ext, b.success, b.errors, b.ext
                                    )
                                });
                                break;
                            }
                        }
                        (Step::Panic(_), _) => {
                            corr = Some(format!("process #{}: the model panics, the real worker does not", i + 1));
                            break;
                        }
                        (_, Step::Panic(msg)) => {
                            corr = Some(format!("process #{}: the real worker panics ({}), the model does not", i + 1, msg));
                            break;
                        }
                    }
                }
            }
            Verdict { oracle, correspondence: corr, region: m.region, processed, skipped: false }
        }
    }
}

// ---------------------------------------------------------------------------------------
// shrinking (delta debugging on the op list)

fn shrink(h: &[Op], fails: &mut dyn FnMut(&[Op]) -> bool) -> Vec<Op> {
    let mut cur = canonical(h);
    let mut chunk = cur.len() / 2;
    while chunk >= 1 {
        let mut i = 0;
        let mut progressed = false;
        while i < cur.len() {
            let mut cand: Vec<Op> = cur[..i].to_vec();
            cand.extend_from_slice(&cur[(i + chunk).min(cur.len())..]);
            let cand = canonical(&cand);
            if cand.len() < cur.len() && fails(&cand) {
                cur = cand;
                progressed = true;
            } else {
                i += chunk;
            }
        }
        if !progressed {
            chunk /= 2;
        }
    }
    cur
}

// ---------------------------------------------------------------------------------------
// generation

fn alphabet() -> Vec<Op> {
    alphabet_with(CONFIGS.len())
}

/// the operation alphabet with the first `configs` configurations as `cfg` steps
fn alphabet_with(configs: usize) -> Vec<Op> {
    let mut a = Vec::new();
    a.push(Op::Process);
    a.push(Op::Edit(F_A, 1));
    a.push(Op::Edit(F_A, 2));
    a.push(Op::Edit(F_C, 1));
    a.push(Op::Edit(F_ENTRY, 1));
    a.push(Op::Edit(F_M1, 1));
    a.push(Op::Edit(F_DATA, 1));
    a.push(Op::Edit(F_M2, 1));
    a.push(Op::Add(F_NEW, 0));
    a.push(Op::Add(F_NEW, 1));
    a.push(Op::Add(F_LATE, 0));
    a.push(Op::Edit(F_B, 1));
    a.push(Op::Add(F_A, 1));
    a.push(Op::Add(F_ENTRY, 0));
    a.push(Op::Add(F_M1, 0));
    a.push(Op::Add(F_DATA, 1));
    a.push(Op::Add(F_M2, 1));
    a.push(Op::Rm(F_A));
    a.push(Op::Rm(F_ENTRY));
    a.push(Op::Rm(F_M1));
    a.push(Op::Rm(F_DATA));
    a.push(Op::Rm(F_M2));
    a.push(Op::RmDir(0));
    a.push(Op::RmDir(1));
    for k in 0..configs {
        a.push(Op::Cfg((k + 1) % configs));
    }
    a.push(Op::Collect);
    a
}

fn random_op(rng: &mut Rng, state: &FsState) -> Op {
    loop {
        let op = match rng.below(16) {
            0..=3 => Op::Process,
            4..=6 => {
                let f = rng.below(FILES.len());
                Op::Edit(f, rng.below(FILES[f].1.len()))
            }
            7..=8 => {
                let f = rng.below(FILES.len());
                Op::Add(f, rng.below(FILES[f].1.len()))
            }
            9..=10 => Op::Rm(rng.below(FILES.len())),
            11 => Op::RmDir(rng.below(DIRS.len())),
            12..=13 => Op::Cfg(rng.below(CONFIGS.len())),
            14 => Op::Collect,
            _ => Op::Add(rng.below(FILES.len()), 0),
        };
        if op_valid(state, op) {
            return op;
        }
    }
}

fn random_history(rng: &mut Rng, len: usize) -> Vec<Op> {
    let mut state = initial_state();
    let mut h = Vec::new();
    for _ in 0..len {
        let op = random_op(rng, &state);
        apply_to_state(&mut state, op);
        h.push(op);
    }
    canonical(&h)
}

/// all canonical histories of exactly `len` operations drawn from `alphabet` (+ the closing process)
fn enumerate(len: usize, alphabet: &[Op], out: &mut Vec<Vec<Op>>) {
    enumerate_from(0, len, alphabet, out)
}

/// the same from initial variant `init` (histories carry the leading `init` marker)
fn enumerate_from(init: usize, len: usize, alphabet: &[Op], out: &mut Vec<Vec<Op>>) {
    let prefix: Vec<Op> = if init == 0 { Vec::new() } else { vec![Op::Init(init)] };
    let offset = prefix.len();
    fn go(len: usize, alphabet: &[Op], state: &FsState, cur: &mut Vec<Op>, out: &mut Vec<Vec<Op>>) {
        if cur.len() == len {
            if cur.last() == Some(&Op::Process) {
                // the closing process is implicit: histories ending in `process` are those of length len-1
                return;
            }
            let mut h = cur.clone();
            h.push(Op::Process);
            out.push(h);
            return;
        }
        for &op in alphabet {
            if !op_valid(state, op) {
                continue;
            }
            // two processes in a row, or cfg directly after cfg, add nothing
            if op == Op::Process && cur.last() == Some(&Op::Process) {
                continue;
            }
            if let (Op::Cfg(_), Some(Op::Cfg(_))) = (op, cur.last()) {
                continue;
            }
            let mut st = state.clone();
            apply_to_state(&mut st, op);
            cur.push(op);
            go(len, alphabet, &st, cur, out);
            cur.pop();
        }
    }
    let mut cur = prefix.clone();
    go(len + offset, alphabet, &initial_state_of(&prefix), &mut cur, out);
}

// ---------------------------------------------------------------------------------------
// the on-hold path of the work loop (user-defined rule overriding `Rule::require_content`)

#[derive(Debug, Default)]
struct NeedsContent {
    metadata: darklua_core::rules::RuleMetadata,
    required: std::path::PathBuf,
    only_for: std::path::PathBuf,
}

impl darklua_core::rules::RuleConfiguration for NeedsContent {
    fn configure(
        &mut self,
        _properties: darklua_core::rules::RuleProperties,
    ) -> Result<(), darklua_core::rules::RuleConfigurationError> {
        Ok(())
    }
    fn get_name(&self) -> &'static str {
        "verif_needs_content"
    }
    fn serialize_to_properties(&self) -> darklua_core::rules::RuleProperties {
        Default::default()
    }
    fn set_metadata(&mut self, metadata: darklua_core::rules::RuleMetadata) {
        self.metadata = metadata;
    }
    fn metadata(&self) -> &darklua_core::rules::RuleMetadata {
        &self.metadata
    }
}

impl darklua_core::rules::Rule for NeedsContent {
    fn process(
        &self,
        _block: &mut darklua_core::nodes::Block,
        _context: &darklua_core::rules::Context,
    ) -> darklua_core::rules::RuleProcessResult {
        Ok(())
    }
    fn require_content(
        &self,
        current_source: &std::path::Path,
        _current_block: &darklua_core::nodes::Block,
    ) -> Vec<std::path::PathBuf> {
        if current_source == self.only_for {
            vec![self.required.clone()]
        } else {
            Vec::new()
        }
    }
}

/// Does a plain fresh run terminate within `secs` when src/a.lua is put on hold for `required`?
/// (Runs on a detached thread: a hanging run keeps spinning until the harness exits.)
fn on_hold_run_terminates(required: &'static str, secs: u64) -> Option<bool> {
    on_hold_run("src/a.lua", required, secs).map(|r| r.0)
}

/// (no panic, number of outputs written) of a fresh run where `only_for` is put on hold for `required`
fn on_hold_run(only_for: &'static str, required: &'static str, secs: u64) -> Option<(bool, usize, bool)> {
    let (tx, rx) = mpsc::channel::<(bool, usize, bool)>();
    std::thread::spawn(move || {
        let r = catch_unwind(|| {
            let res = Resources::from_memory();
            res.write("src/a.lua", "return 1\n").unwrap();
            res.write("src/b.lua", "return 2\n").unwrap();
            let rule: Box<dyn darklua_core::rules::Rule> = Box::new(NeedsContent {
                metadata: Default::default(),
                required: required.into(),
                only_for: only_for.into(),
            });
            let cfg = Configuration::empty().with_rule(rule);
            let result = darklua_core::process(&res, Options::new(INPUT).with_output(OUTPUT).with_configuration(cfg));
            (res.walk(OUTPUT).count(), result.is_ok())
        });
        let (outputs, ok) = r.as_ref().map(|x| *x).unwrap_or((0, false));
        let _ = tx.send((r.is_ok(), outputs, ok));
    });
    match rx.recv_timeout(Duration::from_secs(secs)) {
        Ok(ok) => Some(ok),
        Err(_) => None,
    }
}

// ---------------------------------------------------------------------------------------
// a second project: the bundle entry sits at the ROOT of the working directory (single-file input
// `main.lua` -> `out/main.lua`), its dependencies next to it and one level down. Judged by the
// fresh-run oracle only (the Lean model covers the directory-input mode with disjoint folders).

const ROOT_FILES: &[(&str, &[&str])] = &[
    ("main.lua", &["local a = require(\"./a\")\nlocal b = require(\"./lib/b\")\nreturn a + b\n", "local a = require(\"./a\")\nreturn a\n"]),
    ("a.lua", &["return 1\n", "return 2\n"]),
    ("lib/b.lua", &["return 10\n", "return 20\n"]),
];

#[derive(Clone, Copy, Debug, PartialEq, Eq)]
enum RootOp {
    Edit(usize, usize),
    Rm(usize),
    Add(usize, usize),
    Cfg(usize),
    Process,
}

impl RootOp {
    fn text(&self) -> String {
        match *self {
            RootOp::Edit(f, v) => format!("edit {} {}", ROOT_FILES[f].0, v),
            RootOp::Rm(f) => format!("rm {}", ROOT_FILES[f].0),
            RootOp::Add(f, v) => format!("add {} {}", ROOT_FILES[f].0, v),
            RootOp::Cfg(k) => format!("cfg {}", k),
            RootOp::Process => "process".to_owned(),
        }
    }
}

impl RootOp {
    fn parse(s: &str) -> Option<RootOp> {
        let parts: Vec<&str> = s.split_whitespace().collect();
        let file = |p: &str| ROOT_FILES.iter().position(|f| f.0 == p);
        match parts.as_slice() {
            ["edit", p, v] => Some(RootOp::Edit(file(p)?, v.parse().ok()?)),
            ["add", p, v] => Some(RootOp::Add(file(p)?, v.parse().ok()?)),
            ["rm", p] => Some(RootOp::Rm(file(p)?)),
            ["cfg", k] => Some(RootOp::Cfg(k.parse().ok().filter(|k| *k < CONFIGS.len())?)),
            ["process"] => Some(RootOp::Process),
            _ => None,
        }
    }
}

fn root_alphabet() -> Vec<RootOp> {
    vec![
        RootOp::Process,
        RootOp::Edit(0, 1),
        RootOp::Edit(0, 0),
        RootOp::Edit(1, 1),
        RootOp::Edit(2, 1),
        RootOp::Rm(1),
        RootOp::Rm(2),
        RootOp::Add(1, 1),
        RootOp::Add(2, 1),
        RootOp::Cfg(1),
        RootOp::Cfg(3),
    ]
}

/// all histories up to `len` operations; a removed file is only created again within the same
/// batch (re-creating it after a pass that failed on its absence is the known finding F12)
fn root_histories(len: usize) -> Vec<Vec<RootOp>> {
    fn go(len: usize, alpha: &[RootOp], present: [bool; 3], failed_pass: [bool; 3], cur: &mut Vec<RootOp>, out: &mut Vec<Vec<RootOp>>) {
        if !cur.is_empty() {
            out.push(cur.clone());
        }
        if cur.len() == len {
            return;
        }
        for &op in alpha {
            let mut present2 = present;
            let mut failed2 = failed_pass;
            match op {
                RootOp::Edit(f, _) => {
                    if !present[f] {
                        continue;
                    }
                }
                RootOp::Rm(f) => {
                    if !present[f] {
                        continue;
                    }
                    present2[f] = false;
                }
                RootOp::Add(f, _) => {
                    if present[f] || failed_pass[f] {
                        continue;
                    }
                    present2[f] = true;
                }
                RootOp::Process => {
                    if cur.last() == Some(&RootOp::Process) {
                        continue;
                    }
                    for f in 0..3 {
                        if !present[f] {
                            failed2[f] = true;
                        }
                    }
                }
                RootOp::Cfg(_) => {
                    if let Some(RootOp::Cfg(_)) = cur.last() {
                        continue;
                    }
                }
            }
            cur.push(op);
            go(len, alpha, present2, failed2, cur, out);
            cur.pop();
        }
    }
    let mut out = Vec::new();
    go(len, &root_alphabet(), [true; 3], [false; 3], &mut Vec::new(), &mut out);
    out
}

fn root_history_json(h: &[RootOp]) -> Value {
    Value::Array(h.iter().map(|o| Value::String(o.text())).collect())
}

fn root_options(k: usize) -> Options {
    Options::new("main.lua").with_output("out/main.lua").with_configuration(config(k))
}

fn root_fresh(state: &[Option<usize>], cfg: usize) -> Tree {
    let res = Resources::from_memory();
    for (f, v) in state.iter().enumerate() {
        if let Some(v) = v {
            res.write(ROOT_FILES[f].0, ROOT_FILES[f].1[*v]).unwrap();
        }
    }
    let _ = darklua_core::process(&res, root_options(cfg));
    out_tree(&res)
}

/// run a history on the root-level project; Some(description) at the first divergence from a fresh run
fn root_judge(h: &[RootOp]) -> Option<String> {
    let r = catch_unwind(|| {
        let res = Resources::from_memory();
        let mut state: Vec<Option<usize>> = ROOT_FILES.iter().map(|_| Some(0)).collect();
        for (f, v) in state.iter().enumerate() {
            res.write(ROOT_FILES[f].0, ROOT_FILES[f].1[v.unwrap()]).unwrap();
        }
        let mut cfg = 0usize;
        let mut tree = match darklua_core::process(&res, root_options(cfg)) {
            Ok(t) => t,
            Err(e) => return Some(format!("the first run fails: {}", e)),
        };
        let mut has_created = false;
        let mut n = 0;
        for op in h.iter().chain(std::iter::once(&RootOp::Process)) {
            match *op {
                RootOp::Edit(f, v) => {
                    if state[f].is_none() {
                        continue;
                    }
                    res.write(ROOT_FILES[f].0, ROOT_FILES[f].1[v]).unwrap();
                    state[f] = Some(v);
                    tree.source_changed(ROOT_FILES[f].0);
                }
                RootOp::Rm(f) => {
                    if state[f].is_none() {
                        continue;
                    }
                    res.remove(ROOT_FILES[f].0).unwrap();
                    state[f] = None;
                    tree.remove_source(ROOT_FILES[f].0);
                }
                RootOp::Add(f, v) => {
                    if state[f].is_some() {
                        continue;
                    }
                    res.write(ROOT_FILES[f].0, ROOT_FILES[f].1[v]).unwrap();
                    state[f] = Some(v);
                    has_created = true;
                }
                RootOp::Cfg(k) => cfg = k,
                RootOp::Process => {
                    if has_created {
                        let _ = tree.collect_work(&res, &root_options(cfg));
                        has_created = false;
                    }
                    let _ = tree.process(&res, root_options(cfg));
                    n += 1;
                    let real = out_tree(&res);
                    let fresh = root_fresh(&state, cfg);
                    if !fresh.contains_key("out/main.lua") {
                        // the entry fails in a fresh run: whether its previous output stays is the
                        // known finding F25, not judged here
                        continue;
                    }
                    if real != fresh {
                        return Some(format!("after process #{} the output differs from a fresh run: {}", n, first_diff(&real, &fresh)));
                    }
                }
            }
        }
        None
    });
    match r {
        Ok(v) => v,
        Err(e) => Some(format!("panic: {}", panic_text(e))),
    }
}

// ---------------------------------------------------------------------------------------
// driver

struct Finding {
    id: String,
    witness: Vec<Op>,
    region: String,
}

fn load_findings() -> Vec<Finding> {
    known_findings("C10")
        .iter()
        .filter(|e| e["status"] == "known")
        .filter_map(|e| {
            Some(Finding {
                id: e["id"].as_str()?.to_owned(),
                witness: history_from_json(&e["witness"]["history"])?,
                region: e["hypothesis_region"].as_str().unwrap_or("").to_owned(),
            })
        })
        .collect()
}

struct Shared {
    next: AtomicU64,
    stop: AtomicBool,
    current: Vec<Mutex<Option<(Instant, Vec<Op>)>>>,
}

enum Msg {
    Done(Vec<Op>, Verdict),
    Finished,
}

/// keep a random history inside H10: drop the operation that enters an excluded region, retry
fn repair(model: &mut Model, h: Vec<Op>) -> Vec<Op> {
    let mut cur = h;
    for _ in 0..40 {
        match run_model(model, &cur) {
            Ok(m) => match m.region_at {
                Some(k0) if k0 + usize::from(matches!(cur.first(), Some(Op::Init(_)))) < cur.len() => {
                    // the model counts operations without the leading `init` marker
                    let k = k0 + usize::from(matches!(cur.first(), Some(Op::Init(_))));
                    let mut next = cur.clone();
                    next.remove(k);
                    cur = canonical(&next);
                }
                _ => return cur,
            },
            Err(_) => return cur,
        }
    }
    cur
}

fn run_parallel(histories: Arc<Vec<(Vec<Op>, bool)>>, threads: usize, mut on: impl FnMut(Vec<Op>, Verdict)) -> Option<Vec<Op>> {
    let shared = Arc::new(Shared {
        next: AtomicU64::new(0),
        stop: AtomicBool::new(false),
        current: (0..threads).map(|_| Mutex::new(None)).collect(),
    });
    let (tx, rx) = mpsc::channel::<Msg>();
    for t in 0..threads {
        let shared = shared.clone();
        let histories = histories.clone();
        let tx = tx.clone();
        std::thread::spawn(move || {
            let mut model = Model::spawn();
            loop {
                if shared.stop.load(Ordering::Relaxed) {
                    break;
                }
                let i = shared.next.fetch_add(1, Ordering::Relaxed) as usize;
                if i >= histories.len() {
                    break;
                }
                let (h, guided) = histories[i].clone();
                let h = if guided { repair(&mut model, h) } else { h };
                *shared.current[t].lock().unwrap() = Some((Instant::now(), h.clone()));
                let v = judge(&mut model, &h);
                *shared.current[t].lock().unwrap() = None;
                if tx.send(Msg::Done(h, v)).is_err() {
                    break;
                }
            }
            let _ = tx.send(Msg::Finished);
        });
    }
    drop(tx);
    let mut finished = 0;
    while finished < threads {
        match rx.recv_timeout(Duration::from_secs(5)) {
            Ok(Msg::Done(h, v)) => on(h, v),
            Ok(Msg::Finished) => finished += 1,
            Err(mpsc::RecvTimeoutError::Timeout) => {
                // watchdog: a history running for more than 60 s is a hang
                for slot in shared.current.iter() {
                    if let Some((since, h)) = slot.lock().unwrap().clone() {
                        if since.elapsed() > Duration::from_secs(60) {
                            shared.stop.store(true, Ordering::Relaxed);
                            return Some(h);
                        }
                    }
                }
            }
            Err(mpsc::RecvTimeoutError::Disconnected) => break,
        }
    }
    None
}

pub fn run(report: &mut Report, replay: Option<&str>) {
    report.rule = "histories over a fixed project, optionally starting with a dependency missing, 12 configurations covering every kind of configuration change, plus a root-level-entry project (4 plain sources incl. a nested directory and a late-added file, a bundle entry requiring a source module, a module outside the input folder and a JSON data file, two foreign files in the output folder, 12 configurations); operations edit/add/rm/rmdir/cfg/collect/process as file_watcher.rs issues them; a case is non-trivial when the history contains at least one edit/add/remove/configuration operation (distinct histories counted)".to_owned();

    if let Some(path) = replay {
        replay_file(report, path);
        return;
    }
    if std::env::var("C10_EXPLORE").is_ok() {
        explore(report);
        return;
    }
    main_run(report);
}

fn replay_file(report: &mut Report, path: &str) {
    let text = std::fs::read_to_string(path).unwrap_or_default();
    let v: Value = serde_json::from_str(&text).unwrap_or(Value::Null);
    let h = history_from_json(&v["input"]["history"])
        .or_else(|| history_from_json(&v["witness"]["history"]))
        .or_else(|| history_from_json(&v["history"]));
    if let Some(items) = v["input"]["root_history"].as_array() {
        let h: Option<Vec<RootOp>> = items.iter().map(|x| x.as_str().and_then(RootOp::parse)).collect();
        if let Some(h) = h {
            report.case(Some(format!("{:?}", h)));
            if let Some(what) = root_judge(&h) {
                report.violation(Violation {
                    kind: "oracle".into(),
                    check: "root-level-entry".into(),
                    what,
                    input: json!({"project": "root", "root_history": root_history_json(&h)}),
                    failing_input_found: true,
                });
            }
            return;
        }
    }
    let Some(h) = h else {
        report.notes.push(format!("replay: no history in {}", path));
        return;
    };
    let mut model = Model::spawn();
    let verdict = judge(&mut model, &h);
    report.case(Some(&h));
    report.notes.push(format!("replay verdict: {:?}", verdict));
    let (steps, ..) = run_real(&h);
    report.notes.push(format!("real steps: {:?}", steps));
    if let Ok(m) = run_model(&mut model, &h) {
        report.notes.push(format!("model: {}", m.raw));
    }
    if let Some(what) = verdict.oracle.clone() {
        report.violation(Violation {
            kind: "oracle".into(),
            check: "replay".into(),
            what,
            input: json!({"history": history_json(&h)}),
            failing_input_found: true,
        });
    } else if let Some(what) = verdict.correspondence {
        report.violation(Violation {
            kind: "correspondence".into(),
            check: "replay".into(),
            what,
            input: json!({"history": history_json(&h)}),
            failing_input_found: false,
        });
    }
}

/// development aid: oracle-only sweep that lists minimal failing histories by failure text
fn explore(report: &mut Report) {
    if std::env::var("C10_EXPLORE").as_deref() == Ok("root") {
        let ops = [RootOp::Edit(1, 1), RootOp::Edit(2, 1), RootOp::Edit(0, 1), RootOp::Rm(1), RootOp::Add(1, 1), RootOp::Cfg(1), RootOp::Process];
        for a in ops.iter() {
            let h = vec![*a];
            report.notes.push(format!("{:?} -> {:?}", h.iter().map(|o| o.text()).collect::<Vec<_>>(), root_judge(&h).map(|s| s.chars().take(200).collect::<String>())));
            for b in ops.iter() {
                let h = vec![*a, *b];
                if let Some(w) = root_judge(&h) {
                    report.notes.push(format!("{:?} -> {}", h.iter().map(|o| o.text()).collect::<Vec<_>>(), w.chars().take(200).collect::<String>()));
                }
            }
        }
        return;
    }
    let alpha = alphabet();
    let mut all = Vec::new();
    for len in 1..=3 {
        enumerate(len, &alpha, &mut all);
    }
    let mut seen: BTreeMap<String, Vec<Op>> = BTreeMap::new();
    for h in all.iter() {
        if let Some(what) = judge_oracle(h) {
            let key: String = what.chars().take(400).collect();
            let e = seen.entry(key).or_insert_with(|| h.clone());
            if h.len() < e.len() {
                *e = h.clone();
            }
        }
    }
    for (k, h) in seen {
        report.notes.push(format!("{} <= {}", k, history_json(&h)));
    }
    report.notes.push(format!("explored {}", all.len()));
}

fn main_run(report: &mut Report) {
    
    let threads = std::thread::available_parallelism().map(|n| n.get()).unwrap_or(4).min(16);
    let findings = load_findings();
    let mut rng = Rng::new(report.seed);

    // ---- known findings: replay each witness on the real code
    let mut model = Model::spawn();
    for f in &findings {
        let h = canonical(&f.witness);
        let v = judge(&mut model, &h);
        report.case(Some(&h));
        match (&v.oracle, &v.region) {
            (Some(what), Some(region)) if *region == f.region => {
                let short: String = what.chars().take(160).collect();
                report.known_finding(&f.id, &format!("{} (history {})", short.replace('\n', " "), history_json(&h)));
                if let Some(c) = v.correspondence {
                    report.violation(Violation {
                        kind: "correspondence".into(),
                        check: "known-finding-witness".into(),
                        what: format!("{}: {}", f.id, c),
                        input: json!({"history": history_json(&h)}),
                        failing_input_found: true,
                    });
                }
            }
            (Some(what), region) => report.violation(Violation {
                kind: "finding-changed".into(),
                check: "known-finding-witness".into(),
                what: format!("{} fails ({}) but the model places it in region {:?}, recorded {}", f.id, what, region, f.region),
                input: json!({"history": history_json(&h)}),
                failing_input_found: true,
            }),
            (None, _) => report.notes.push(format!("{}: the recorded witness no longer fails", f.id)),
        }
    }

    // ---- corpus
    let corpus_dir = concat!(env!("CARGO_MANIFEST_DIR"), "/../corpus/C10");
    let mut histories: Vec<(Vec<Op>, bool)> = Vec::new();
    if let Ok(rd) = std::fs::read_dir(corpus_dir) {
        let mut paths: Vec<_> = rd.filter_map(|e| e.ok()).map(|e| e.path()).collect();
        paths.sort();
        for p in paths {
            if let Ok(text) = std::fs::read_to_string(&p) {
                if let Ok(v) = serde_json::from_str::<Value>(&text) {
                    if let Some(h) = history_from_json(&v["history"]) {
                        histories.push((canonical(&h), false));
                        report.count("corpus", 1);
                    }
                }
            }
        }
    }

    // ---- every configuration pair that differs in one respect, both directions (directed corpus)
    for &(i, j, what) in CONFIG_PAIRS {
        let (ti, tj) = (fresh(i, &initial_state()), fresh(j, &initial_state()));
        if *ti == *tj {
            report.violation(Violation {
                kind: "correspondence".into(),
                check: "config-pair-distinguishable".into(),
                what: format!("configurations {} and {} ({}) give the same outputs on the initial project: the pair cannot reveal a fingerprint that misses the difference", i, j, what),
                input: json!({"configurations": [CONFIGS[i], CONFIGS[j]]}),
                failing_input_found: false,
            });
        }
        for (x, y) in [(i, j), (j, i)] {
            histories.push((canonical(&[Op::Cfg(x), Op::Process, Op::Cfg(y)]), false));
            histories.push((canonical(&[Op::Cfg(x), Op::Process, Op::Edit(F_C, 1), Op::Cfg(y)]), false));
            histories.push((canonical(&[Op::Cfg(x), Op::Process, Op::Cfg(y), Op::Process, Op::Cfg(x)]), false));
            report.count("config_pair_histories", 3);
        }
        report.hist("config_pair", what);
    }

    // ---- a configuration change that SHRINKS (or grows) the dependency set of an item, then the item
    // goes away and a former dependency is touched: no link may survive `reset` (directed, both tiers)
    for new in [3usize, 13, 14] {
        for dep in [F_M1, F_M2, F_DATA] {
            for gone in [Op::Rm(F_ENTRY), Op::RmDir(0), Op::Rm(F_M1)] {
                histories.push((canonical(&[Op::Cfg(new), Op::Process, gone, Op::Edit(dep, 1)]), false));
                histories.push((canonical(&[Op::Cfg(new), Op::Process, gone, Op::Process, Op::Edit(dep, 1)]), false));
                histories.push((canonical(&[Op::Cfg(new), Op::Process, gone, Op::Rm(dep)]), false));
                histories.push((canonical(&[Op::Cfg(new), Op::Process, Op::Cfg(0), Op::Process, gone, Op::Edit(dep, 1)]), false));
                report.count("dependency_set_change_histories", 4);
            }
        }
        histories.push((canonical(&[Op::Edit(F_B, 1), Op::Process, Op::Cfg(new), Op::Process, Op::Rm(F_B), Op::Edit(F_DATA, 1)]), false));
        histories.push((canonical(&[Op::Edit(F_B, 1), Op::Cfg(new), Op::Process, Op::Rm(F_B), Op::Rm(F_DATA)]), false));
        report.count("dependency_set_change_histories", 2);
    }
    report.exhaustive.insert("dependency-set changes (no bundle section / bundle excludes) followed by the removal of the item (file, its folder, a bundled source) and an edit or removal of each former dependency".into(), true);

    // ---- exhaustive part: every configuration is a `cfg` step up to length 3 (quick: 2); the
    // length-4 layer uses the first four configurations
    let alpha = alphabet();
    let alpha4 = alphabet_with(4);
    let mut exhaustive = Vec::new();
    let max_len = if report.is_thorough() { 3 } else { 3 };
    for len in 1..=max_len {
        enumerate(len, &alpha, &mut exhaustive);
    }
    if report.is_thorough() {
        enumerate(4, &alpha4, &mut exhaustive);
    }
    // sessions that start with a dependency missing (an item fails on the first run): length <= 2
    // (thorough: <= 3) with the first four configurations
    for init in 1..INIT_VARIANTS.len() {
        for len in 1..=(if report.is_thorough() { 3 } else { 2 }) {
            enumerate_from(init, len, &alpha4, &mut exhaustive);
        }
    }
    let exhaustive_total = exhaustive.len();
    if !report.is_thorough() {
        // quick: all of length <= 2, a seeded slice of length 3
        let body = |h: &Vec<Op>| h.iter().filter(|o| !matches!(o, Op::Init(_))).count();
        let mut short: Vec<Vec<Op>> = exhaustive.iter().filter(|h| body(h) <= 3).cloned().collect();
        let mut long: Vec<Vec<Op>> = exhaustive.into_iter().filter(|h| body(h) > 3).collect();
        rng.shuffle(&mut long);
        long.truncate(3000);
        short.extend(long);
        exhaustive = short;
        report.exhaustive.insert(format!("histories of length <= 2 over the {}-op alphabet (all {} configurations as cfg steps)", alpha.len(), CONFIGS.len()), true);
    } else {
        report.exhaustive.insert(format!("histories of length <= 3 over the {}-op alphabet (all {} configurations as cfg steps)", alpha.len(), CONFIGS.len()), true);
        report.exhaustive.insert(format!("histories of length 4 over the {}-op alphabet (configurations 0-3)", alpha4.len()), true);
        // plus a seeded slice of length 5
        let mut five = Vec::new();
        let n5 = 60_000;
        for _ in 0..n5 {
            let mut state = initial_state();
            let mut h = Vec::new();
            while h.len() < 5 {
                let op = *rng.pick(&alpha);
                if op_valid(&state, op) {
                    apply_to_state(&mut state, op);
                    h.push(op);
                }
            }
            five.push(canonical(&h));
        }
        exhaustive.extend(five);
    }
    report.exhaustive.insert(format!("sessions starting with lib/m2.lua, data.json or m1.lua missing: histories of length <= {} over the {}-op alphabet", if report.is_thorough() { 3 } else { 2 }, alpha4.len()), true);
    report.exhaustive.insert("configuration pairs differing in one respect (generator, generator parameter, rule filters, rule list, property value, rule order, bundle setting), both directions".into(), true);
    report.count("enumerated_total", exhaustive_total as u64);
    histories.extend(exhaustive.into_iter().map(|h| (h, false)));

    // ---- random histories up to length 30
    let n_random = if report.is_thorough() { 30_000 } else { 2_500 };
    for _ in 0..n_random {
        let len = 5 + rng.below(26);
        // two thirds are steered to stay inside H10 (otherwise long histories nearly always
        // run into one of the defect regions early and the rest of them is not judged)
        let guided = rng.below(3) != 0;
        let mut h = random_history(&mut rng, len);
        if rng.below(3) == 0 {
            let mut with_init = vec![Op::Init(1 + rng.below(INIT_VARIANTS.len() - 1))];
            with_init.extend(h);
            h = canonical(&with_init);
        }
        histories.push((h, guided));
    }

    // ---- run
    let histories = Arc::new(histories);
    let mut oracle_fail: BTreeMap<String, Vec<Vec<Op>>> = BTreeMap::new(); // region -> histories
    let mut unexplained: Vec<(Vec<Op>, String)> = Vec::new();
    let mut corr_fail: Vec<(Vec<Op>, String, Option<String>)> = Vec::new();
    let mut n_oracle_checked = 0u64;
    let mut n_in_h = 0u64;
    let hang = {
        let report_cell = std::cell::RefCell::new(&mut *report);
        run_parallel(histories.clone(), threads, |h, v| {
            let mut report = report_cell.borrow_mut();
            let nontrivial = h.iter().any(|o| *o != Op::Process && *o != Op::Collect);
            report.case(if nontrivial { Some(&h) } else { None });
            report.hist("length", &format!("{:02}", (h.len() + 4) / 5 * 5));
            for op in h.iter() {
                report.hist("op", op.kind());
            }
            report.hist("region", v.region.as_deref().unwrap_or("H10"));
            n_oracle_checked += v.processed as u64;
            if v.region.is_none() {
                n_in_h += 1;
                report.hist("length_inside_H10", &format!("{:02}", (h.len() + 4) / 5 * 5));
            }
            if v.skipped {
                report.count("correspondence_skipped_slot_allocation_dependent", 1);
            }
            if report.samples.len() < 6 && h.len() >= 4 {
                report.sample(json!({"history": history_json(&h), "region": v.region, "oracle": v.oracle}));
            }
            match (&v.oracle, &v.region) {
                (Some(what), Some(region)) => {
                    report.hist("oracle_failures_in_region", region);
                    let e = oracle_fail.entry(region.clone()).or_default();
                    if e.len() < 3 {
                        e.push(h.clone());
                    }
                    let _ = what;
                }
                (Some(what), None) => unexplained.push((h.clone(), what.clone())),
                _ => {}
            }
            if let Some(c) = &v.correspondence {
                corr_fail.push((h.clone(), c.clone(), v.region.clone()));
            }
        })
    };
    report.count("process_steps_compared_with_fresh_run", n_oracle_checked);
    report.count("histories_inside_H10", n_in_h);
    report.count("model_requests", histories.len() as u64);

    if let Some(h) = hang {
        report.violation(Violation {
            kind: "oracle".into(),
            check: "no-hang".into(),
            what: "a history did not finish within 60 s".into(),
            input: json!({"history": history_json(&h)}),
            failing_input_found: true,
        });
        return;
    }

    // ---- the assumption `DepSound` of the theorem, tested on the real T: editing or deleting an
    // existing file other than the source and its reported dependencies does not change T
    {
        let mut entries: Vec<((usize, FsState, usize), Arc<TRes>)> =
            t_cache().lock().unwrap().iter().map(|(k, v)| (k.clone(), v.clone())).collect();
        entries.sort_by(|a, b| a.0.cmp(&b.0));
        rng.shuffle(&mut entries);
        entries.truncate(if report.is_thorough() { 4000 } else { 400 });
        let mut checked = 0u64;
        for ((cfg, state, f), res) in entries {
            for g in 0..FILES.len() {
                if g == f || state[g].is_none() || res.deps.iter().any(|d| d == FILES[g].0) {
                    continue;
                }
                let mut variants: Vec<Option<usize>> = vec![None];
                variants.extend((0..FILES[g].1.len()).map(Some));
                for v in variants {
                    if v == state[g] {
                        continue;
                    }
                    let mut st2 = state.clone();
                    st2[g] = v;
                    let res2 = measure_t(cfg, &st2, f);
                    checked += 1;
                    if *res2 != *res {
                        report.violation(Violation {
                            kind: "correspondence".into(),
                            check: "assumption-DepSound".into(),
                            what: format!(
                                "T of {} under configuration {} changes when the unrelated existing file {} is {} (reported deps {:?})",
                                FILES[f].0, cfg, FILES[g].0, if v.is_none() { "deleted" } else { "edited" }, res.deps
                            ),
                            input: json!({"cfg": cfg, "state": format!("{:?}", state), "file": FILES[f].0, "changed": FILES[g].0}),
                            failing_input_found: false,
                        });
                    }
                }
            }
        }
        report.count("depsound_assumption_checks", checked);
    }

    // ---- verdicts
    // (1) the real code breaks the property inside the proved region H10
    unexplained.sort_by_key(|(h, _)| h.len());
    for (h, what) in unexplained.iter().take(3) {
        let small = shrink(h, &mut |c| judge_oracle(c).is_some() && run_model(&mut model, c).map(|m| m.region.is_none()).unwrap_or(true));
        let what = judge_oracle(&small).unwrap_or(what.clone());
        report.violation(Violation {
            kind: "oracle".into(),
            check: "incremental-equals-fresh".into(),
            what,
            input: json!({"history": history_json(&small), "found_as": history_json(h)}),
            failing_input_found: true,
        });
    }
    // (2) model and real code differ
    corr_fail.sort_by_key(|(h, _, _)| h.len());
    for (h, what, region) in corr_fail.iter().take(3) {
        let small = shrink(h, &mut |c| judge(&mut model, c).correspondence.is_some());
        let v = judge(&mut model, &small);
        // is there a real failure nearby (inside H10)?
        let failing = v.oracle.is_some() && v.region.is_none();
        report.violation(Violation {
            kind: if failing { "oracle".into() } else { "correspondence".into() },
            check: "model-vs-worker".into(),
            what: format!("{} (region {:?}); shrunk: {:?}", what, region, v.correspondence),
            input: json!({"history": history_json(&small), "found_as": history_json(h)}),
            failing_input_found: failing,
        });
    }
    // (5) the root-level project (entry next to its dependencies; single-file input), oracle only
    {
        let hs = root_histories(3);
        let mut failures: Vec<(Vec<RootOp>, String)> = Vec::new();
        for h in hs.iter() {
            report.case(Some(format!("root {:?}", h)));
            report.hist("root_project_length", &format!("{}", h.len()));
            if let Some(what) = root_judge(h) {
                failures.push((h.clone(), what));
            }
        }
        report.count("root_project_histories", hs.len() as u64);
        report.exhaustive.insert("root-level project: histories of length <= 3 over its 11-op alphabet (fresh-run oracle only)".into(), true);
        failures.sort_by_key(|(h, _)| h.len());
        for (h, what) in failures.iter().take(2) {
            report.violation(Violation {
                kind: "oracle".into(),
                check: "root-level-entry".into(),
                what: what.chars().take(300).collect(),
                input: json!({"project": "root", "root_history": root_history_json(h), "failing_histories": failures.len()}),
                failing_input_found: true,
            });
        }
    }
    // (4) the on-hold path (last, because a hanging run keeps a core busy until exit)
    {
        let listed = known_findings("C10").iter().any(|e| e["id"] == "F26" && e["status"] == "known");
        // control: requiring the file itself is filtered out by apply_rules -> must terminate
        if on_hold_run_terminates("src/a.lua", 20) != Some(true) {
            report.notes.push("on-hold control run (self requirement) did not terminate cleanly".to_owned());
        }
        // requiring another work item: terminates only if that item happens to be visited first
        let other = on_hold_run_terminates("src/b.lua", 5);
        report.notes.push(format!("on-hold run requiring another work item: {}", match other {
            Some(true) => "terminates",
            Some(false) => "panics",
            None => "does not terminate",
        }));
        match on_hold_run_terminates("lib/not-a-work-item.lua", if report.is_thorough() { 20 } else { 8 }) {
            None if listed => report.known_finding(
                "F26",
                "a fresh run with a user-defined rule whose require_content names a path that is not a work item did not terminate (work loop: done_count is reset every pass but compared with the initial total_not_done)",
            ),
            None => report.violation(Violation {
                kind: "oracle".into(),
                check: "no-loop-on-hold".into(),
                what: "WorkerTree::process does not terminate when a rule puts an item on hold (Rule::require_content)".into(),
                input: json!({"rule": "require_content(src/a.lua) = [lib/not-a-work-item.lua]", "files": ["src/a.lua", "src/b.lua"]}),
                failing_input_found: true,
            }),
            Some(_) => {
                if listed {
                    report.notes.push("F26: the on-hold run terminates now".to_owned());
                }
                // and it must report the stall as an error, with the other file processed
                match on_hold_run("src/a.lua", "lib/not-a-work-item.lua", 8) {
                    Some((true, 1, false)) => {}
                    other => report.violation(Violation {
                        kind: "oracle".into(),
                        check: "no-loop-on-hold".into(),
                        what: format!("run with src/a.lua on hold for a path that is no work item: {:?} (expected: no panic, one output, Err result)", other),
                        input: json!({"rule": "require_content(src/a.lua) = [lib/not-a-work-item.lua]", "files": ["src/a.lua", "src/b.lua"]}),
                        failing_input_found: true,
                    }),
                }
            }
        }
        // an item on hold for ANOTHER work item must finish in a later pass, whichever is visited first
        // (the visit order follows the HashMap order of `collect_work`, so repeat to meet both orders)
        for (only_for, required) in [("src/a.lua", "src/b.lua"), ("src/b.lua", "src/a.lua")].repeat(8) {
            match on_hold_run(only_for, required, 8) {
                Some((true, 2, true)) => {}
                other => report.violation(Violation {
                    kind: "oracle".into(),
                    check: "no-loop-on-hold".into(),
                    what: format!("run with {} on hold for {}: {:?} (expected: no panic, both outputs written, Ok result)", only_for, required, other),
                    input: json!({"rule": format!("require_content({}) = [{}]", only_for, required), "files": ["src/a.lua", "src/b.lua"]}),
                    failing_input_found: true,
                }),
            }
        }
        // the model's counter logic agrees: 2 pending, pass 1 finishes 1, pass 2 nothing -> error;
        // pass 1 finishes both -> exits
        let a = model.ask("c10.genloop 2 0 2 1 0 0");
        let b = model.ask("c10.genloop 2 0 2 2");
        if a != "errors" || b != "exits" {
            report.violation(Violation {
                kind: "correspondence".into(),
                check: "genloop".into(),
                what: format!("model counter logic answers {} / {} (expected errors / exits)", a, b),
                input: json!({"requests": ["c10.genloop 2 0 2 1 0 0", "c10.genloop 2 0 2 2"]}),
                failing_input_found: false,
            });
        }
        report.count("on_hold_runs", 3);
    }
    // (3) failures inside an excluded region must be covered by a listed finding of that region
    for (region, hs) in oracle_fail.iter() {
        if !findings.iter().any(|f| f.region == *region) {
            let h = &hs[0];
            let small = shrink(h, &mut |c| {
                judge_oracle(c).is_some() && run_model(&mut model, c).map(|m| m.region.as_deref() == Some(region.as_str())).unwrap_or(false)
            });
            report.violation(Violation {
                kind: "oracle".into(),
                check: "unlisted-defect-region".into(),
                what: format!("failure in region {} which has no entry in known_findings.json: {}", region, judge_oracle(&small).unwrap_or_default()),
                input: json!({"history": history_json(&small)}),
                failing_input_found: true,
            });
        }
    }
}
