//! Property C03: retain_lines with no rules reproduces the source byte for byte.
//!
//! (1) state-machine correspondence: writer traces of the real `TokenBasedLuaGenerator` (hook
//!     `verif hook: token-based generator writer trace`) are replayed in the Lean model
//!     (`C03.run`), output / line counter / commenting flag / inserted-byte counters must agree;
//!     sources: random token soups written directly through the generator, and parsed programs;
//!     plus `should_break_with_space` (exhaustive over ASCII pairs) and `is_single_line_comment`.
//! (2) hypothesis check on every empty-rule trace: it must be a *token tiling* of the source
//!     (this tests `ast_converter` + the `*_with_tokens` writers).
//! (3) oracle: trivia-rich generated sources through `darklua_core::process` with `{rules: []}`
//!     must come out bytewise identical when inside H3 (classified by the Lean driver).
use crate::model::{hex, unhex, Model};
use crate::report::{known_findings, Report, Violation};
use crate::rng::Rng;
use darklua_core::generator::{LuaGenerator, TokenBasedLuaGenerator};
use darklua_core::nodes::{
    Block, BlockTokens, Expression, Identifier, Position, ReturnStatement, ReturnTokens, Token,
    TriviaKind,
};
use darklua_core::verif_hooks::{should_break_with_space, trace_start, trace_take, TraceOp};
use darklua_core::{Configuration, Options, Resources};
use serde_json::{json, Value};

// ------------------------------------------------------------------------------------------
// per-thread accumulator (folded into the Report on the main thread)
// ------------------------------------------------------------------------------------------

#[derive(Default)]
pub struct Acc {
    pub violations: Vec<Violation>,
    pub hists: std::collections::BTreeMap<(String, String), u64>,
    pub cases: Vec<Option<u64>>,
    pub counts: Vec<(String, u64)>,
    pub samples: Vec<Value>,
    pub notes: Vec<String>,
}

impl Acc {
    pub fn violation(&mut self, v: Violation) {
        // at most a handful PER CHECK: a systematic break of one check (e.g. the exhaustive
        // is_single_line_comment table) must not crowd out the failing inputs of the others (seeded C03-m9)
        let same = self.violations.iter().filter(|x| x.kind == v.kind && x.check == v.check).count();
        if same < 5 {
            self.violations.push(v);
        }
    }
    pub fn hist(&mut self, name: &str, bucket: &str) {
        *self.hists.entry((name.to_owned(), bucket.to_owned())).or_default() += 1;
    }
    pub fn case<K: std::hash::Hash>(&mut self, key: Option<K>) {
        self.cases.push(key.map(|k| crate::report::hash_of(&k)));
    }
    pub fn count(&mut self, name: &str, n: u64) {
        self.counts.push((name.to_owned(), n));
    }
    pub fn sample(&mut self, v: Value) {
        if self.samples.len() < 3 {
            self.samples.push(v);
        }
    }
    pub fn flush(self, report: &mut Report) {
        for v in self.violations {
            report.violation(v);
        }
        for ((name, bucket), n) in self.hists {
            *report.histograms.entry(name).or_default().entry(bucket).or_default() += n;
        }
        for c in self.cases {
            report.case(c);
        }
        for (name, n) in self.counts {
            report.count(&name, n);
        }
        for s in self.samples {
            report.sample(s);
        }
        report.notes.extend(self.notes);
    }
}

// ------------------------------------------------------------------------------------------
// real code
// ------------------------------------------------------------------------------------------

/// How the run is told to use the retain_lines generator and where its configuration comes
/// from: every way must behave the same.
#[derive(Debug, Clone, Copy, PartialEq, Eq, Hash)]
pub enum ConfigMode {
    /// `Options::with_configuration`, the configuration omits the generator (retain_lines is the default)
    ApiDefault,
    /// `Options::with_configuration`, the configuration says `generator: 'retain_lines'`
    ApiRetainLines,
    /// the configuration names `dense`, `Options::with_generator_override(RetainLines)` selects retain_lines
    OverrideOverDense,
    /// the configuration names `readable` (with a column span), overridden in the same way
    OverrideOverReadable,
    /// a `.darklua.json` file in the resources (found by default), naming retain_lines
    FileJson,
    /// a `.darklua.json5` file in the resources, generator omitted
    FileJson5Default,
    /// a `.darklua.json` file naming `dense`, plus the generator override
    FileOverrideOverDense,
    /// a configuration file at a custom path given with `Options::with_configuration_at`
    FileAtPath,
}

impl ConfigMode {
    pub const ALL: [ConfigMode; 8] = [
        ConfigMode::ApiDefault,
        ConfigMode::ApiRetainLines,
        ConfigMode::OverrideOverDense,
        ConfigMode::OverrideOverReadable,
        ConfigMode::FileJson,
        ConfigMode::FileJson5Default,
        ConfigMode::FileOverrideOverDense,
        ConfigMode::FileAtPath,
    ];
    pub fn name(self) -> &'static str {
        match self {
            ConfigMode::ApiDefault => "api:default-generator",
            ConfigMode::ApiRetainLines => "api:retain_lines",
            ConfigMode::OverrideOverDense => "api:dense+override",
            ConfigMode::OverrideOverReadable => "api:readable+override",
            ConfigMode::FileJson => "file:.darklua.json",
            ConfigMode::FileJson5Default => "file:.darklua.json5(default-generator)",
            ConfigMode::FileOverrideOverDense => "file:.darklua.json(dense)+override",
            ConfigMode::FileAtPath => "file:with_configuration_at",
        }
    }
    pub fn from_name(name: &str) -> Option<ConfigMode> {
        ConfigMode::ALL.iter().copied().find(|m| m.name() == name)
    }
    /// a deterministic choice from the case itself
    pub fn of_case<K: std::hash::Hash>(key: &K) -> ConfigMode {
        ConfigMode::ALL[(crate::report::hash_of(key) % ConfigMode::ALL.len() as u64) as usize]
    }
    /// the generator the configuration text names (None = omitted)
    fn named_generator(self) -> Option<&'static str> {
        match self {
            ConfigMode::ApiDefault | ConfigMode::FileJson5Default => None,
            ConfigMode::ApiRetainLines | ConfigMode::FileJson | ConfigMode::FileAtPath => Some("'retain_lines'"),
            ConfigMode::OverrideOverDense | ConfigMode::FileOverrideOverDense => Some("'dense'"),
            ConfigMode::OverrideOverReadable => Some("{name: 'readable', column_span: 60}"),
        }
    }
    fn overrides(self) -> bool {
        matches!(
            self,
            ConfigMode::OverrideOverDense | ConfigMode::OverrideOverReadable | ConfigMode::FileOverrideOverDense
        )
    }
}

/// `darklua_core::process` on memory resources, entry -> output, with a json5 configuration body
/// that does NOT name a generator (`{rules: [...], bundle: ...}`); the mode decides how
/// retain_lines is selected and how the configuration reaches the worker.
pub fn process_with_mode(
    resources: &Resources,
    entry: &str,
    output: &str,
    config_json5: &str,
    mode: ConfigMode,
) -> Result<Result<darklua_core::WorkerTree, darklua_core::DarkluaError>, String> {
    let text = match mode.named_generator() {
        Some(generator) => {
            let body = config_json5.trim();
            let inner = body.strip_prefix('{').ok_or("configuration text must be an object")?;
            format!("{{generator: {}, {}", generator, inner)
        }
        None => config_json5.to_owned(),
    };
    let mut options = Options::new(entry).with_output(output);
    match mode {
        ConfigMode::ApiDefault
        | ConfigMode::ApiRetainLines
        | ConfigMode::OverrideOverDense
        | ConfigMode::OverrideOverReadable => {
            let config: Configuration = json5::from_str(&text).map_err(|e| e.to_string())?;
            options = options.with_configuration(config);
        }
        ConfigMode::FileJson | ConfigMode::FileOverrideOverDense => {
            resources.write(".darklua.json", &text).map_err(|e| format!("{:?}", e))?;
        }
        ConfigMode::FileJson5Default => {
            resources.write(".darklua.json5", &text).map_err(|e| format!("{:?}", e))?;
        }
        ConfigMode::FileAtPath => {
            resources.write("conf/custom.json5", &text).map_err(|e| format!("{:?}", e))?;
            options = options.with_configuration_at("conf/custom.json5");
        }
    }
    if mode.overrides() {
        options = options.with_generator_override(darklua_core::GeneratorParameters::RetainLines);
    }
    std::panic::catch_unwind(std::panic::AssertUnwindSafe(|| darklua_core::process(resources, options)))
        .map_err(|_| "panic".to_owned())
}

/// Run the real pipeline (`darklua_core::process`) on one in-memory file with a json5
/// configuration; returns the output text and the writer trace of the token-based generator.
pub fn real_process(code: &str, config_json5: &str) -> Result<(String, Vec<TraceOp>), String> {
    real_process_mode(code, config_json5, ConfigMode::ApiDefault)
}

pub fn real_process_mode(
    code: &str,
    config_json5: &str,
    mode: ConfigMode,
) -> Result<(String, Vec<TraceOp>), String> {
    let resources = Resources::from_memory();
    resources
        .write("src/main.lua", code)
        .map_err(|e| format!("{:?}", e))?;
    trace_start();
    let result = process_with_mode(&resources, "src/main.lua", "out/main.lua", config_json5, mode);
    let trace = trace_take();
    match result? {
        Err(e) => Err(format!("error: {}", e)),
        Ok(tree) => {
            let errors = tree.collect_errors();
            if !errors.is_empty() {
                return Err(format!(
                    "errors: {}",
                    errors
                        .iter()
                        .map(|e| e.to_string())
                        .collect::<Vec<_>>()
                        .join("; ")
                ));
            }
            let out = resources
                .get("out/main.lua")
                .map_err(|e| format!("{:?}", e))?;
            Ok((out, trace))
        }
    }
}

/// What the trace says, in the item encoding of `C03/Driver.lean`.
#[derive(Debug, Clone, Default)]
pub struct Encoded {
    pub items: Vec<String>,
    pub pads: u64,
    pub uncomments: u64,
    pub spaces: u64,
    /// output rebuilt from the low-level events only (push_str, pad, space, uncomment)
    pub low_level_out: String,
    pub final_line: Option<i64>,
    pub final_commenting: Option<bool>,
    pub tokens: u64,
    pub symbols: u64,
    pub raw: u64,
    pub trivia: u64,
}

pub fn encode_trace(trace: &[TraceOp]) -> Result<Encoded, String> {
    let mut e = Encoded::default();
    let mut expect_push: Option<String> = None;
    let mut in_token = false;
    for t in trace {
        match t.op {
            "token_begin" => {
                if in_token {
                    return Err("nested token_begin".into());
                }
                in_token = true;
                expect_push = None;
                e.items.push(format!("B{}", t.detail));
                e.tokens += 1;
            }
            "token_content" => {
                let line = if t.detail < 0 { "-".to_owned() } else { t.detail.to_string() };
                e.items.push(format!("K{}:{}", line, hex(t.text.as_bytes())));
                expect_push = if t.text.is_empty() { None } else { Some(t.text.clone()) };
            }
            "token_trailing" => {}
            "token_end" => {
                if !in_token {
                    return Err("token_end without begin".into());
                }
                in_token = false;
                expect_push = None;
                e.items.push("E".to_owned());
            }
            "trivia" => {
                e.items.push(format!(
                    "T{}:{}",
                    if t.detail == 0 { "c" } else { "w" },
                    hex(t.text.as_bytes())
                ));
                e.trivia += 1;
                expect_push = Some(t.text.clone());
            }
            "symbol" => {
                if in_token {
                    return Err("symbol inside token".into());
                }
                e.items.push(format!("S{}:{}", t.detail, hex(t.text.as_bytes())));
                e.symbols += 1;
                expect_push = Some(t.text.clone());
            }
            "push_str" => {
                e.low_level_out.push_str(&t.text);
                match expect_push.take() {
                    Some(x) if x == t.text => {}
                    Some(x) => return Err(format!("push_str {:?} after primitive with {:?}", t.text, x)),
                    None => {
                        if in_token {
                            return Err("raw push_str inside token".into());
                        }
                        e.items.push(format!("P:{}", hex(t.text.as_bytes())));
                        e.raw += 1;
                    }
                }
            }
            "pad" => {
                e.pads += 1;
                e.low_level_out.push('\n');
            }
            "space" => {
                e.spaces += 1;
                e.low_level_out.push(' ');
            }
            "raw_space" => {
                if in_token {
                    return Err("raw_space inside token".into());
                }
                e.spaces += 1;
                e.low_level_out.push(' ');
                e.items.push("R".to_owned());
                e.raw += 1;
            }
            "uncomment" => {
                e.uncomments += 1;
                e.low_level_out.push('\n');
            }
            "reference" => {
                // the token content just reported refers to this byte range of the original code
                if t.detail == 1 {
                    if let Some(last) = e.items.last_mut() {
                        if last.starts_with('K') {
                            if let Some(pos) = last.find(':') {
                                last.insert_str(pos, &format!("@{}", t.text));
                            }
                        }
                    }
                }
            }
            "into_string" => {
                e.final_line = Some(t.detail);
                e.final_commenting = Some(t.text == "1");
            }
            // events of the other generators' hooks, if any, are not ours
            _ => {}
        }
    }
    if in_token {
        return Err("unterminated token".into());
    }
    Ok(e)
}

#[derive(Debug, Clone, PartialEq, Eq)]
pub struct ModelRun {
    pub out: Vec<u8>,
    pub line: i64,
    pub commenting: bool,
    pub pads: u64,
    pub uncomments: u64,
    pub spaces: u64,
}

pub fn parse_model_run(answer: &str) -> Result<ModelRun, String> {
    let p: Vec<&str> = answer.split(' ').collect();
    if p.len() != 7 || p[0] != "ok" {
        return Err(format!("model answered {:?}", answer));
    }
    Ok(ModelRun {
        out: unhex(p[1]).ok_or("bad hex")?,
        line: p[2].parse().map_err(|_| "bad line")?,
        commenting: p[3] == "1",
        pads: p[4].parse().map_err(|_| "bad pads")?,
        uncomments: p[5].parse().map_err(|_| "bad uncomments")?,
        spaces: p[6].parse().map_err(|_| "bad spaces")?,
    })
}

/// Compare one real run with the model's replay of its trace. `None` = agreement.
pub fn compare_run(real_out: &str, enc: &Encoded, m: &ModelRun) -> Option<String> {
    if enc.low_level_out != real_out {
        return Some(format!(
            "the trace is incomplete: low-level events rebuild {:?}, the generator returned {:?}",
            enc.low_level_out, real_out
        ));
    }
    if m.out != real_out.as_bytes() {
        return Some(format!(
            "output differs: model {:?}, real {:?}",
            String::from_utf8_lossy(&m.out),
            real_out
        ));
    }
    if let Some(l) = enc.final_line {
        if l != m.line {
            return Some(format!("current_line differs: model {}, real {}", m.line, l));
        }
    }
    if let Some(c) = enc.final_commenting {
        if c != m.commenting {
            return Some(format!("currently_commenting differs: model {}, real {}", m.commenting, c));
        }
    }
    if (enc.pads, enc.uncomments, enc.spaces) != (m.pads, m.uncomments, m.spaces) {
        return Some(format!(
            "inserted bytes differ (pads, uncomments, spaces): model {:?}, real {:?}",
            (m.pads, m.uncomments, m.spaces),
            (enc.pads, enc.uncomments, enc.spaces)
        ));
    }
    None
}

// ------------------------------------------------------------------------------------------
// token soup: arbitrary primitive sequences through the real generator
// ------------------------------------------------------------------------------------------

#[derive(Debug, Clone)]
pub struct SoupTrivia {
    pub comment: bool,
    pub text: String,
}

#[derive(Debug, Clone)]
pub struct SoupToken {
    /// `None`: the identifier has no token and is written by `write_symbol(name)`
    pub token: bool,
    pub content: String,
    pub line: Option<usize>,
    /// content comes from the original code through a `LineNumberReference`
    pub by_reference: bool,
    pub leading: Vec<SoupTrivia>,
    pub trailing: Vec<SoupTrivia>,
}

const SOUP_TEXTS: &[&str] = &[
    "a", "b1", "_", "1", "12", ".5", "5.", "12.", "e", "5.", "..", ".", "-", "--", "[", "]", "[[", "]]", "=", "==", ">", ">=",
    "(", ")", "{", "}", ",", ";", "x\ny", "\"s\"", "'t'", "é", "日本", "[[l\nm]]", "...", "0x1F",
    "", "z9", "A", "Z_", "9", "#", "::", "<", "\n", "a\r\nb",
];
const SOUP_WS: &[&str] = &[" ", "\n", "\t", "  ", "\r\n", "\n\n", " \n ", "", "\r", "\n\t"];
const SOUP_COMMENTS: &[&str] = &[
    "--c", "-- c", "--", "--[[m]]", "--[[m\nn]]", "--[==[x]==]", "--[=[\n]=]", "--[a[", "--[ab[", "--[abc[",
    "--[abcd[", "--[=x[", "--[é[", "--[éé=[", "--[", "--[=", "--[==", "--[=[", "--[[", "--é", "--[===[ ]===]",
    "--[==é[", "--[=é=[x", "--[é=[", "--[日[", "--[日=[", "---[[x]]", "--[[]]", "--[ [", "--[=[]=]x",
];

fn soup_trivia(rng: &mut Rng) -> SoupTrivia {
    // the kind and the text are chosen independently: rules may attach anything
    let comment = rng.chance(1, 2);
    let text = if rng.chance(4, 5) == comment {
        (*rng.pick(SOUP_COMMENTS)).to_owned()
    } else {
        (*rng.pick(SOUP_WS)).to_owned()
    };
    SoupTrivia { comment, text }
}

pub fn gen_soup(rng: &mut Rng) -> Vec<SoupToken> {
    let n = 1 + rng.below(8);
    let mut line = 1usize;
    (0..n)
        .map(|i| {
            let is_return = i == 0;
            let token = is_return || !rng.chance(1, 5);
            let mut content = (*rng.pick(SOUP_TEXTS)).to_owned();
            if !token && content.is_empty() {
                content = "s".to_owned();
            }
            let line_opt = if token && rng.chance(2, 3) {
                // mostly increasing, sometimes behind or far ahead
                match rng.below(6) {
                    0 => line = line.saturating_sub(1).max(1),
                    1 => line += 1 + rng.below(3),
                    2 => line += 1,
                    _ => {}
                }
                Some(line)
            } else {
                None
            };
            let nl = rng.below(3);
            let nt = rng.below(3);
            SoupToken {
                token,
                content,
                line: line_opt,
                by_reference: line_opt.is_some() && rng.chance(1, 2),
                leading: if token { (0..nl).map(|_| soup_trivia(rng)).collect() } else { vec![] },
                trailing: if token { (0..nt).map(|_| soup_trivia(rng)).collect() } else { vec![] },
            }
        })
        .collect()
}

/// Write `return <id>, <id>, …` whose tokens are the soup, through the real generator.
/// Odd positions of the soup are the comma tokens.
pub fn run_soup(soup: &[SoupToken]) -> Result<(String, Vec<TraceOp>), String> {
    // original code: the concatenation of all by-reference texts
    let mut code = String::new();
    let mut make = |t: &SoupToken| -> Token {
        let mut token = match (t.line, t.by_reference) {
            (Some(l), true) => {
                let start = code.len();
                code.push_str(&t.content);
                Token::new_with_line(start, code.len(), l)
            }
            (Some(l), false) => Token::from_position(Position::LineNumber {
                content: t.content.clone().into(),
                line_number: l,
            }),
            (None, _) => Token::from_content(t.content.clone()),
        };
        for v in &t.leading {
            let kind = if v.comment { TriviaKind::Comment } else { TriviaKind::Whitespace };
            token.push_leading_trivia(kind.with_content(v.text.clone()));
        }
        for v in &t.trailing {
            let kind = if v.comment { TriviaKind::Comment } else { TriviaKind::Whitespace };
            token.push_trailing_trivia(kind.with_content(v.text.clone()));
        }
        token
    };
    let return_token = make(&soup[0]);
    let mut expressions: Vec<Expression> = Vec::new();
    let mut commas: Vec<Token> = Vec::new();
    let mut final_token = None;
    let rest = &soup[1..];
    let mut i = 0;
    while i < rest.len() {
        let t = &rest[i];
        // identifier position
        let mut identifier = Identifier::new(t.content.clone());
        if t.token {
            identifier = identifier.with_token(make(t));
        }
        expressions.push(identifier.into());
        i += 1;
        if i < rest.len() {
            if i + 1 < rest.len() {
                // comma position (a soup entry without token leaves the comma to write_symbol(","))
                if rest[i].token {
                    commas.push(make(&rest[i]));
                    i += 1;
                } else {
                    i += 1;
                    // no comma token from here on: `commas.get(i)` must fail for the rest too
                    // (tokens.commas is positional), so stop attaching commas
                    while i < rest.len() {
                        let t = &rest[i];
                        let mut identifier = Identifier::new(t.content.clone());
                        if t.token {
                            identifier = identifier.with_token(make(t));
                        }
                        expressions.push(identifier.into());
                        i += 1;
                    }
                }
            } else {
                // last entry: the block's final token
                if rest[i].token {
                    final_token = Some(make(&rest[i]));
                }
                i += 1;
            }
        }
    }
    let statement = ReturnStatement::new(expressions).with_tokens(ReturnTokens {
        r#return: return_token,
        commas,
    });
    let block = Block::default()
        .with_last_statement(statement)
        .with_tokens(BlockTokens {
            semicolons: vec![],
            last_semicolon: None,
            final_token,
        });
    trace_start();
    let result = std::panic::catch_unwind(std::panic::AssertUnwindSafe(|| {
        let mut generator = TokenBasedLuaGenerator::new(&code);
        generator.write_block(&block);
        generator.into_string()
    }));
    let trace = trace_take();
    result.map(|out| (out, trace)).map_err(|_| "panic".to_owned())
}

fn soup_json(soup: &[SoupToken]) -> Value {
    Value::Array(
        soup.iter()
            .map(|t| {
                json!({
                    "token": t.token, "content": t.content, "line": t.line, "by_reference": t.by_reference,
                    "leading": t.leading.iter().map(|v| json!([v.comment, v.text])).collect::<Vec<_>>(),
                    "trailing": t.trailing.iter().map(|v| json!([v.comment, v.text])).collect::<Vec<_>>(),
                })
            })
            .collect(),
    )
}

fn soup_from_json(v: &Value) -> Option<Vec<SoupToken>> {
    let triv = |x: &Value| -> Option<Vec<SoupTrivia>> {
        x.as_array()?
            .iter()
            .map(|p| {
                Some(SoupTrivia {
                    comment: p.get(0)?.as_bool()?,
                    text: p.get(1)?.as_str()?.to_owned(),
                })
            })
            .collect()
    };
    v.as_array()?
        .iter()
        .map(|t| {
            Some(SoupToken {
                token: t["token"].as_bool()?,
                content: t["content"].as_str()?.to_owned(),
                line: t["line"].as_u64().map(|x| x as usize),
                by_reference: t["by_reference"].as_bool()?,
                leading: triv(&t["leading"])?,
                trailing: triv(&t["trailing"])?,
            })
        })
        .collect()
}

// ------------------------------------------------------------------------------------------
// trivia-rich source generator
// ------------------------------------------------------------------------------------------

/// Grammar-driven generator of Lua/Luau programs as token streams.
pub struct ProgGen {
    pub rng: Rng,
    pub toks: Vec<String>,
    budget: i32,
    /// C04: every literal / global / call is a unique marker
    pub markers: bool,
    next: u32,
    /// allow Luau type annotations
    pub typed: bool,
    /// number of `;` written after a return statement (finding F25: the generator drops them)
    pub last_semicolons: u32,
    /// token indices at which a statement (or last statement) starts
    pub stmt_starts: Vec<usize>,
    /// inside a temporary token buffer (indices would be meaningless)
    in_temp: bool,
    /// C04: some marker strings are multi-line quoted strings (`\z`, backslash-newline)
    pub multiline_strings: bool,
}

const BINOPS: &[&str] = &[
    "+", "-", "*", "/", "//", "%", "^", "..", "==", "~=", "<", "<=", ">", ">=", "and", "or",
];
const NUMBERS: &[&str] = &[
    "0", "1", "7", "42", "123456789", "1.5", ".5", "5.", "0.25", "1e10", "1E+5", "2e-3", "1.e3", ".5e1",
    "0x1F", "0XaB", "0xff", "0b1010", "0B11", "1_000", "1_000_000.5", "0x_FF", "0b_1_0", "1__0", "9007199254740993",
    "0xFFFFFFFFFFFFFFFF", "1e309", "3.14159", "00012", "1_", "0x0",
];
const STRINGS: &[&str] = &[
    "\"\"", "''", "\"a\"", "'b'", "\"it's\"", "'say \"hi\"'", "\"\\n\\t\\\\\"", "'\\''", "\"\\\"\"", "\"\\065\\10\"",
    "\"\\x41\\x7a\"", "\"\\u{48}\\u{1F600}\"", "\"a\\z\n   b\"", "\"line\\\ncont\"", "[[long]]", "[[\nfirst newline]]",
    "[==[with ]] inside]==]", "[=[a\nb\nc]=]", "[[]]", "[===[]===]", "\"é日本🎉\"", "'tab\there'", "\"\\a\\b\\f\\v\\r\\0\"",
    "[[ends with bracket] ]]", "\"--not a comment\"", "'[[not long]]'", "[[crlf\r\ninside]]",
    "\"\\u{0}\"", "\"\\255\"",
];
const INTERP: &[&str] = &[
    "`plain`", "``", "`a{1}b`", "`{x}`", "`{x}{y}`", "`\\{not\\}`", "`{ {1} }`", "`{\"s\"} and {'t'}`", "`é{ x }日`",
    "`a\\`b`", "`{f(1, 2)}`", "`multi\\\nline`", "`{`nested {1}`}`", "`{ x --[[c]] }`", "`\\n\\t{x}\\u{41}`",
];
const NAMES: &[&str] = &["a", "b", "foo", "bar_1", "_", "_G", "self", "x9", "T", "é_not", "value", "i", "j", "k"];

impl ProgGen {
    pub fn new(rng: Rng, budget: i32) -> Self {
        ProgGen { rng, toks: Vec::new(), budget, markers: false, next: 0, typed: false, last_semicolons: 0,
            stmt_starts: Vec::new(), in_temp: false, multiline_strings: false }
    }
    fn t(&mut self, s: &str) {
        self.toks.push(s.to_owned());
        self.budget -= 1;
    }
    fn fresh(&mut self) -> u32 {
        self.next += 1;
        self.next
    }
    fn name(&mut self) {
        if self.markers {
            let k = self.fresh();
            self.t(&format!("g{}", k));
        } else {
            let n = *self.rng.pick(NAMES);
            // NAMES contains one non-ASCII candidate that Lua does not accept; replace it
            let n = if n.is_ascii() { n } else { "e_not" };
            self.t(n);
        }
    }
    fn local_name(&mut self) {
        if self.markers {
            let k = self.fresh();
            self.t(&format!("v{}", k));
        } else {
            self.name();
        }
    }
    fn number(&mut self) {
        if self.markers {
            let k = self.fresh();
            self.t(&format!("{}", 1_000_000 + k));
        } else {
            let n = *self.rng.pick(NUMBERS);
            self.t(n);
        }
    }
    fn string(&mut self) {
        if self.markers {
            let k = self.fresh();
            let q = if self.rng.chance(1, 2) { '\'' } else { '"' };
            if self.multiline_strings && self.rng.chance(1, 5) {
                // a quoted string that physically spans two lines; the marker is its first line
                let cont = if self.rng.chance(1, 2) { "\\z\n  x" } else { "\\\nx" };
                self.t(&format!("{}s{}{}{}", q, k, cont, q));
            } else {
                self.t(&format!("{}s{}{}", q, k, q));
            }
        } else {
            let s = *self.rng.pick(STRINGS);
            self.t(s);
        }
    }
    fn type_annotation(&mut self, depth: u32) {
        match self.rng.below(if depth == 0 { 4 } else { 9 }) {
            0 => self.t("number"),
            1 => self.t("string"),
            2 => self.t("any"),
            3 => {
                self.t("T");
            }
            4 => {
                self.type_annotation(depth - 1);
                self.t("?");
            }
            5 => {
                self.t("{");
                self.type_annotation(depth - 1);
                self.t("}");
            }
            6 => {
                self.t("{");
                self.t("x");
                self.t(":");
                self.type_annotation(depth - 1);
                self.t(",");
                self.t("y");
                self.t(":");
                self.type_annotation(depth - 1);
                self.t("}");
            }
            7 => {
                self.t("(");
                self.type_annotation(depth - 1);
                self.t(")");
                self.t("->");
                self.type_annotation(depth - 1);
            }
            _ => {
                self.type_annotation(depth - 1);
                self.t("|");
                self.type_annotation(depth - 1);
            }
        }
    }
    fn opt_type(&mut self) {
        if self.typed && self.rng.chance(1, 2) {
            self.t(":");
            self.type_annotation(2);
        }
    }
    fn atom(&mut self, vararg: bool) {
        match self.rng.below(if self.markers { 12 } else { 14 }) {
            0 => self.t("nil"),
            1 => self.t("true"),
            2 => self.t("false"),
            3 | 4 | 5 => self.number(),
            6 | 7 => self.string(),
            8 | 9 | 10 => self.name(),
            11 => {
                if vararg {
                    self.t("...")
                } else {
                    self.name()
                }
            }
            12 => {
                if self.rng.chance(1, 2) {
                    let s = *self.rng.pick(INTERP);
                    self.t(s);
                } else {
                    let s = self.interpolated(1);
                    self.t(&s);
                }
            }
            _ => self.string(),
        }
    }
    fn expr_list(&mut self, depth: u32, vararg: bool, min: usize, max: usize) {
        let n = min + self.rng.below(max - min + 1);
        for i in 0..n {
            if i > 0 {
                self.t(",");
            }
            self.expr(depth, vararg);
        }
    }
    fn args(&mut self, depth: u32, vararg: bool) {
        match self.rng.below(8) {
            0 => self.string(),
            1 => self.table(depth, vararg),
            _ => {
                self.t("(");
                self.expr_list(depth, vararg, 0, 3);
                self.t(")");
            }
        }
    }
    fn table(&mut self, depth: u32, vararg: bool) {
        self.t("{");
        let n = self.rng.below(4);
        for i in 0..n {
            match self.rng.below(3) {
                0 => self.expr(depth, vararg),
                1 => {
                    self.local_name();
                    self.t("=");
                    self.expr(depth, vararg);
                }
                _ => {
                    self.t("[");
                    self.expr(depth, vararg);
                    self.t("]");
                    self.t("=");
                    self.expr(depth, vararg);
                }
            }
            if i + 1 < n || self.rng.chance(1, 3) {
                let sep = if self.rng.chance(1, 3) { ";" } else { "," };
                self.t(sep);
            }
        }
        self.t("}");
    }
    /// prefix expression; `want`: 0 anything, 1 must end with a call, 2 must be assignable
    fn prefix(&mut self, depth: u32, vararg: bool, want: u8) {
        if want == 0 && depth > 0 && self.rng.chance(1, 6) {
            self.t("(");
            self.expr(depth - 1, vararg);
            self.t(")");
        } else if self.markers && want == 1 {
            let k = self.fresh();
            self.t(&format!("m{}", k));
        } else {
            self.name();
        }
        let n = self.rng.below(3);
        for _ in 0..n {
            let k = self.rng.below(4) as u8;
            self.suffix(depth, vararg, k);
        }
        match want {
            1 => {
                let k = 2 + self.rng.below(2) as u8;
                self.suffix(depth, vararg, k)
            }
            2 => {
                if n > 0 || self.rng.chance(1, 2) {
                    let k = self.rng.below(2) as u8;
                    self.suffix(depth, vararg, k)
                }
            }
            _ => {}
        }
    }
    fn suffix(&mut self, depth: u32, vararg: bool, kind: u8) {
        let d = depth.saturating_sub(1);
        match kind {
            0 => {
                self.t(".");
                self.local_name();
            }
            1 => {
                self.t("[");
                self.expr(d, vararg);
                self.t("]");
            }
            2 => self.args(d, vararg),
            _ => {
                self.t(":");
                self.local_name();
                self.args(d, vararg);
            }
        }
    }
    fn function_body(&mut self, depth: u32) {
        self.t("(");
        let n = self.rng.below(3);
        for i in 0..n {
            if i > 0 {
                self.t(",");
            }
            self.local_name();
            self.opt_type();
        }
        let vararg = self.rng.chance(1, 3);
        if vararg {
            if n > 0 {
                self.t(",");
            }
            self.t("...");
        }
        self.t(")");
        if self.typed && self.rng.chance(1, 2) {
            self.t(":");
            self.type_annotation(2);
        }
        self.block(depth, false, vararg);
        self.t("end");
    }
    pub fn expr(&mut self, depth: u32, vararg: bool) {
        if self.typed && !self.in_temp && self.rng.chance(1, 12) {
            // a cast (parenthesised: it then composes with every operator)
            self.t("(");
            self.prefix(depth.saturating_sub(1), vararg, 0);
            self.t("::");
            self.type_annotation(1);
            self.t(")");
            return;
        }
        if depth == 0 || self.budget <= 0 {
            return self.atom(vararg);
        }
        let d = depth - 1;
        match self.rng.below(16) {
            0..=3 => self.atom(vararg),
            4 | 5 | 6 => {
                self.expr(d, vararg);
                let op = *self.rng.pick(BINOPS);
                self.t(op);
                self.expr(d, vararg);
            }
            7 => {
                let op = *self.rng.pick(&["not", "-", "#"]);
                self.t(op);
                self.expr(d, vararg);
            }
            8 => {
                self.t("(");
                self.expr(d, vararg);
                self.t(")");
            }
            9 | 10 => self.table(d, vararg),
            11 => {
                self.t("function");
                self.function_body(d);
            }
            12 | 13 => self.prefix(d, vararg, 0),
            14 => {
                if self.markers && self.rng.chance(1, 3) {
                    // interpolated string whose only content are marker expressions (one token)
                    let saved = std::mem::take(&mut self.toks);
                    let was_temp = std::mem::replace(&mut self.in_temp, true);
                    self.prefix(d.min(1), vararg, 1);
                    self.in_temp = was_temp;
                    let inner = std::mem::replace(&mut self.toks, saved).join(" ");
                    if self.multiline_strings && self.rng.chance(1, 4) {
                        // literal segment with a backslash-newline after the expression
                        self.t(&format!("`{{{}}}\\\nx`", inner));
                    } else {
                        self.t(&format!("`{{{}}}`", inner));
                    }
                    return;
                }
                self.t("if");
                self.expr(d, vararg);
                self.t("then");
                self.expr(d, vararg);
                if self.rng.chance(1, 3) {
                    self.t("elseif");
                    self.expr(d, vararg);
                    self.t("then");
                    self.expr(d, vararg);
                }
                self.t("else");
                self.expr(d, vararg);
            }
            _ => self.prefix(d, vararg, 1),
        }
    }
    /// C04 bundling: first marker number of this generator (markers stay unique across files)
    pub fn set_marker_base(&mut self, base: u32) {
        self.next = base;
    }
    /// C04 bundling: a module body — `n` statements, then `return <expr>`
    pub fn module_body(&mut self, depth: u32, n: usize) {
        for _ in 0..n {
            self.statement(depth, false, false);
            if self.rng.chance(1, 6) {
                self.t(";");
            }
        }
        self.stmt_starts.push(self.toks.len());
        // a module must return exactly one value; a global marker survives every pipeline
        self.t("return");
        self.name();
    }
    /// C04 bundling: `local v<k> = require("<path>")`
    pub fn require_statement(&mut self, path: &str) {
        self.stmt_starts.push(self.toks.len());
        self.t("local");
        self.local_name();
        self.t("=");
        self.t("require");
        self.t("(");
        self.t(&format!("\"{}\"", path));
        self.t(")");
    }
    /// `n` plain statements (no last statement)
    pub fn statements(&mut self, depth: u32, n: usize) {
        for _ in 0..n {
            self.statement(depth, false, false);
        }
    }
    /// An interpolated string built compositionally (one token of the stream): literal parts
    /// drawn from a pool of spellings — among them parts whose spelling is not empty but whose
    /// VALUE is (`\z` + whitespace only), escapes, backslash-newline, non-ASCII — alternating
    /// with `{ expr }` values that carry whitespace, line breaks and comments inside the braces;
    /// every position (before the first value, between two values, after the last, the whole
    /// string) can receive every kind of part.
    pub fn interpolated(&mut self, depth: u32) -> String {
        const PARTS: &[&str] = &[
            "", "", "a", "text ", " ", "\\z  ", "\\z\n    ", "\\z\t", "\\z\r\n", "\\z \n x", "x\\z  ",
            "\\\n", "\\{", "\\u{48}", "\\n", "é日", "\\`", "1", "--not a comment", "]]", "\\x41", "\\065",
        ];
        const INNER_WS: &[&str] = &["", "", " ", "\n", "\n   ", " \t", "\r\n  ", " --[[c]] ", "\n-- c\n  "];
        let values = self.rng.below(4);
        let mut text = String::from("`");
        for i in 0..=values {
            let part = *self.rng.pick(PARTS);
            text.push_str(part);
            if i == values {
                break;
            }
            let saved = std::mem::take(&mut self.toks);
            let was_temp = std::mem::replace(&mut self.in_temp, true);
            if depth > 0 && self.rng.chance(1, 3) {
                self.prefix(depth - 1, false, 0);
            } else {
                self.atom(false);
            }
            self.in_temp = was_temp;
            let inner_toks = std::mem::replace(&mut self.toks, saved);
            let mut inner = String::new();
            for (k, t) in inner_toks.iter().enumerate() {
                if k > 0 && (lexically_glued(&inner_toks[k - 1], t) || self.rng.chance(1, 2)) {
                    inner.push(' ');
                }
                inner.push_str(t);
            }
            text.push('{');
            let before = *self.rng.pick(INNER_WS);
            // `{{` is not allowed; a comment must not swallow the value
            if inner.starts_with('{') && before.is_empty() {
                text.push(' ');
            }
            text.push_str(before);
            text.push_str(&inner);
            let after = *self.rng.pick(INNER_WS);
            if inner.ends_with('-') && after.trim_start().starts_with("--") {
                text.push(' ');
            }
            text.push_str(after);
            text.push('}');
        }
        text.push('`');
        text
    }

    /// the values of a `const` declaration of `n` names
    fn const_values(&mut self, e: u32, vararg: bool, n: usize) {
        let count = if n > 1 && self.rng.chance(1, 2) { 1 + self.rng.below(n - 1) } else { n };
        for i in 0..count {
            if i > 0 {
                self.t(",");
            }
            if count < n && i + 1 == count {
                // fewer values than names: the last one is multi-valued
                if vararg && self.rng.chance(1, 2) {
                    self.t("...");
                } else {
                    self.prefix(e, vararg, 1);
                }
            } else {
                self.expr(e, vararg);
            }
        }
    }

    /// Two statements in a row, without `;` between them: the first ends with an expression that
    /// is not a prefix expression (a literal — `1e999` among them —, a table, a function, a
    /// cast in typed mode), the second STARTS WITH A PARENTHESE. This is the only shape in which
    /// `write_block_with_tokens` has to decide whether a `;` must be written.
    fn paren_pair(&mut self, depth: u32, vararg: bool) {
        let e = depth.min(2);
        if !self.in_temp {
            self.stmt_starts.push(self.toks.len());
        }
        // the first statement is drawn from every statement kind `ends_with_prefix` decides about
        let kind = self.rng.below(9);
        match kind {
            0 => {
                let keyword = if !self.markers && self.rng.chance(1, 3) { "const" } else { "local" };
                self.t(keyword);
                self.local_name();
                self.opt_type();
                self.t("=");
            }
            4 | 5 => {
                // a declaration without values: it ends with its last name (or that name's type)
                self.t("local");
                let n = 1 + self.rng.below(3);
                for i in 0..n {
                    if i > 0 {
                        self.t(",");
                    }
                    self.local_name();
                    if i + 1 < n || kind == 5 {
                        self.opt_type();
                    }
                }
            }
            6 | 7 => {
                // statements that end with a keyword
                let d = depth.saturating_sub(1);
                match self.rng.below(7) {
                    0 => {
                        self.t("do");
                        self.block(d, false, vararg);
                        self.t("end");
                    }
                    1 => {
                        self.t("local");
                        self.t("function");
                        self.local_name();
                        self.function_body(d);
                    }
                    2 => {
                        self.t("function");
                        self.name();
                        self.function_body(d);
                    }
                    3 => {
                        self.t("while");
                        self.expr(e, vararg);
                        self.t("do");
                        self.block(d, true, vararg);
                        self.t("end");
                    }
                    4 => {
                        self.t("if");
                        self.expr(e, vararg);
                        self.t("then");
                        self.block(d, false, vararg);
                        self.t("end");
                    }
                    5 => {
                        self.t("for");
                        self.local_name();
                        self.t("in");
                        self.prefix(e, vararg, 1);
                        self.t("do");
                        self.block(d, true, vararg);
                        self.t("end");
                    }
                    _ => {
                        self.t("repeat");
                        self.block(d, true, vararg);
                        self.t("until");
                        self.number();
                    }
                }
            }
            8 if !self.markers => {
                // const with fewer values than names: ends with `...` or a call
                self.t("const");
                self.local_name();
                self.t(",");
                self.local_name();
                self.t("=");
                if vararg {
                    self.t("...");
                } else {
                    self.number();
                    self.t(",");
                    self.number();
                }
            }
            1 | 8 => {
                self.prefix(e, vararg, 2);
                self.t("=");
            }
            2 => {
                self.prefix(e, vararg, 2);
                let op = *self.rng.pick(&["+=", "-=", "..="]);
                self.t(op);
            }
            _ => {
                self.t("local");
                self.local_name();
                self.t(",");
                self.local_name();
                self.t("=");
                self.prefix(e, vararg, 1);
                self.t(",");
            }
        }
        // the ender: never a prefix expression
        let needs_ender = matches!(kind, 0 | 1 | 2 | 3) || (kind == 8 && self.markers);
        let cast = needs_ender && self.typed && self.rng.chance(1, 2);
        if !needs_ender {
            // the first statement is complete
        } else if cast {
            match self.rng.below(4) {
                0 => self.name(),
                1 => self.prefix(e, vararg, 0),
                2 => {
                    self.t("-");
                    self.name();
                }
                _ => {
                    self.name();
                    self.t("+");
                    self.prefix(e, vararg, 1);
                }
            }
            self.t("::");
            self.type_annotation(1);
        } else {
            match self.rng.below(9) {
                0 => self.t("1e999"),
                1 => self.t("-1e309"),
                2 => self.number(),
                3 => self.string(),
                4 => self.table(e, vararg),
                5 => {
                    self.t("function");
                    self.function_body(depth.saturating_sub(1));
                }
                6 => {
                    let word = *self.rng.pick(&["nil", "true", "false"]);
                    self.t(word);
                }
                7 => {
                    let s = if self.markers { "`x`".to_owned() } else { self.interpolated(0) };
                    self.t(&s);
                }
                _ => {
                    self.t("not");
                    self.number();
                }
            }
        }
        // the statement that starts with a parenthese
        if !self.in_temp {
            self.stmt_starts.push(self.toks.len());
        }
        self.t("(");
        if self.typed && self.rng.chance(1, 3) {
            self.name();
            self.t("::");
            self.type_annotation(1);
        } else {
            self.expr(e.min(1), vararg);
        }
        self.t(")");
        match self.rng.below(4) {
            0 => {
                self.t(".");
                self.local_name();
                self.t("=");
                self.expr(e, vararg);
            }
            1 => {
                self.t(":");
                self.local_name();
                self.args(e, vararg);
            }
            _ => {
                self.args(e, vararg);
                if self.rng.chance(1, 3) {
                    self.suffix(e, vararg, 2);
                }
            }
        }
    }

    pub fn block(&mut self, depth: u32, in_loop: bool, vararg: bool) {
        let n = if depth == 0 { self.rng.below(2) } else { self.rng.below(4) };
        for _ in 0..n {
            if self.budget <= 0 {
                break;
            }
            if self.rng.chance(1, 8) {
                self.paren_pair(depth, vararg);
                if self.rng.chance(1, 5) {
                    self.t(";");
                }
                continue;
            }
            self.statement(depth, in_loop, vararg);
            if self.rng.chance(1, 5) {
                self.t(";");
            }
        }
        let last = self.rng.below(if in_loop { 8 } else { 6 });
        if matches!(last, 0 | 1 | 6 | 7) && !self.in_temp {
            self.stmt_starts.push(self.toks.len());
        }
        match last {
            0 | 1 => {
                self.t("return");
                self.expr_list(depth.min(2), vararg, 0, 2);
                if self.rng.chance(1, 5) {
                    self.t(";");
                    self.last_semicolons += 1;
                }
            }
            6 => {
                self.t("break");
                if self.rng.chance(1, 5) {
                    self.t(";");
                    self.last_semicolons += 1;
                }
            }
            7 => {
                self.t("continue");
                if self.rng.chance(1, 5) {
                    self.t(";");
                    self.last_semicolons += 1;
                }
            }
            _ => {}
        }
    }
    fn statement(&mut self, depth: u32, in_loop: bool, vararg: bool) {
        if !self.in_temp {
            self.stmt_starts.push(self.toks.len());
        }
        let d = depth.saturating_sub(1);
        let e = depth.min(2);
        match self.rng.below(if depth == 0 { 4 } else { 14 }) {
            0 => {
                // `const` declarations always have values: as many as names, or fewer when the
                // last one is `...` or a call (which fill the remaining names)
                let constant = !self.markers && self.rng.chance(1, 4);
                self.t(if constant { "const" } else { "local" });
                let n = 1 + self.rng.below(3);
                for i in 0..n {
                    if i > 0 {
                        self.t(",");
                    }
                    self.local_name();
                    self.opt_type();
                }
                if constant {
                    self.t("=");
                    self.const_values(e, vararg, n);
                } else if self.rng.chance(3, 4) {
                    self.t("=");
                    self.expr_list(e, vararg, 1, 3);
                }
            }
            1 => {
                let n = 1 + self.rng.below(2);
                for i in 0..n {
                    if i > 0 {
                        self.t(",");
                    }
                    self.prefix(e, vararg, 2);
                }
                self.t("=");
                self.expr_list(e, vararg, 1, 3);
            }
            2 | 3 => self.prefix(e, vararg, 1),
            4 => {
                self.t("do");
                self.block(d, in_loop, vararg);
                self.t("end");
            }
            5 => {
                self.t("while");
                self.expr(e, vararg);
                self.t("do");
                self.block(d, true, vararg);
                self.t("end");
            }
            6 => {
                self.t("repeat");
                self.block(d, true, vararg);
                self.t("until");
                self.expr(e, vararg);
            }
            7 => {
                self.t("if");
                self.expr(e, vararg);
                self.t("then");
                self.block(d, in_loop, vararg);
                let n = self.rng.below(3);
                for _ in 0..n {
                    self.t("elseif");
                    self.expr(e, vararg);
                    self.t("then");
                    self.block(d, in_loop, vararg);
                }
                if self.rng.chance(1, 2) {
                    self.t("else");
                    self.block(d, in_loop, vararg);
                }
                self.t("end");
            }
            8 => {
                self.t("for");
                self.local_name();
                self.t("=");
                self.expr(e, vararg);
                self.t(",");
                self.expr(e, vararg);
                if self.rng.chance(1, 2) {
                    self.t(",");
                    self.expr(e, vararg);
                }
                self.t("do");
                self.block(d, true, vararg);
                self.t("end");
            }
            9 => {
                self.t("for");
                let n = 1 + self.rng.below(2);
                for i in 0..n {
                    if i > 0 {
                        self.t(",");
                    }
                    self.local_name();
                }
                self.t("in");
                self.expr_list(e, vararg, 1, 2);
                self.t("do");
                self.block(d, true, vararg);
                self.t("end");
            }
            10 => {
                self.t("function");
                self.name();
                let n = self.rng.below(3);
                for _ in 0..n {
                    self.t(".");
                    self.local_name();
                }
                if self.rng.chance(1, 3) {
                    self.t(":");
                    self.local_name();
                }
                self.function_body(d);
            }
            11 => {
                self.t("local");
                self.t("function");
                self.local_name();
                self.function_body(d);
            }
            12 => {
                self.prefix(e, vararg, 2);
                let op = *self.rng.pick(&["+=", "-=", "*=", "/=", "//=", "%=", "^=", "..="]);
                self.t(op);
                self.expr(e, vararg);
            }
            _ => {
                if self.typed {
                    if self.rng.chance(1, 2) {
                        self.t("export");
                    }
                    self.t("type");
                    self.t("T");
                    self.t("=");
                    self.type_annotation(2);
                } else {
                    self.prefix(e, vararg, 1);
                }
            }
        }
    }
}

fn is_word(c: char) -> bool {
    c.is_ascii_alphanumeric() || c == '_' || !c.is_ascii()
}

/// Two tokens that may not touch because they would lex differently.
pub fn lexically_glued(a: &str, b: &str) -> bool {
    let (x, y) = match (a.chars().last(), b.chars().next()) {
        (Some(x), Some(y)) => (x, y),
        _ => return false,
    };
    let a_is_number = a.chars().next().map(|c| c.is_ascii_digit()).unwrap_or(false)
        || (a.starts_with('.') && a.len() > 1 && a.as_bytes()[1].is_ascii_digit());
    (is_word(x) && is_word(y))
        || (a_is_number && (y == '.' || is_word(y)))
        || (x == '.' && y == '.')
        || (x == '.' && y.is_ascii_digit() && a != "..")
        || (a == "..." && y.is_ascii_digit())
        || matches!(
            (x, y),
            ('-', '-') | ('[', '[') | ('[', '=') | ('=', '=') | ('<', '=') | ('>', '=') | ('~', '=')
                | (':', ':') | ('/', '/') | ('<', '<') | ('>', '>') | ('-', '>') | ('/', '=') | ('.', '=')
                | ('+', '=') | ('*', '=') | ('%', '=') | ('^', '=') | ('-', '=')
        )
        || (a == "{" && b == "{" )
}

pub struct Layout {
    pub newline: &'static str,
    /// per mille of token gaps that get a comment
    pub comments: u32,
    /// per mille of token gaps that get at least one line break
    pub breaks: u32,
    /// per mille of positions where an avoidable space-rule hit (F7 region) is left in place
    pub f7: u32,
    /// `boundaries[i]`: the gap before token `i` (index `len` = end of file) lies between two
    /// statements (the trivia there belongs to the last token of one statement or the first
    /// token of the next). Empty = unknown (every gap treated alike).
    pub boundaries: Vec<bool>,
    /// may block comments that span several lines be placed in statement-boundary gaps?
    pub ml_at_boundary: bool,
    /// per mille of statement-boundary gaps that get a documentation block: an optional trailing
    /// comment for the statement before, then 1-4 comments on consecutive lines
    pub doc_blocks: u32,
}

impl Layout {
    pub fn plain(newline: &'static str, comments: u32, breaks: u32, f7: u32) -> Layout {
        Layout { newline, comments, breaks, f7, boundaries: Vec::new(), ml_at_boundary: true, doc_blocks: 0 }
    }
}

/// `boundaries` of a generated token stream (see `Layout::boundaries`).
pub fn statement_boundaries(toks: &[String], stmt_starts: &[usize]) -> Vec<bool> {
    let mut b = vec![false; toks.len() + 1];
    for &i in stmt_starts {
        if i <= toks.len() {
            b[i] = true;
        }
    }
    for (i, t) in toks.iter().enumerate() {
        if matches!(t.as_str(), "end" | "until" | "else" | "elseif" | ";") {
            b[i] = true;
        }
        if t == ";" {
            b[i + 1] = true;
        }
    }
    b[toks.len()] = true;
    b
}

fn line_comment(rng: &mut Rng) -> String {
    const C: &[&str] = &[
        "--", "-- a comment", "--!strict", "---doc", "--[not long", "--[a[ quirk", "--[ab[", "--]]", "-- é日本",
        "--\t tab", "--[=x[ y", "-- trailing spaces   ", "-- [[ not a block ]] more", "-- 'quote\"",
    ];
    (*rng.pick(C)).to_owned()
}

fn block_comment(rng: &mut Rng, nl: &str, allow_multiline: bool) -> String {
    if !allow_multiline {
        return (*rng.pick(&["--[[c]]", "--[==[ with ]] inside ]==]", "--[[]]", "--[[ é日本 ]]", "--[=[ one line ]=]"])).to_owned();
    }
    match rng.below(7) {
        0 => "--[[c]]".to_owned(),
        1 => format!("--[[ multi{}line ]]", nl),
        2 => "--[==[ with ]] inside ]==]".to_owned(),
        3 => format!("--[=[{}{}]=]", nl, nl),
        4 => "--[[]]".to_owned(),
        5 => "--[[ é日本 ]]".to_owned(),
        _ => format!("--[[{}-- nested line comment{}]]", nl, nl),
    }
}

/// Random trivia: whitespace and comments; `must_separate` forces a non-empty result.
fn gap(rng: &mut Rng, layout: &Layout, must_separate: bool, prev_ends_minus: bool, allow_multiline: bool) -> String {
    let nl = if layout.newline == "mixed" {
        if rng.chance(1, 2) { "\n" } else { "\r\n" }
    } else {
        layout.newline
    };
    let mut s = String::new();
    let n = match rng.below(10) {
        0..=3 => 0,
        4..=7 => 1,
        8 => 2,
        _ => 3,
    };
    for _ in 0..n {
        let r = rng.below(1000) as u32;
        if r < layout.comments {
            if prev_ends_minus && s.is_empty() {
                s.push(' ');
            }
            if rng.chance(1, 2) {
                s.push_str(&line_comment(rng));
                s.push_str(nl);
            } else {
                s.push_str(&block_comment(rng, nl, allow_multiline));
            }
        } else if r < layout.comments + layout.breaks {
            s.push_str(nl);
            if rng.chance(1, 3) {
                s.push_str(nl);
            }
            if rng.chance(1, 2) {
                s.push_str(*rng.pick(&["  ", "\t", "    ", "\t\t", " "]));
            }
        } else {
            s.push_str(*rng.pick(&[" ", "  ", "\t", " \t "]));
        }
    }
    if must_separate && s.is_empty() {
        s.push(' ');
    }
    s
}

/// A documentation block between two statements: optional trailing comment of the statement
/// before, optional blank lines, 1-4 comments each on its own line, then the next statement on
/// the following line (sometimes after a blank line).
fn doc_block(rng: &mut Rng, layout: &Layout, prev_ends_minus: bool, allow_multiline: bool) -> String {
    let nl = if layout.newline == "mixed" || layout.newline == "\r\n" { "\r\n" } else { "\n" };
    let mut s = String::new();
    if rng.chance(1, 2) {
        s.push(' ');
        if rng.chance(2, 3) {
            s.push_str(&line_comment(rng));
        } else {
            s.push_str(&block_comment(rng, nl, allow_multiline));
        }
    } else if prev_ends_minus {
        s.push(' ');
    }
    s.push_str(nl);
    for _ in 0..rng.below(3) {
        s.push_str(nl);
    }
    let k = 1 + rng.below(4);
    for _ in 0..k {
        if rng.chance(1, 4) {
            s.push_str(*rng.pick(&["  ", "\t"]));
        }
        if rng.chance(3, 4) {
            s.push_str(&line_comment(rng));
        } else {
            s.push_str(&block_comment(rng, nl, allow_multiline));
        }
        s.push_str(nl);
    }
    if rng.chance(1, 5) {
        s.push_str(nl);
    }
    s
}

/// Lay a token stream out as source text with random trivia in every position.
pub fn lay_out(rng: &mut Rng, toks: &[String], layout: &Layout) -> String {
    let mut s = String::new();
    // leading trivia of the file
    let boundary = |i: usize| layout.boundaries.get(i).copied().unwrap_or(false);
    let allow_ml = |i: usize| !boundary(i) || layout.ml_at_boundary;
    if rng.chance(1, 3) {
        s.push_str(&gap(rng, layout, false, false, allow_ml(0)));
    }
    for (i, t) in toks.iter().enumerate() {
        if i > 0 {
            let prev = &toks[i - 1];
            let glued = lexically_glued(prev, t);
            let mut g = if boundary(i) && (rng.below(1000) as u32) < layout.doc_blocks {
                doc_block(rng, layout, prev.ends_with('-'), allow_ml(i))
            } else if rng.chance(1, 3) && !glued {
                String::new()
            } else {
                gap(rng, layout, glued, prev.ends_with('-'), allow_ml(i))
            };
            // a block comment directly followed by a token, or two tokens in direct contact:
            // stay inside H3 unless this is a chosen F7-region case
            let before = format!("{}{}", s, g);
            if let (Some(x), Some(y)) = (before.chars().last(), t.chars().next()) {
                if should_break_with_space(x, y) {
                    let harmless = (x == ']' && y == ']') || (prev == ".." && g.is_empty());
                    if !(harmless && (rng.below(1000) as u32) < layout.f7) {
                        g.push(' ');
                    }
                }
            }
            s.push_str(&g);
        }
        s.push_str(t);
    }
    // trailing trivia of the file (possibly no final newline, possibly a comment at the very end)
    match rng.below(6) {
        0 => {}
        1 => s.push_str(if layout.newline == "mixed" { "\r\n" } else { layout.newline }),
        2 => {
            s.push(' ');
            s.push_str(&line_comment(rng));
        }
        3 => {
            s.push_str(&gap(rng, layout, false, toks.last().map(|t| t.ends_with('-')).unwrap_or(false), allow_ml(toks.len())));
            s.push_str(&block_comment(rng, "\n", allow_ml(toks.len())));
        }
        _ => s.push_str(&gap(rng, layout, false, toks.last().map(|t| t.ends_with('-')).unwrap_or(false), allow_ml(toks.len()))),
    }
    s
}

pub fn gen_source(rng: &mut Rng, typed: bool) -> (String, Vec<String>, u32) {
    let mut g = ProgGen::new(rng.fork(), 30 + rng.below(120) as i32);
    g.typed = typed;
    let depth = 1 + rng.below(3) as u32;
    g.block(depth, false, true);
    let toks = std::mem::take(&mut g.toks);
    let mut layout = Layout::plain(
        *rng.pick(&["\n", "\n", "\r\n", "mixed"]),
        *rng.pick(&[0u32, 100, 250, 500]),
        *rng.pick(&[100u32, 300, 600]),
        *rng.pick(&[0u32, 0, 0, 300]),
    );
    if rng.chance(1, 4) {
        layout.boundaries = statement_boundaries(&toks, &g.stmt_starts);
        layout.doc_blocks = 250;
    }
    (lay_out(rng, &toks, &layout), toks, g.last_semicolons)
}

// ------------------------------------------------------------------------------------------
// checks
// ------------------------------------------------------------------------------------------

const EMPTY_RULES: &str = "{rules: []}";

#[derive(Debug, Clone, Copy, PartialEq, Eq)]
pub struct TilingFlags {
    pub all_tokens: bool,
    pub cover: bool,
    pub lines: bool,
    pub comments: bool,
    pub h3: bool,
}

pub fn model_tiling(model: &mut Model, src: &str, items: &[String]) -> Result<TilingFlags, String> {
    let answer = model.ask(&format!("c03.tiling {} {}", hex(src.as_bytes()), items.join(" ")));
    let p: Vec<&str> = answer.split(' ').collect();
    if p.len() != 6 || p[0] != "ok" {
        return Err(format!("model answered {:?}", answer));
    }
    Ok(TilingFlags {
        all_tokens: p[1] == "1",
        cover: p[2] == "1",
        lines: p[3] == "1",
        comments: p[4] == "1",
        h3: p[5] == "1",
    })
}

pub fn model_replay(model: &mut Model, items: &[String]) -> Result<ModelRun, String> {
    parse_model_run(&model.ask(&format!("c03.replay {}", items.join(" "))))
}

/// Does this source break the oracle (output != input although inside H3 and a tiling)?
/// Returns Some(description) when it does. Used by the search after a correspondence break.
fn oracle_fails(model: &mut Model, code: &str, mode: ConfigMode) -> Option<String> {
    let (out, trace) = real_process_mode(code, EMPTY_RULES, mode).ok()?;
    if out == code {
        return None;
    }
    let enc = encode_trace(&trace).ok()?;
    let flags = model_tiling(model, code, &enc.items).ok()?;
    if flags.h3 {
        Some(format!("output {:?} differs from input {:?} (inside H3)", out, code))
    } else {
        None
    }
}

/// One parsed source with the empty rule list: correspondence + tiling hypothesis + oracle.
/// Returns false when the source did not parse.
/// `last_semicolons` > 0: the source has a `;` after a last statement (finding F25 region, the
/// identity oracle and the tiling hypothesis are not demanded there; the state machine
/// correspondence still is).
pub fn check_source(
    report: &mut Acc,
    model: &mut Model,
    code: &str,
    typed: bool,
    last_semicolons: u32,
    label: &str,
) -> bool {
    // the way the empty rule list and retain_lines reach the worker is part of the case
    check_source_mode(report, model, code, typed, last_semicolons, label, ConfigMode::of_case(&code))
}

pub fn check_source_mode(
    report: &mut Acc,
    model: &mut Model,
    code: &str,
    typed: bool,
    last_semicolons: u32,
    label: &str,
    mode: ConfigMode,
) -> bool {
    report.hist("configuration", mode.name());
    let (out, trace) = match real_process_mode(code, EMPTY_RULES, mode) {
        Ok(x) => x,
        Err(e) => {
            if e == "panic" {
                report.violation(Violation {
                    kind: "oracle".into(),
                    check: "no-panic".into(),
                    what: "processing with an empty rule list panicked".into(),
                    input: json!({"kind": "source", "code": code, "config": EMPTY_RULES, "config_mode": mode.name()}),
                    failing_input_found: true,
                });
            }
            report.hist("source", "unparsable");
            if report.notes.is_empty() && code.len() < 120 {
                report.notes.push(format!("unparsable: {:?}: {}", code, e));
            }
            return false;
        }
    };
    let input = json!({"kind": "source", "code": code, "config": EMPTY_RULES, "typed": typed,
        "last_semicolons": last_semicolons, "config_mode": mode.name()});
    let enc = match encode_trace(&trace) {
        Ok(e) => e,
        Err(e) => {
            report.violation(Violation {
                kind: "correspondence".into(),
                check: "trace-shape".into(),
                what: format!("the writer trace is not well formed: {}", e),
                input,
                failing_input_found: false,
            });
            return true;
        }
    };
    // (1) state machine correspondence
    let m = match model_replay(model, &enc.items) {
        Ok(m) => m,
        Err(e) => {
            report.violation(Violation {
                kind: "correspondence".into(),
                check: "model-replay".into(),
                what: e,
                input,
                failing_input_found: false,
            });
            return true;
        }
    };
    if let Some(diff) = compare_run(&out, &enc, &m) {
        let found = out != code && oracle_fails(model, code, mode).is_some();
        report.violation(Violation {
            kind: if found { "oracle".into() } else { "correspondence".into() },
            check: "trace-replay(parsed)".into(),
            what: diff,
            input: input.clone(),
            failing_input_found: found,
        });
    }
    // (2) hypotheses + (3) oracle
    let flags = match model_tiling(model, code, &enc.items) {
        Ok(f) => f,
        Err(e) => {
            report.violation(Violation {
                kind: "correspondence".into(),
                check: "model-tiling".into(),
                what: e,
                input,
                failing_input_found: false,
            });
            return true;
        }
    };
    report.hist("H3", if flags.h3 { "inside" } else { "outside (F7 region)" });
    let nontrivial = enc.trivia > 0 && enc.tokens > 3;
    if last_semicolons > 0 {
        // (finding F25, fixed: the `;` after a last statement is written; no exclusion any more)
        report.hist("source", "has a `;` after a last statement");
    }
    if typed {
        // annotations may legitimately lose parentheses / spacing: compare modulo those bytes
        let strip = |s: &str| -> String { s.chars().filter(|c| !c.is_whitespace() && *c != '(' && *c != ')').collect() };
        if flags.h3 && strip(&out) != strip(code) {
            report.violation(Violation {
                kind: "oracle".into(),
                check: "identity-typed(modulo spaces and parentheses)".into(),
                what: format!("output {:?} differs from the input beyond spacing/parentheses", out),
                input,
                failing_input_found: true,
            });
        }
        report.hist("source", if out == code { "typed identical" } else { "typed differs in spacing/parentheses" });
        report.case(if nontrivial { Some((label, code)) } else { None });
        return true;
    }
    let tiling = flags.all_tokens && flags.cover && flags.lines && flags.comments;
    if !tiling {
        report.violation(Violation {
            kind: if out != code { "oracle".into() } else { "correspondence".into() },
            check: "tiling-hypothesis (tests ast_converter + *_with_tokens writers)".into(),
            what: format!(
                "the tokens written for this source are not a tiling of it: all_tokens={} cover={} lines={} comments={}; output {}",
                flags.all_tokens, flags.cover, flags.lines, flags.comments,
                if out == code { "is still identical".to_owned() } else { format!("{:?}", out) }
            ),
            input: input.clone(),
            failing_input_found: out != code,
        });
    }
    if out != code {
        if flags.h3 {
            if tiling {
                report.violation(Violation {
                    kind: "oracle".into(),
                    check: "identity".into(),
                    what: format!("output {:?} differs from the input", out),
                    input,
                    failing_input_found: true,
                });
            }
        } else {
            // F7 region: the only admissible difference is inserted spaces
            let strip = |s: &str| -> String { s.chars().filter(|c| *c != ' ').collect() };
            if strip(&out) != strip(code) || m.spaces == 0 {
                report.violation(Violation {
                    kind: "oracle".into(),
                    check: "identity(outside H3: more than inserted spaces)".into(),
                    what: format!("output {:?} differs from the input by more than F7 spaces", out),
                    input,
                    failing_input_found: true,
                });
            }
            report.hist("source", "F7 region: spaces inserted");
        }
    } else {
        report.hist("source", "identical");
    }
    report.case(if nontrivial { Some((label, code)) } else { None });
    true
}

pub fn check_soup(report: &mut Acc, model: &mut Model, soup: &[SoupToken]) {
    let input = json!({"kind": "soup", "soup": soup_json(soup)});
    let (out, trace) = match run_soup(soup) {
        Ok(x) => x,
        Err(_) => {
            report.hist("soup", "generator panicked (empty symbol)");
            return;
        }
    };
    let result = encode_trace(&trace).and_then(|enc| {
        let m = model_replay(model, &enc.items)?;
        Ok((enc, m))
    });
    match result {
        Err(e) => report.violation(Violation {
            kind: "correspondence".into(),
            check: "trace-replay(soup)".into(),
            what: e,
            input,
            failing_input_found: false,
        }),
        Ok((enc, m)) => {
            if let Some(diff) = compare_run(&out, &enc, &m) {
                report.violation(Violation {
                    kind: "correspondence".into(),
                    check: "trace-replay(soup)".into(),
                    what: diff,
                    input,
                    failing_input_found: false,
                });
            }
            let bucket = format!(
                "pads{} uncomments{} spaces{}",
                if enc.pads > 0 { "+" } else { "0" },
                if enc.uncomments > 0 { "+" } else { "0" },
                if enc.spaces > 0 { "+" } else { "0" }
            );
            report.hist("soup", &bucket);
            let nontrivial = enc.pads + enc.uncomments + enc.spaces > 0;
            report.case(if nontrivial { Some(("soup", out)) } else { None });
        }
    }
}

/// `should_break_with_space` on every ASCII pair and a sample of non-ASCII characters.
fn check_break_table(report: &mut Acc, model: &mut Model) {
    let mut requests = Vec::new();
    let mut expected = Vec::new();
    for a in 0u32..128 {
        for b in 0u32..128 {
            requests.push(format!("c03.brk {} {}", a, b));
            expected.push((a, b, should_break_with_space(char::from_u32(a).unwrap(), char::from_u32(b).unwrap())));
        }
    }
    let answers = model.ask_batch(&requests);
    for ((a, b, real), ans) in expected.iter().zip(answers.iter()) {
        report.case(if *real { Some(("brk", *a, *b)) } else { None });
        if (ans == "1") != *real {
            report.violation(Violation {
                kind: "correspondence".into(),
                check: "should_break_with_space".into(),
                what: format!("model {} real {} on ({:?}, {:?})", ans, real, char::from_u32(*a), char::from_u32(*b)),
                input: json!({"kind": "brk", "a": a, "b": b}),
                failing_input_found: false,
            });
        }
    }
    // non-ASCII characters never break; the model sees their last / first byte (>= 0x80)
    for c in ['é', '日', '🎉', '\u{80}', '\u{7ff}'] {
        for a in 0u32..128 {
            let x = char::from_u32(a).unwrap();
            if should_break_with_space(x, c) || should_break_with_space(c, x) {
                report.violation(Violation {
                    kind: "correspondence".into(),
                    check: "should_break_with_space(non-ascii)".into(),
                    what: format!("real code breaks between {:?} and {:?}; the byte model assumes it never does", x, c),
                    input: json!({"kind": "brk", "a": a, "b": c as u32}),
                    failing_input_found: false,
                });
            }
        }
    }
    for b in 128u32..256 {
        for a in [48u32, 65, 97, 95, 62, 45, 91, 93, 46] {
            let r = model.ask_batch(&[format!("c03.brk {} {}", a, b), format!("c03.brk {} {}", b, a)]);
            if r[0] != "0" || r[1] != "0" {
                report.violation(Violation {
                    kind: "correspondence".into(),
                    check: "should_break_with_space(non-ascii)".into(),
                    what: format!("model breaks on a byte >= 0x80: {} {}", a, b),
                    input: json!({"kind": "brk", "a": a, "b": b}),
                    failing_input_found: false,
                });
            }
        }
    }
}

/// `is_single_line_comment` is private: observe it through the generator (a comment trivia
/// followed by a content gets an `uncomment` newline iff it was classified as a line comment).
fn real_is_single_line_comment(text: &str) -> Option<bool> {
    // `(` never triggers the space rule, whatever the comment ends with
    let token = Token::from_content("(").with_leading_trivia(TriviaKind::Comment.with_content(text.to_owned()));
    let block = Block::default().with_tokens(BlockTokens {
        semicolons: vec![],
        last_semicolon: None,
        final_token: Some(token),
    });
    let result = std::panic::catch_unwind(std::panic::AssertUnwindSafe(|| {
        let mut generator = TokenBasedLuaGenerator::new("");
        generator.write_block(&block);
        generator.into_string()
    }));
    let out = result.ok()?;
    if out == format!("{}\n(", text) {
        Some(true)
    } else if out == format!("{}(", text) {
        Some(false)
    } else {
        None
    }
}

fn check_single_line_comment(report: &mut Acc, model: &mut Model, rng: &mut Rng) {
    // exhaustive over an alphabet that reaches every branch, up to 6 characters after `--`
    let alphabet = ['[', '=', 'a', 'é', ']'];
    let mut texts: Vec<String> = vec!["".into(), "-".into(), "--".into(), "x".into()];
    let mut frontier: Vec<String> = vec!["--".into()];
    for _ in 0..6 {
        let mut next = Vec::new();
        for f in &frontier {
            for c in alphabet {
                let mut s = f.clone();
                s.push(c);
                next.push(s);
            }
        }
        texts.extend(next.iter().cloned());
        frontier = next;
    }
    for c in SOUP_COMMENTS {
        texts.push((*c).to_owned());
    }
    for _ in 0..2000 {
        let n = 3 + rng.below(10);
        let mut s = String::from("--[");
        for _ in 0..n {
            s.push(*rng.pick(&['[', '=', '=', 'a', 'é', '日', '🎉', ']', ' ', '\n']));
        }
        texts.push(s);
    }
    let requests: Vec<String> = texts.iter().map(|t| format!("c03.slc {}", hex(t.as_bytes()))).collect();
    let answers = model.ask_batch(&requests);
    for (t, ans) in texts.iter().zip(answers.iter()) {
        let real = real_is_single_line_comment(t);
        report.case(if real == Some(false) { Some(("slc", t.clone())) } else { None });
        report.hist("is_single_line_comment", match real { Some(true) => "line", Some(false) => "multi-line", None => "unobservable" });
        if real != Some(ans == "1") {
            report.violation(Violation {
                kind: "correspondence".into(),
                check: "is_single_line_comment".into(),
                what: format!("model {} real {:?} on {:?}", ans, real, t),
                input: json!({"kind": "slc", "text": t}),
                failing_input_found: false,
            });
        }
    }
}

fn replay_known_findings(report: &mut Report) {
    for f in known_findings("C03") {
        let id = f["id"].as_str().unwrap_or("?").to_owned();
        let w = &f["witness"];
        let (code, config) = match (w["code"].as_str(), w["config"].as_str()) {
            (Some(c), Some(k)) => (c, k),
            _ => continue,
        };
        let wrong = w["output_now"].as_str().unwrap_or("");
        match real_process(code, config) {
            Ok((out, _)) => {
                if out == code {
                    // repaired: say nothing
                } else if out == wrong {
                    if f["status"] == "fixed" {
                        // a repaired finding excuses nothing: failing again is a regression
                        report.violation(Violation {
                            kind: "oracle".into(),
                            check: "fixed-finding-regressed".into(),
                            what: format!("{} (fixed by {}): {:?} is written as {:?} again", id, f["commit"], code, out),
                            input: json!({"kind": "source", "code": code, "config": config}),
                            failing_input_found: true,
                        });
                    } else {
                        report.known_finding(&id, &format!("{:?} is written as {:?}", code, out));
                    }
                } else {
                    report.violation(Violation {
                        kind: "finding-changed".into(),
                        check: "known-finding-replay".into(),
                        what: format!("{}: {:?} now gives {:?}, recorded {:?}", id, code, out, wrong),
                        input: json!({"kind": "source", "code": code, "config": config}),
                        failing_input_found: true,
                    });
                }
            }
            Err(e) => report.violation(Violation {
                kind: "finding-changed".into(),
                check: "known-finding-replay".into(),
                what: format!("{}: witness no longer processes: {}", id, e),
                input: json!({"kind": "source", "code": code, "config": config}),
                failing_input_found: true,
            }),
        }
    }
}

/// Hand-written sources: every statement kind and literal spelling at least once.
pub const FIXED_SOURCES: &[&str] = &[
    "local m = `{a}\\z\n    {b}` .. `\\z  {a}` .. `{a}\\z\t` .. `\\z ` .. `{a}\\z  {b}\\z\r\n{c}x\\z  `",
    "local i = `{ a\n   }` .. `{\n  b --[[c]]\n\t}x{ --[[d]] c }` .. `{ {1} }`",
    "return function(...) const a, b = ... return a end",
    "const a, b = f()\n(g)()\nconst c = 1\nconst d, e = 1, 2\n(h)()\nlocal function v(...) const x, y, z = 1, ... return x end",
    "local a\n(f)()\nlocal a, b -- c\n(a or b).x = 1\ndo end\n(f)()\nlocal function g() end\n(g)()\nwhile x do end\n(f):m()",
    "local a = 1e999\n(f)()\nlocal b = 'x'\n(g).h = 1\nlocal c = {}\n(c):m()\nx = function() end\n(x)()\ny = nil\n(y or z)()",
    "",
    "\n",
    "-- only a comment",
    "--[[ only a block comment ]]",
    "return",
    "return 1",
    "local a = 1 -- trailing\n--[[ block\n comment ]] local b = 2\n\n\nreturn a + b",
    "local t = { 1, 2; 3, a = 1; [\"b\"] = 2, }\r\nprint(t)\r\n",
    "f\"str\" g'str' h[[long]] k{1} m:n\"s\" m:n{ } m:n()",
    "local function f(a, b, ...) return ... end\nfunction t.a.b:c() end\nfunction g() end",
    "for i = 1, 10, 2 do break end for k, v in pairs(t) do continue end while true do end repeat until false",
    "if a then elseif b then else end if a then return end",
    "do local y; end local x ; x = 1 ; f();",
    "a.b.c = 1; a[1][2] = 3; a.b[c].d:e().f = 4",
    "x += 1 x -= 1 x *= 2 x /= 2 x //= 2 x %= 2 x ^= 2 s ..= 'a'",
    "local n = 0x1F + 0b1010 + 1_000 + 1e10 + .5 + 5. + 1E+5 - 0xFFFFFFFFFFFFFFFF",
    "local s = \"a\\z\n   b\" .. 'c\\'d' .. [==[e]]f]==] .. \"\\u{1F600}\\x41\\065\"",
    "local v = if a then b elseif c then d else e",
    "local i = `a{1}b{ {2} }c` .. `{x}` .. ``",
    "local u = -x + #t - -y ^ -2 .. not z",
    "return (f)(1)((2))",
    "return function(...) local a, b = ... return a end",
    "\tlocal a\t=\t1\t\n\t\treturn\ta",
    "local a = 1 --[[x]] --[[y]] -- z\n -- w\nreturn a",
    // long comments of level >= 2 followed by code on the SAME line (seeded C03-m9: is_single_line_comment)
    "local a = 1 --[==[ note ]==] local b = 2\nreturn a --[===[x]===] + b --[==[\nmulti ]==] , 3 --[====[]====]\t;",
    "--[==[ head ]==] local x = --[=[ one ]=] 1 --[==[ two ]==] --[===[ three ]===] return x",
    "return {\n\t-- c1\n\ta = 1, -- c2\n\t--[[ c3 ]] b = 2 ; -- c4\n}\n-- end",
    "return t[ u[1] ], t[ [[s]] ], 1 .. 2, 1 .. .2",
    "@native function f() end",
    "goto_ = 1",
];

const TYPED_SOURCES: &[&str] = &[
    "obj:m<<T>>()\nlocal r = obj :\n  m << number , string >> ( 1 )\nreturn f<<T>>(2)",
    "local a: number\n(f)()\nlocal b, c: T?\n(g)()\nconst k: number = 1\n(h)()",
    "local object = value :: Object\n(object.run)(object)\nx = a.b :: T\n(x :: any)()\ny += f() :: number\n(y)()",
    "local a: number = 1\nlocal b : string? = nil\nreturn a :: any",
    "type T = { x: number, y: string } | nil\nexport type U<V> = (V) -> V\nlocal function f<T>(a: T, ...: number): T return a end",
    "local f: (number, string) -> ...any = g\ntype A = typeof(x) & { [string]: number }",
    "type P = ( number )\nlocal x: ( string ) = ''\nfunction f(): ( number ) return 1 end",
];

fn ensure_dir(path: &str) {
    let _ = std::fs::create_dir_all(path);
}

pub fn run(report: &mut Report, replay: Option<&str>) {
    let mut model = Model::spawn();
    report.rule = "token soups: random primitive sequences (tokens with/without line, by reference or by content, \
        arbitrary trivia kinds/texts, symbols) written through the real TokenBasedLuaGenerator and replayed in the Lean model; \
        sources: grammar-generated Lua/Luau programs laid out with random whitespace/comments/line breaks in every gap \
        (LF/CRLF/mixed, tabs, `;`, table separators, call sugar, all literal spellings, with/without final newline) \
        through darklua_core::process with an empty rule list. Non-trivial = a soup in which a pad/uncomment/space was inserted, \
        a source with trivia and more than 3 tokens, a true cell of the space table, a comment classified multi-line."
        .to_owned();

    if let Some(path) = replay {
        let text = std::fs::read_to_string(path).unwrap_or_default();
        let v: Value = serde_json::from_str(&text).unwrap_or(Value::Null);
        let input = &v["input"];
        match input["kind"].as_str() {
            Some("source") => {
                let code = input["code"].as_str().unwrap_or("");
                let mut acc = Acc::default();
                check_source_mode(
                    &mut acc,
                    &mut model,
                    code,
                    input["typed"].as_bool().unwrap_or(false),
                    input["last_semicolons"].as_u64().unwrap_or(0) as u32,
                    "replay",
                    input["config_mode"].as_str().and_then(ConfigMode::from_name).unwrap_or(ConfigMode::of_case(&code)),
                );
                acc.flush(report);
            }
            Some("soup") => {
                if let Some(soup) = soup_from_json(&input["soup"]) {
                    let mut acc = Acc::default();
                    check_soup(&mut acc, &mut model, &soup);
                    acc.flush(report);
                }
            }
            _ => report.notes.push("replay: unknown input kind".to_owned()),
        }
        return;
    }

    if let Ok(code) = std::env::var("C03_PROBE") {
        let cfg = std::env::var("C03_PROBE_CONFIG").unwrap_or_else(|_| EMPTY_RULES.to_owned());
        match real_process(&code, &cfg) {
            Ok((out, trace)) => {
                eprintln!("OUT: {:?}", out);
                for t in trace {
                    eprintln!("  {:<14} {:?} {}", t.op, t.text, t.detail);
                }
            }
            Err(e) => eprintln!("ERR: {}", e),
        }
        return;
    }

    // `fork` mixes the state: consecutive seeds must not share thread streams
    let mut rng = Rng::new(report.seed).fork();
    let thorough = report.is_thorough();

    // corpus + known findings first
    replay_known_findings(report);
    let corpus_dir = concat!(env!("CARGO_MANIFEST_DIR"), "/../corpus/C03");
    ensure_dir(corpus_dir);
    if let Ok(entries) = std::fs::read_dir(corpus_dir) {
        let mut paths: Vec<_> = entries.flatten().map(|e| e.path()).collect();
        paths.sort();
        for p in paths {
            if p.extension().map(|e| e == "lua").unwrap_or(false) {
                if let Ok(code) = std::fs::read_to_string(&p) {
                    let mut acc = Acc::default();
                    for mode in ConfigMode::ALL {
                        check_source_mode(&mut acc, &mut model, &code, false, 0, "corpus", mode);
                    }
                    acc.flush(report);
                    report.count("corpus_sources", 1);
                }
            }
        }
    }

    let mut acc = Acc::default();
    check_break_table(&mut acc, &mut model);
    report.exhaustive.insert("should_break_with_space over all ASCII pairs".into(), true);
    check_single_line_comment(&mut acc, &mut model, &mut rng);
    report.exhaustive.insert("is_single_line_comment over {[,=,a,é,]}^≤6 after `--`".into(), true);

    for code in FIXED_SOURCES {
        for mode in ConfigMode::ALL {
            if !check_source_mode(&mut acc, &mut model, code, false, 0, "fixed", mode) {
                acc.notes.push(format!("fixed source does not parse: {:?}", code));
                break;
            }
        }
    }
    for code in TYPED_SOURCES {
        for mode in ConfigMode::ALL {
            if !check_source_mode(&mut acc, &mut model, code, true, 0, "fixed-typed", mode) {
                acc.notes.push(format!("typed fixed source does not parse: {:?}", code));
                break;
            }
        }
    }
    acc.flush(report);

    // random soups and sources on worker threads (one model process per thread)
    let threads = 12usize;
    let soups_per_thread = if thorough { 80_000 } else { 10_000 };
    let sources_per_thread = if thorough { 16_000 } else { 2_000 };
    let seeds: Vec<Rng> = (0..threads).map(|_| rng.fork()).collect();
    let handles: Vec<_> = seeds
        .into_iter()
        .map(|mut rng| {
            std::thread::spawn(move || {
                let mut local = Acc::default();
                let mut model = Model::spawn();
                for _ in 0..soups_per_thread {
                    let soup = gen_soup(&mut rng);
                    check_soup(&mut local, &mut model, &soup);
                }
                for i in 0..sources_per_thread {
                    let typed = i % 10 == 9;
                    let (code, _, last_semicolons) = gen_source(&mut rng, typed);
                    if check_source(&mut local, &mut model, &code, typed, last_semicolons, "generated") {
                        if local.samples.len() < 1 && code.len() < 200 {
                            local.sample(json!({"source": code}));
                        }
                    }
                }
                local
            })
        })
        .collect();
    for h in handles {
        let local = h.join().expect("worker thread panicked");
        local.flush(report);
    }
    report.notes.push(
        "typed sources (10% of generated sources, 4 fixed) are compared modulo whitespace and parentheses only; \
         the bytewise oracle covers untyped sources"
            .to_owned(),
    );
}
